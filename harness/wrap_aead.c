/*
 * Link-time interposers (-Wl,--wrap=...) that let the driver observe every AEAD seal the library
 * performs: (key fingerprint, nonce, plaintext digest), and every draw from the PRNG.  Used by C17.
 */
#include "matrixssl/matrixsslImpl.h"
#include <string.h>
#include <stdint.h>

void mxd_note_seal(const char *kind, uint32_t keyfp, const unsigned char nonce[12], uint32_t ptdigest, long len);
void mxd_note_prng(long n);

static uint32_t fnv32(const unsigned char *p, long n)
{
    uint32_t h = 2166136261u;
    long i;
    for (i = 0; i < n; i++) { h ^= p[i]; h *= 16777619u; }
    return h;
}

#define MAXCTX 256
static struct { const void *ctx; uint32_t fp; } g_map[MAXCTX];
static int g_mapn;

static void map_set(const void *ctx, uint32_t fp)
{
    int i;
    for (i = 0; i < g_mapn; i++) if (g_map[i].ctx == ctx) { g_map[i].fp = fp; return; }
    if (g_mapn < MAXCTX) { g_map[g_mapn].ctx = ctx; g_map[g_mapn].fp = fp; g_mapn++; }
    else { g_map[0].ctx = ctx; g_map[0].fp = fp; }
}

static uint32_t map_get(const void *ctx)
{
    int i;
    for (i = 0; i < g_mapn; i++) if (g_map[i].ctx == ctx) return g_map[i].fp;
    return 0;
}

void mxd_forget_ctx_range(const void *lo, const void *hi)
{
    int i;
    for (i = 0; i < g_mapn; i++)
    {
        if ((const char *) g_map[i].ctx >= (const char *) lo && (const char *) g_map[i].ctx < (const char *) hi)
        {
            g_map[i] = g_map[g_mapn - 1]; g_mapn--; i--;
        }
    }
}

int32_t __real_psAesInitGCM(psAesGcm_t *ctx, const unsigned char key[AES_MAXKEYLEN], uint8_t keylen);
int32_t __wrap_psAesInitGCM(psAesGcm_t *ctx, const unsigned char key[AES_MAXKEYLEN], uint8_t keylen)
{
    int32_t rc = __real_psAesInitGCM(ctx, key, keylen);
    map_set(ctx, fnv32(key, keylen) | 1u);
    return rc;
}

void __real_psAesEncryptGCM(psAesGcm_t *ctx, const unsigned char *pt, unsigned char *ct, uint32_t len);
void __wrap_psAesEncryptGCM(psAesGcm_t *ctx, const unsigned char *pt, unsigned char *ct, uint32_t len)
{
    /* psAesReadyGCM has stored the 96-bit nonce in ctx->IV */
    mxd_note_seal("gcm", map_get(ctx), ctx->IV, fnv32(pt, len), (long) len);
    __real_psAesEncryptGCM(ctx, pt, ct, len);
}

psRes_t __real_psChacha20Poly1305IetfInit(psChacha20Poly1305Ietf_t *ctx, const unsigned char key[32]);
psRes_t __wrap_psChacha20Poly1305IetfInit(psChacha20Poly1305Ietf_t *ctx, const unsigned char key[32])
{
    psRes_t rc = __real_psChacha20Poly1305IetfInit(ctx, key);
    map_set(ctx, fnv32(key, 32) | 1u);
    return rc;
}

psResSize_t __real_psChacha20Poly1305IetfEncrypt(psChacha20Poly1305Ietf_t *ctx, const unsigned char *pt, psSizeL_t ptlen,
    const unsigned char *iv, const unsigned char *aad, psSizeL_t aadlen, unsigned char *ct);
psResSize_t __wrap_psChacha20Poly1305IetfEncrypt(psChacha20Poly1305Ietf_t *ctx, const unsigned char *pt, psSizeL_t ptlen,
    const unsigned char *iv, const unsigned char *aad, psSizeL_t aadlen, unsigned char *ct)
{
    mxd_note_seal("chacha", map_get(ctx), iv, fnv32(pt, (long) ptlen), (long) ptlen);
    return __real_psChacha20Poly1305IetfEncrypt(ctx, pt, ptlen, iv, aad, aadlen, ct);
}

int32_t __real_psGetPrngLocked(unsigned char *bytes, psSize_t size, void *userPtr);
int32_t __wrap_psGetPrngLocked(unsigned char *bytes, psSize_t size, void *userPtr)
{
    mxd_note_prng((long) size);
    return __real_psGetPrngLocked(bytes, size, userPtr);
}
