/*
 * mxossl - one MatrixSSL endpoint against one OpenSSL endpoint over memory BIOs (C10).
 *
 *   mxossl role=client|server ver=T11|T12|T13 suite=<hex id> oname=<OpenSSL cipher name> [group=<openssl group name>]
 *          [gid=<iana id>] [sigalgs=<openssl sigalgs list>] [key=rsa|ec] [cauth=1] [resume=none|id|ticket]
 *          [sizes=n,n,...] [tag=<text>] [pad=<block>] [early=<bytes>] [suite2=<hex id> oname2=<name>]
 *   pad      TLS 1.3 record padding to a multiple of <block> on both sides (MatrixSSL tls13BlockSize, OpenSSL block padding)
 *   early    MatrixSSL server with early data enabled; on the resumed connection the OpenSSL client sends <bytes> of 0-RTT data
 *   suite2   on the second connection both sides are restricted to another suite (of another hash: the ticket cannot be used)
 *
 * role is MatrixSSL's role.  Runs a handshake, sends each payload size in both directions and compares what
 * arrives with what was sent, closes; with resume= runs a second connection that offers the first one's session.
 * Prints one JSON object (ndjson) describing both sides' view.
 */
#include <stdio.h>
#include <stdlib.h>
#include <string.h>
#include <openssl/ssl.h>
#include <openssl/err.h>
#include "matrixssl/matrixsslApi.h"
#include "matrixssl/matrixssllib.h"

#define TK "/repo/testkeys"
static const char *arg(int argc, char **argv, const char *k, const char *dflt)
{
    int i; size_t l = strlen(k);
    for (i = 1; i < argc; i++) if (!strncmp(argv[i], k, l) && argv[i][l] == '=') return argv[i] + l + 1;
    return dflt;
}

static uint64_t g_rng = 0x9e3779b97f4a7c15ULL;
int32 __wrap_psGetEntropy(unsigned char *bytes, uint32 size, void *userPtr)
{
    uint32 i;
    (void) userPtr;
    for (i = 0; i < size; i++) { g_rng ^= g_rng << 13; g_rng ^= g_rng >> 7; g_rng ^= g_rng << 17; bytes[i] = (unsigned char) (g_rng >> 32); }
    return (int32) size;
}

static int32 cert_cb(ssl_t *ssl, psX509Cert_t *cert, int32 alert) { (void) ssl; (void) cert; return alert; }

typedef struct { ssl_t *ssl; SSL *o; BIO *oin, *oout; unsigned char rx[70000]; int rxn; unsigned char orx[70000]; int orxn; int mxerr, oerr, malert; } pair_t;

/* move bytes OpenSSL -> MatrixSSL; returns number of bytes moved */
static int o2m(pair_t *p)
{
    unsigned char buf[20000];
    int n = BIO_read(p->oout, buf, sizeof(buf)), off = 0, moved = 0;
    while (n > 0)
    {
        off = 0;
        while (off < n && !p->mxerr)
        {
            unsigned char *rb, *pt; uint32 ptl;
            int32 room = matrixSslGetReadbuf(p->ssl, &rb), take, rc;
            if (room <= 0) { p->mxerr = 1; break; }
            take = n - off < room ? n - off : room;
            memcpy(rb, buf + off, take); off += take; moved += take;
            rc = matrixSslReceivedData(p->ssl, take, &pt, &ptl);
            while (rc == MATRIXSSL_APP_DATA || rc == MATRIXSSL_RECEIVED_ALERT)
            {
                if (rc == MATRIXSSL_APP_DATA) { if (p->rxn + (int) ptl <= (int) sizeof(p->rx)) { memcpy(p->rx + p->rxn, pt, ptl); p->rxn += ptl; } }
                else { p->malert = ptl >= 2 ? pt[1] : 255; if (ptl >= 2 && pt[0] == 2) p->mxerr = 1; }
                rc = matrixSslProcessedData(p->ssl, &pt, &ptl);
            }
            if (rc < 0) p->mxerr = 1;
        }
        n = BIO_read(p->oout, buf, sizeof(buf));
    }
    return moved;
}

static int m2o(pair_t *p)
{
    unsigned char *ob; int32 n; int moved = 0;
    while ((n = matrixSslGetOutdata(p->ssl, &ob)) > 0)
    {
        BIO_write(p->oin, ob, n); moved += n;
        if (matrixSslSentData(p->ssl, n) < 0) { p->mxerr = 1; break; }
    }
    return moved;
}

/* let OpenSSL make progress: handshake and reading application data */
static void ostep(pair_t *p)
{
    unsigned char buf[20000];
    int r;
    if (!SSL_is_init_finished(p->o))
    {
        r = SSL_do_handshake(p->o);
        if (r <= 0) { int e = SSL_get_error(p->o, r); if (e != SSL_ERROR_WANT_READ && e != SSL_ERROR_WANT_WRITE) { if (!p->oerr && getenv("MXO_DEBUG")) ERR_print_errors_fp(stderr); p->oerr = 1; } }
    }
    if (SSL_is_init_finished(p->o))
    {
        while ((r = SSL_read(p->o, buf, sizeof(buf))) > 0)
            if (p->orxn + r <= (int) sizeof(p->orx)) { memcpy(p->orx + p->orxn, buf, r); p->orxn += r; }
        if (r <= 0) { int e = SSL_get_error(p->o, r); if (e != SSL_ERROR_WANT_READ && e != SSL_ERROR_WANT_WRITE && e != SSL_ERROR_ZERO_RETURN) p->oerr = 1; }
    }
}

static void pump(pair_t *p)
{
    int i, moved;
    for (i = 0; i < 400; i++)
    {
        ostep(p);
        moved = o2m(p);
        moved += m2o(p);
        ostep(p);
        moved += o2m(p);
        if (!moved && BIO_pending(p->oout) == 0) break;
    }
}

int main(int argc, char **argv)
{
    const char *role = arg(argc, argv, "role", "client"), *ver = arg(argc, argv, "ver", "T12"), *oname = arg(argc, argv, "oname", "");
    const char *group = arg(argc, argv, "group", NULL), *sigalgs = arg(argc, argv, "sigalgs", NULL), *key = arg(argc, argv, "key", "rsa");
    const char *resume = arg(argc, argv, "resume", "none"), *sizes = arg(argc, argv, "sizes", "1,100,16384,20000"), *tag = arg(argc, argv, "tag", "-");
    int suite = (int) strtol(arg(argc, argv, "suite", "0"), NULL, 0), cauth = atoi(arg(argc, argv, "cauth", "0")), gid = atoi(arg(argc, argv, "gid", "0"));
    int mxclient = !strcmp(role, "client"), t13 = !strcmp(ver, "T13"), psk = strstr(oname, "PSK") != NULL;
    int conn, nconn = strcmp(resume, "none") ? 2 : 1;
    int pad = atoi(arg(argc, argv, "pad", "0")), early = atoi(arg(argc, argv, "early", "0")), suite2 = (int) strtol(arg(argc, argv, "suite2", "0"), NULL, 0);
    const char *oname2 = arg(argc, argv, "oname2", NULL);
    int maxfrag = atoi(arg(argc, argv, "maxfrag", "0"));
    int pskke = atoi(arg(argc, argv, "pskke", "0"));     /* resumption by PSK alone (psk_ke): the OpenSSL server allows it and, on the
                                                            second connection, supports no group the client has a share for */
    int scsv = atoi(arg(argc, argv, "scsv", "0"));       /* RFC 7507: the client (whichever stack) marks its ClientHello as a fallback retry; the
                                                            server's highest enabled version is the one offered, so the handshake must go on */
    int earlyok = -1, oearly = -1;
    char cert[256], pkey[256], ca[256];
    sslKeys_t *keys = NULL;
    sslSessionId_t *sid = NULL;
    SSL_CTX *ctx;
    SSL_SESSION *osess = NULL;
    static unsigned char payload[70000];
    int i;
    int done[2] = {0, 0}, odone[2] = {0, 0}, mres[2] = {0, 0}, ores[2] = {0, 0}, dataok[2] = {1, 1}, odataok[2] = {1, 1}, mxsuite[2] = {0, 0}, mxerr[2] = {0, 0}, oerr[2] = {0, 0};
    char over[2][16] = {"-", "-"}, mver[2][8] = {"-", "-"}, ocipher[2][64] = {"-", "-"}, ogroup[2][32] = {"-", "-"};
    int mgrp[2] = {0, 0};

    for (i = 0; i < (int) sizeof(payload); i++) payload[i] = (unsigned char) (i * 31 + 7);
    if (!strcmp(key, "gen"))
    {
        /* any generated identity: certdir=<dir> leaf=<cert> lkey=<key> root=<cert> */
        const char *cd = arg(argc, argv, "certdir", ".");
        snprintf(cert, sizeof(cert), "%s/%s.pem", cd, arg(argc, argv, "leaf", "leaf")); snprintf(pkey, sizeof(pkey), "%s/%s.key.pem", cd, arg(argc, argv, "lkey", "kL"));
        snprintf(ca, sizeof(ca), "%s/%s.pem", cd, arg(argc, argv, "root", "root"));
    }
    else if (!strcmp(key, "pss"))
    {
        /* rsaEncryption keys, certificates signed with RSASSA-PSS (generated into certdir=) */
        const char *cd = arg(argc, argv, "certdir", ".");
        snprintf(cert, sizeof(cert), "%s/pleaf.pem", cd); snprintf(pkey, sizeof(pkey), "%s/kPL.key.pem", cd); snprintf(ca, sizeof(ca), "%s/proot.pem", cd);
    }
    else if (!strcmp(key, "ed"))
    {
        /* Ed25519 identity and issuer, generated by the check with harness/certgen into certdir= (the repository's test keys have none) */
        const char *cd = arg(argc, argv, "certdir", ".");
        snprintf(cert, sizeof(cert), "%s/edleaf.pem", cd); snprintf(pkey, sizeof(pkey), "%s/kEL.key.pem", cd); snprintf(ca, sizeof(ca), "%s/edroot.pem", cd);
    }
    else {
    snprintf(cert, sizeof(cert), "%s/%s", TK, !strcmp(key, "ec") ? "EC/256_EC.pem" : "RSA/2048_RSA.pem");
    snprintf(pkey, sizeof(pkey), "%s/%s", TK, !strcmp(key, "ec") ? "EC/256_EC_KEY.pem" : "RSA/2048_RSA_KEY.pem");
    snprintf(ca, sizeof(ca), "%s/%s", TK, !strcmp(key, "ec") ? "EC/256_EC_CA.pem" : "RSA/2048_RSA_CA.pem");
    }

    if (matrixSslOpen() < 0) return 2;
    if (matrixSslNewKeys(&keys, NULL) < 0) return 2;
    if (matrixSslLoadKeys(keys, (!mxclient || cauth) ? cert : NULL, (!mxclient || cauth) ? pkey : NULL, NULL, ca, NULL) < 0) { printf("{\"tag\":\"%s\",\"infra\":\"loadkeys\"}\n", tag); return 0; }
    if (psk)
    {
        unsigned char pk[16], pid[8] = "mxpsk0\0";
        memset(pk, 0x40, sizeof(pk));
        matrixSslLoadPsk(keys, pk, 16, pid, 8);
    }
    if (!mxclient)
    {
        unsigned char name[16], sym[32], mac[32];
        for (i = 0; i < 16; i++) name[i] = (unsigned char) (0xA0 + i);
        for (i = 0; i < 32; i++) { sym[i] = (unsigned char) (i * 3 + 1); mac[i] = (unsigned char) (i * 5 + 2); }
        if (!strcmp(resume, "ticket") || t13) matrixSslLoadSessionTicketKeys(keys, name, sym, 32, mac, 32);
    }
    if (mxclient) matrixSslNewSessionId(&sid, NULL);

    ctx = SSL_CTX_new(mxclient ? TLS_server_method() : TLS_client_method());
    SSL_CTX_set_security_level(ctx, 0);
    {
        int v = t13 ? TLS1_3_VERSION : !strcmp(ver, "T12") ? TLS1_2_VERSION : TLS1_1_VERSION;
        SSL_CTX_set_min_proto_version(ctx, v); SSL_CTX_set_max_proto_version(ctx, v);
    }
    if (t13) SSL_CTX_set_ciphersuites(ctx, oname); else SSL_CTX_set_cipher_list(ctx, oname);
    if (pskke) SSL_CTX_set_options(ctx, SSL_OP_ALLOW_NO_DHE_KEX);
    if (scsv && !mxclient) SSL_CTX_set_mode(ctx, SSL_MODE_SEND_FALLBACK_SCSV);
    if (pad > 0) SSL_CTX_set_block_padding(ctx, (size_t) pad);
    /* maxfrag=512|1024|2048|4096: RFC 6066 max_fragment_length, asked for by whichever side is the client */
    if (maxfrag > 0 && !mxclient) SSL_CTX_set_tlsext_max_fragment_length(ctx, maxfrag == 512 ? TLSEXT_max_fragment_length_512 : maxfrag == 1024 ? TLSEXT_max_fragment_length_1024 : maxfrag == 2048 ? TLSEXT_max_fragment_length_2048 : TLSEXT_max_fragment_length_4096);
    if (group) SSL_CTX_set1_groups_list(ctx, group);
    if (sigalgs) SSL_CTX_set1_sigalgs_list(ctx, sigalgs);
    SSL_CTX_load_verify_locations(ctx, ca, NULL);
    if (mxclient || cauth)
    {
        if (SSL_CTX_use_certificate_chain_file(ctx, cert) != 1 || SSL_CTX_use_PrivateKey_file(ctx, pkey, SSL_FILETYPE_PEM) != 1) { printf("{\"tag\":\"%s\",\"infra\":\"ossl-cert\"}\n", tag); return 0; }
    }
    if (mxclient) { if (cauth) SSL_CTX_set_verify(ctx, SSL_VERIFY_PEER | SSL_VERIFY_FAIL_IF_NO_PEER_CERT, NULL); SSL_CTX_set_session_id_context(ctx, (const unsigned char *) "mxv", 3); }
    else SSL_CTX_set_verify(ctx, SSL_VERIFY_PEER, NULL);
    if (!strcmp(resume, "id")) SSL_CTX_set_options(ctx, SSL_OP_NO_TICKET);
    SSL_CTX_set_session_cache_mode(ctx, SSL_SESS_CACHE_BOTH);
    /* the pinned build of the library has renegotiation (and with it RFC 5746 signalling) compiled out: an OpenSSL 3
       client accepts such a server only with this option */
    SSL_CTX_set_options(ctx, SSL_OP_LEGACY_SERVER_CONNECT);

    for (conn = 0; conn < nconn; conn++)
    {
        pair_t p;
        sslSessOpts_t opts;
        psProtocolVersion_t pv = t13 ? v_tls_1_3 : !strcmp(ver, "T12") ? v_tls_1_2 : v_tls_1_1;
        int32 rc;
        const char *s;
        int off;
        memset(&p, 0, sizeof(p)); memset(&opts, 0, sizeof(opts));
        if (mxclient) matrixSslSessOptsSetClientTlsVersions(&opts, &pv, 1); else matrixSslSessOptsSetServerTlsVersions(&opts, &pv, 1);
        if (!strcmp(resume, "ticket")) opts.ticketResumption = 1;
        if (pad > 0) opts.tls13BlockSize = pad;
        if (maxfrag > 0 && mxclient) opts.maxFragLen = maxfrag;
        if (early > 0 && !mxclient) opts.tls13SessionMaxEarlyData = 16384;
        if (scsv && mxclient) opts.fallbackScsv = 1;
        if (gid) { uint16_t g = (uint16_t) gid; matrixSslSessOptsSetKeyExGroups(&opts, &g, 1, 1); }
        else if (arg(argc, argv, "gids", NULL))
        {
            /* gids=<id>,<id>,... shares=<n>: offered / supported groups in priority order, key shares for the first n */
            uint16_t g[8]; int ng = 0; const char *q = arg(argc, argv, "gids", "");
            while (q && *q && ng < 8) { g[ng++] = (uint16_t) atoi(q); q = strchr(q, ','); if (q) q++; }
            matrixSslSessOptsSetKeyExGroups(&opts, g, ng, atoi(arg(argc, argv, "shares", "1")));
        }
        if (mxclient)
        {
            psCipher16_t cs = (psCipher16_t) ((conn == 1 && suite2) ? suite2 : suite);
            rc = matrixSslNewClientSession(&p.ssl, keys, sid, &cs, 1, NULL, "localhost", NULL, NULL, &opts);
        }
        else rc = matrixSslNewServerSession(&p.ssl, keys, cauth ? cert_cb : NULL, &opts);
        if (rc < 0) { printf("{\"tag\":\"%s\",\"infra\":\"newsession %d\"}\n", tag, rc); return 0; }
        p.o = SSL_new(ctx);
        p.oin = BIO_new(BIO_s_mem()); p.oout = BIO_new(BIO_s_mem());
        BIO_set_mem_eof_return(p.oin, -1); BIO_set_mem_eof_return(p.oout, -1);
        SSL_set_bio(p.o, p.oin, p.oout);
        if (mxclient) SSL_set_accept_state(p.o); else { SSL_set_connect_state(p.o); if (osess) SSL_set_session(p.o, osess); }
        if (psk) { /* PSK suites need callbacks on the OpenSSL side; not wired: reported as not applicable */ }
        if (conn == 1 && pskke && mxclient) SSL_set1_groups_list(p.o, "X448");
        if (conn == 1 && oname2) { if (t13) SSL_set_ciphersuites(p.o, oname2); else SSL_set_cipher_list(p.o, oname2); }
        if (conn == 1 && early > 0 && !mxclient)
        {
            /* 0-RTT: the OpenSSL client writes early data behind its ClientHello (and its compatibility ChangeCipherSpec) */
            size_t w = 0;
            int r = SSL_write_early_data(p.o, payload + 5, (size_t) early, &w);
            oearly = (r == 1 && (int) w == early) ? 1 : 0;
        }
        m2o(&p);
        pump(&p);
        if (conn == 1 && early > 0 && !mxclient)
        {
            /* the server application must have received exactly those bytes, before anything else */
            earlyok = (p.rxn >= early && !memcmp(p.rx, payload + 5, early) && SSL_get_early_data_status(p.o) == SSL_EARLY_DATA_ACCEPTED) ? 1 : 0;
        }
        done[conn] = matrixSslHandshakeIsComplete(p.ssl) ? 1 : 0;
        odone[conn] = SSL_is_init_finished(p.o) ? 1 : 0;
        /* application data both ways */
        for (s = sizes, off = 0; done[conn] && odone[conn] && s && *s; )
        {
            int n = atoi(s), sent = 0, m0 = p.rxn, o0 = p.orxn;
            const char *c = strchr(s, ',');
            if (n > 0 && n <= 65000)
            {
                /* MatrixSSL -> OpenSSL, in records of at most 16384 bytes */
                while (sent < n)
                {
                    unsigned char *wb; int32 room = matrixSslGetWritebuf(p.ssl, &wb, n - sent), take;
                    if (room <= 0) { p.mxerr = 1; break; }
                    take = room < n - sent ? room : n - sent;
                    memcpy(wb, payload + off + sent, take);
                    if (matrixSslEncodeWritebuf(p.ssl, take) < 0) { p.mxerr = 1; break; }
                    sent += take;
                }
                m2o(&p); pump(&p);
                if (p.orxn - o0 != n || memcmp(p.orx + o0, payload + off, n)) odataok[conn] = 0;
                /* OpenSSL -> MatrixSSL */
                if (SSL_write(p.o, payload + off + 1, n) != n) p.oerr = 1;
                pump(&p);
                if (p.rxn - m0 != n || memcmp(p.rx + m0, payload + off + 1, n)) dataok[conn] = 0;
                off = (off + 977) % 4000;
            }
            s = c ? c + 1 : NULL;
            if (p.rxn > 60000) p.rxn = 0;
            if (p.orxn > 60000) p.orxn = 0;
        }
        if (!done[conn] || !odone[conn]) { dataok[conn] = 0; odataok[conn] = 0; }
        /* a TLS 1.3 server sends its tickets after the handshake: let them arrive before the session is saved */
        pump(&p);
        mres[conn] = matrixSslIsResumedSession(p.ssl) ? 1 : 0; ores[conn] = SSL_session_reused(p.o) ? 1 : 0;
        mxsuite[conn] = p.ssl->cipher ? p.ssl->cipher->ident : 0;
        snprintf(mver[conn], sizeof(mver[conn]), "%s", USING_TLS_1_3(p.ssl) ? "T13" : NGTD_VER(p.ssl, v_tls_1_2) ? "T12" : NGTD_VER(p.ssl, v_tls_1_1) ? "T11" : "?");
        snprintf(over[conn], sizeof(over[conn]), "%s", SSL_get_version(p.o));
        snprintf(ocipher[conn], sizeof(ocipher[conn]), "%s", SSL_get_cipher_name(p.o));
        { int nid = SSL_get_negotiated_group(p.o); const char *gn = nid ? OBJ_nid2sn(nid) : NULL; snprintf(ogroup[conn], sizeof(ogroup[conn]), "%s", gn ? gn : "-"); }
        mgrp[conn] = USING_TLS_1_3(p.ssl) ? p.ssl->tls13NegotiatedGroup : 0;
        mxerr[conn] = p.mxerr; oerr[conn] = p.oerr;
        if (!mxclient && conn == 0 && nconn == 2) { if (osess) SSL_SESSION_free(osess); osess = SSL_get1_session(p.o); }
        /* closure */
        { unsigned char *ob; (void) ob; matrixSslEncodeClosureAlert(p.ssl); m2o(&p); SSL_shutdown(p.o); pump(&p); }
        matrixSslDeleteSession(p.ssl);
        SSL_free(p.o);
    }
    printf("{\"tag\":\"%s\",\"role\":\"%s\",\"ver\":\"%s\",\"suite\":%d,\"oname\":\"%s\",\"key\":\"%s\",\"cauth\":%d,\"resume\":\"%s\",\"group\":\"%s\",\"nconn\":%d,\"hrr\":%d,"
           "\"done\":[%d,%d],\"odone\":[%d,%d],\"mres\":[%d,%d],\"ores\":[%d,%d],\"dataok\":[%d,%d],\"odataok\":[%d,%d],\"mxsuite\":[%d,%d],\"mver\":[\"%s\",\"%s\"],"
           "\"over\":[\"%s\",\"%s\"],\"ocipher\":[\"%s\",\"%s\"],\"ogroup\":[\"%s\",\"%s\"],\"mgrp\":[%d,%d],\"mxerr\":[%d,%d],\"oerr\":[%d,%d],\"pad\":%d,\"early\":%d,\"earlyok\":%d,\"oearly\":%d,\"suite2\":%d,\"oname2\":\"%s\",\"maxfrag\":%d,\"pskke\":%d}\n",
           tag, role, ver, suite, oname, key, cauth, resume, group ? group : "-", nconn, atoi(arg(argc, argv, "hrr", "0")), done[0], done[1], odone[0], odone[1], mres[0], mres[1], ores[0], ores[1],
           dataok[0], dataok[1], odataok[0], odataok[1], mxsuite[0], mxsuite[1], mver[0], mver[1], over[0], over[1], ocipher[0], ocipher[1], ogroup[0], ogroup[1], mgrp[0], mgrp[1],
           mxerr[0], mxerr[1], oerr[0], oerr[1], pad, early, earlyok, oearly, suite2, oname2 ? oname2 : "-", maxfrag, pskke);
    if (osess) SSL_SESSION_free(osess);
    SSL_CTX_free(ctx);
    if (sid) matrixSslDeleteSessionId(sid);
    matrixSslDeleteKeys(keys);
    matrixSslClose();
    return 0;
}
