/* mxpk: drives MatrixSSL's public-key verification, decryption, import and key-agreement functions with inputs built
   by an independent implementation (OpenSSL libcrypto) that holds the private keys: encoded blocks of chosen
   structural classes signed / encrypted with the raw RSA operation, ECDSA signatures with chosen (r, s) and DER
   classes, points and DH values of chosen classes.  One ndjson line per case: the class (ground truth) and what the
   library answered.  The MxPk specification says which verdict each class must get.

   usage: mxpk -s script -t trace        (keys are read from /repo/testkeys)
   script lines:
     rsav    seed=<s> key=1024|2048|4096 hash=sha1|sha256|sha384|sha512 cls=<class> [api=digestinfo|raw]
     pssv    seed=<s> key=2048 hash=sha256|sha384|sha512 cls=<class>
     rsadec  seed=<s> key=.. cls=<class> mlen=<n>
     rsaenc  seed=<s> key=.. mlen=<n>                (library encrypts, OpenSSL decrypts)
     rsasign seed=<s> key=.. hash=..                 (library signs, bytes must equal OpenSSL's)
     ecv     seed=<s> curve=256|384|521 hash=sha256|sha384|sha512 r=<cls> s=<cls> der=<cls> hashc=match|other keyc=right|other
     ecsign  seed=<s> curve=.. hash=..               (library signs, OpenSSL verifies)
     ecpoint seed=<s> curve=.. cls=<class>           (import, then ECDH when imported)
     dh      seed=<s> params=1024|2048 cls=<class>
     x25519  seed=<s>
     edv     seed=<s> cls=<class> mlen=<n>
     reset <tag>
*/
#include "crypto/cryptoImpl.h"
#include <stdio.h>
#include <stdlib.h>
#include <string.h>
#include <stdint.h>
#include <openssl/evp.h>
#include <openssl/pem.h>
#include <openssl/rsa.h>
#include <openssl/ec.h>
#include <openssl/ecdsa.h>
#include <openssl/bn.h>
#include <openssl/dh.h>
#include <openssl/rand.h>
#include <openssl/sha.h>

#define TK "/repo/testkeys"
static FILE *g_tr;
static long g_i = 0;
static void die(const char *m) { fprintf(stderr, "mxpk: %s\n", m); exit(3); }
static unsigned char mbyte(long seed, long i) { return (unsigned char) ((i * 131 + seed * 17 + 7 + (i >> 8) * 29) & 0xff); }
static void fill(unsigned char *p, long seed, long from, long n) { long k; for (k = 0; k < n; k++) p[k] = mbyte(seed, from + k); }
static const char *opt(char **tok, int n, const char *k, const char *d)
{
    int i; size_t l = strlen(k);
    for (i = 0; i < n; i++) if (!strncmp(tok[i], k, l) && tok[i][l] == '=') return tok[i] + l + 1;
    return d;
}
static long opti(char **tok, int n, const char *k, long d) { const char *v = opt(tok, n, k, NULL); return v ? atol(v) : d; }
static int is(const char *a, const char *b) { return !strcmp(a, b); }

/* deterministic "random" for OpenSSL is not needed: randomised signatures are only checked for validity */

static const EVP_MD *md_by(const char *n) { return is(n, "sha1") ? EVP_sha1() : is(n, "sha256") ? EVP_sha256() : is(n, "sha384") ? EVP_sha384() : EVP_sha512(); }
static int hlen_by(const char *n) { return is(n, "sha1") ? 20 : is(n, "sha256") ? 32 : is(n, "sha384") ? 48 : 64; }
static int32_t rsa_sigalg(const char *n) { return is(n, "sha1") ? OID_SHA1_RSA_SIG : is(n, "sha256") ? OID_SHA256_RSA_SIG : is(n, "sha384") ? OID_SHA384_RSA_SIG : OID_SHA512_RSA_SIG; }
static int32_t ec_sigalg(const char *n) { return is(n, "sha1") ? OID_SHA1_ECDSA_SIG : is(n, "sha256") ? OID_SHA256_ECDSA_SIG : is(n, "sha384") ? OID_SHA384_ECDSA_SIG : OID_SHA512_ECDSA_SIG; }

static EVP_PKEY *load_pkey(const char *path)
{
    FILE *f = fopen(path, "r"); EVP_PKEY *k;
    if (!f) die("cannot open key file");
    k = PEM_read_PrivateKey(f, NULL, NULL, NULL); fclose(f);
    if (!k) die("cannot parse key file (OpenSSL)");
    return k;
}

/* ---------------------------------------------------------------- RSA */
typedef struct { int bits; EVP_PKEY *ok; psRsaKey_t mk; int loaded; BIGNUM *n; } rsak_t;
static rsak_t g_rsa[3] = { { 1024 }, { 2048 }, { 4096 } };
static rsak_t *rsa_get(long bits)
{
    int i; char path[256];
    for (i = 0; i < 3; i++) if (g_rsa[i].bits == bits) break;
    if (i == 3) die("rsa key size");
    if (!g_rsa[i].loaded)
    {
        snprintf(path, sizeof(path), TK "/RSA/%ld_RSA_KEY.pem", bits);
        g_rsa[i].ok = load_pkey(path);
        if (psPkcs1ParsePrivFile(NULL, path, NULL, &g_rsa[i].mk) < 0) die("psPkcs1ParsePrivFile");
        g_rsa[i].n = NULL; EVP_PKEY_get_bn_param(g_rsa[i].ok, "n", &g_rsa[i].n);
        g_rsa[i].loaded = 1;
    }
    return &g_rsa[i];
}
/* raw private-key operation em^d mod n (em as k bytes) */
static int rsa_raw_priv(rsak_t *k, const unsigned char *em, int klen, unsigned char *out)
{
    EVP_PKEY_CTX *c = EVP_PKEY_CTX_new(k->ok, NULL); size_t ol = klen; int ok;
    ok = EVP_PKEY_sign_init(c) > 0 && EVP_PKEY_CTX_set_rsa_padding(c, RSA_NO_PADDING) > 0 && EVP_PKEY_sign(c, out, &ol, em, klen) > 0;
    EVP_PKEY_CTX_free(c);
    return ok && (int) ol == klen;
}
static int rsa_raw_pub(rsak_t *k, const unsigned char *em, int klen, unsigned char *out)
{
    EVP_PKEY_CTX *c = EVP_PKEY_CTX_new(k->ok, NULL); size_t ol = klen; int ok;
    ok = EVP_PKEY_encrypt_init(c) > 0 && EVP_PKEY_CTX_set_rsa_padding(c, RSA_NO_PADDING) > 0 && EVP_PKEY_encrypt(c, out, &ol, em, klen) > 0;
    EVP_PKEY_CTX_free(c);
    return ok && (int) ol == klen;
}
static const unsigned char DI_SHA1[] = { 0x30, 0x21, 0x30, 0x09, 0x06, 0x05, 0x2b, 0x0e, 0x03, 0x02, 0x1a, 0x05, 0x00, 0x04, 0x14 };
static const unsigned char DI_SHA256[] = { 0x30, 0x31, 0x30, 0x0d, 0x06, 0x09, 0x60, 0x86, 0x48, 0x01, 0x65, 0x03, 0x04, 0x02, 0x01, 0x05, 0x00, 0x04, 0x20 };
static const unsigned char DI_SHA384[] = { 0x30, 0x41, 0x30, 0x0d, 0x06, 0x09, 0x60, 0x86, 0x48, 0x01, 0x65, 0x03, 0x04, 0x02, 0x02, 0x05, 0x00, 0x04, 0x30 };
static const unsigned char DI_SHA512[] = { 0x30, 0x51, 0x30, 0x0d, 0x06, 0x09, 0x60, 0x86, 0x48, 0x01, 0x65, 0x03, 0x04, 0x02, 0x03, 0x05, 0x00, 0x04, 0x40 };
/* DigestInfo of the given class around hash h; returns length */
static int build_di(const char *hash, const char *cls, const unsigned char *h, unsigned char *out)
{
    const unsigned char *pre = is(hash, "sha1") ? DI_SHA1 : is(hash, "sha256") ? DI_SHA256 : is(hash, "sha384") ? DI_SHA384 : DI_SHA512;
    int pl = is(hash, "sha1") ? (int) sizeof(DI_SHA1) : (int) sizeof(DI_SHA256), hl = hlen_by(hash), n = 0;
    if (is(cls, "di_noparams"))
    {   /* AlgorithmIdentifier without the NULL parameters */
        memcpy(out, pre, pl); memmove(out + pl - 4, out + pl - 2, 2); n = pl - 2; out[1] -= 2; out[3] -= 2;
        memcpy(out + n, h, hl); return n + hl;
    }
    if (is(cls, "di_badparams"))
    {   /* parameters of another type: OCTET STRING of length 0 instead of NULL */
        memcpy(out, pre, pl); out[pl - 4] = 0x04; memcpy(out + pl, h, hl); return pl + hl;
    }
    if (is(cls, "di_otheroid"))
    {   /* names another hash of the family: last OID byte changed */
        memcpy(out, pre, pl); out[pl - 5] ^= 0x07; memcpy(out + pl, h, hl); return pl + hl;
    }
    if (is(cls, "di_berlen"))
    {   /* outer SEQUENCE length in long form (0x81 nn): BER, not DER */
        out[0] = 0x30; out[1] = 0x81; out[2] = pre[1]; memcpy(out + 3, pre + 2, pl - 2); memcpy(out + pl + 1, h, hl); return pl + 1 + hl;
    }
    if (is(cls, "di_hashshort"))
    {   /* the OCTET STRING claims one byte less; the last hash byte trails behind the structure */
        memcpy(out, pre, pl); out[pl - 1] -= 1; out[1] -= 1; memcpy(out + pl, h, hl); return pl + hl;
    }
    memcpy(out, pre, pl); memcpy(out + pl, h, hl); return pl + hl;
}
static void cmd_rsav(char **tok, int ntok)
{
    long seed = opti(tok, ntok, "seed", 1), bits = opti(tok, ntok, "key", 2048);
    const char *hash = opt(tok, ntok, "hash", "sha256"), *cls = opt(tok, ntok, "cls", "canon"), *api = opt(tok, ntok, "api", "digestinfo");
    rsak_t *k = rsa_get(bits);
    int klen = (int) bits / 8, hl = hlen_by(hash), dl, padlen, i, rc, built = 1, siglen = klen;
    unsigned char msg[64], h[64], di[128], em[600], sig[700]; unsigned int ul;
    psPubKey_t pk; psVerifyOptions_t opts; psBool_t res = PS_FALSE;
    fill(msg, seed, 0, 40);
    EVP_Digest(msg, 40, h, &ul, md_by(hash), NULL);
    if (is(cls, "hashflip")) h[seed % hl] ^= 0x10;
    dl = build_di(hash, cls, h, di);
    if (is(api, "raw")) { memcpy(di, h, hl); dl = hl; }          /* TLS < 1.2 style: the bare hash is the payload */
    memset(em, 0xff, klen);
    em[0] = 0x00; em[1] = 0x01;
    padlen = klen - 3 - dl;
    if (is(cls, "padshort") || is(cls, "padshort7"))
    {   /* 8 (or 7) bytes of padding, the payload right behind it, garbage up to the end of the block */
        padlen = is(cls, "padshort") ? 8 : 7;
        for (i = 2 + padlen + 1 + dl; i < klen; i++) em[i] = mbyte(seed + 9, i);
    }
    em[2 + padlen] = 0x00; memcpy(em + 3 + padlen, di, dl);
    if (is(cls, "lead")) em[0] = 0x01;
    else if (is(cls, "bt00")) em[1] = 0x00;
    else if (is(cls, "bt02")) em[1] = 0x02;
    else if (is(cls, "padnonff")) em[2 + (seed % padlen)] = 0xfe;
    else if (is(cls, "padzero")) em[2 + 8 + (seed % (padlen - 8))] = 0x00;      /* an early separator: what follows is not a DigestInfo */
    else if (is(cls, "sep01")) em[2 + padlen] = 0x01;
    else if (is(cls, "nosep")) em[2 + padlen] = 0xff;
    if (!rsa_raw_priv(k, em, klen, sig)) built = 0;
    if (is(cls, "plusn") && built)
    {   /* s + n: the same residue, but not a signature representative (RFC 8017 8.2.2 step 2a) */
        BIGNUM *s = BN_bin2bn(sig, klen, NULL); BN_add(s, s, k->n);
        if (BN_num_bytes(s) > klen) built = 0; else BN_bn2binpad(s, sig, klen);
        BN_free(s);
    }
    if (is(cls, "sigflip")) sig[seed % klen] ^= 0x04;
    if (is(cls, "sigshort")) siglen = klen - 1;                      /* the last byte is missing */
    if (is(cls, "siglong")) { sig[klen] = 0x00; siglen = klen + 1; }
    memset(&pk, 0, sizeof(pk)); pk.type = PS_RSA; pk.keysize = klen; pk.key.rsa = k->mk;
    memset(&opts, 0, sizeof(opts)); opts.msgIsDigestInfo = is(api, "raw") ? PS_FALSE : PS_TRUE;
    if (is(api, "raw"))
    {   /* psVerifySig on the bare hash */
        EVP_Digest(msg, 40, h, &ul, md_by(hash), NULL);
        rc = psVerifySig(NULL, h, (psSizeL_t) hl, sig, (psSize_t) siglen, &pk, rsa_sigalg(hash), &res, NULL);
    }
    else
    {
        rc = psVerify(NULL, msg, 40, sig, (psSize_t) siglen, &pk, rsa_sigalg(hash), &res, &opts);
    }
    fprintf(g_tr, "{\"i\":%ld,\"k\":\"rsav\",\"key\":%ld,\"hash\":\"%s\",\"api\":\"%s\",\"cls\":\"%s\",\"built\":%d,\"rc\":%d,\"accepted\":%d}\n", g_i++, bits, hash, api,
        built ? cls : "unbuildable", built, rc, rc == PS_SUCCESS && res == PS_TRUE);
}

static void mgf1(const EVP_MD *md, const unsigned char *seedb, int sl, unsigned char *mask, int ml)
{
    unsigned char buf[80], d[64]; unsigned int dl; int done = 0; uint32_t c = 0;
    while (done < ml)
    {
        int m;
        memcpy(buf, seedb, sl); buf[sl] = (unsigned char) (c >> 24); buf[sl + 1] = (unsigned char) (c >> 16); buf[sl + 2] = (unsigned char) (c >> 8); buf[sl + 3] = (unsigned char) c; c++;
        EVP_Digest(buf, sl + 4, d, &dl, md, NULL);
        m = ml - done < (int) dl ? ml - done : (int) dl; memcpy(mask + done, d, m); done += m;
    }
}
static void cmd_pssv(char **tok, int ntok)
{
    long seed = opti(tok, ntok, "seed", 1), bits = opti(tok, ntok, "key", 2048);
    const char *hash = opt(tok, ntok, "hash", "sha256"), *cls = opt(tok, ntok, "cls", "canon");
    rsak_t *k = rsa_get(bits);
    const EVP_MD *md = md_by(hash);
    int klen = (int) bits / 8, hl = hlen_by(hash), sl = hl, emlen = klen, dbl, i, rc, built = 1;
    unsigned char msg[64], mh[64], salt[80], mp[8 + 64 + 80], H[64], db[600], mask[600], em[600], sig[600]; unsigned int ul;
    psPubKey_t pk; psVerifyOptions_t opts; psBool_t res = PS_FALSE;
    fill(msg, seed, 0, 40); EVP_Digest(msg, 40, mh, &ul, md, NULL);
    if (is(cls, "hashflip")) mh[seed % hl] ^= 0x01;
    if (is(cls, "saltshort")) sl = hl - 1;
    if (is(cls, "saltlong")) sl = hl + 1;
    if (is(cls, "salt0")) sl = 0;
    fill(salt, seed + 3, 0, sl);
    memset(mp, 0, 8); memcpy(mp + 8, mh, hl); memcpy(mp + 8 + hl, salt, sl);
    EVP_Digest(mp, 8 + hl + sl, H, &ul, md, NULL);
    dbl = emlen - hl - 1;
    memset(db, 0, dbl); db[dbl - sl - 1] = 0x01; memcpy(db + dbl - sl, salt, sl);
    if (is(cls, "psnonzero")) db[(seed % (dbl - sl - 2)) + 1] = 0x01;
    if (is(cls, "sep02")) db[dbl - sl - 1] = 0x02;
    mgf1(md, H, hl, mask, dbl);
    for (i = 0; i < dbl; i++) em[i] = db[i] ^ mask[i];
    em[0] &= 0x7f;                                    /* emBits = modBits - 1: the top bit is cleared */
    if (is(cls, "topbit")) em[0] |= 0x80;
    memcpy(em + dbl, H, hl); em[emlen - 1] = is(cls, "trailer") ? 0xbd : 0xbc;
    if (is(cls, "topbit"))
    {   /* a block with the top bit set is >= 2^(8k-1); it is only a valid input to the private operation if < n */
        BIGNUM *e = BN_bin2bn(em, klen, NULL); if (BN_cmp(e, k->n) >= 0) built = 0; BN_free(e);
    }
    if (built && !rsa_raw_priv(k, em, klen, sig)) built = 0;
    if (is(cls, "sigflip")) sig[seed % klen] ^= 0x20;
    memset(&pk, 0, sizeof(pk)); pk.type = PS_RSA; pk.keysize = klen; pk.key.rsa = k->mk;
    memset(&opts, 0, sizeof(opts)); opts.useRsaPss = PS_TRUE;
    opts.rsaPssHashAlg = is(hash, "sha1") ? PKCS1_SHA1_ID : is(hash, "sha256") ? PKCS1_SHA256_ID : is(hash, "sha384") ? PKCS1_SHA384_ID : PKCS1_SHA512_ID;
    opts.rsaPssHashLen = (psSize_t) hl; opts.rsaPssSaltLen = (psSize_t) hl;
    rc = psVerify(NULL, msg, 40, sig, (psSize_t) klen, &pk, OID_RSASSA_PSS, &res, &opts);
    fprintf(g_tr, "{\"i\":%ld,\"k\":\"pssv\",\"key\":%ld,\"hash\":\"%s\",\"cls\":\"%s\",\"built\":%d,\"rc\":%d,\"accepted\":%d}\n", g_i++, bits, hash, built ? cls : "unbuildable", built, rc,
        rc == PS_SUCCESS && res == PS_TRUE);
}

static void cmd_rsadec(char **tok, int ntok)
{
    long seed = opti(tok, ntok, "seed", 1), bits = opti(tok, ntok, "key", 2048), mlen = opti(tok, ntok, "mlen", 48);
    const char *cls = opt(tok, ntok, "cls", "canon");
    rsak_t *k = rsa_get(bits);
    int klen = (int) bits / 8, padlen, i, rc, built = 1;
    unsigned char m[600], em[600], ct[600], out[600];
    if (mlen > klen - 11) die("mlen");
    fill(m, seed, 0, mlen);
    padlen = klen - 3 - (int) mlen;
    em[0] = 0x00; em[1] = 0x02;
    for (i = 0; i < padlen; i++) { em[2 + i] = mbyte(seed + 5, i); if (em[2 + i] == 0) em[2 + i] = 0x5a; }
    em[2 + padlen] = 0x00; memcpy(em + 3 + padlen, m, mlen);
    if (is(cls, "lead")) em[0] = 0x01;
    else if (is(cls, "bt01")) { em[1] = 0x01; memset(em + 2, 0xff, padlen); }
    else if (is(cls, "bt00")) em[1] = 0x00;
    else if (is(cls, "nosep")) { for (i = 2; i < klen; i++) if (em[i] == 0) em[i] = 0x77; }
    else if (is(cls, "padzero")) em[2 + (seed % 8)] = 0x00;       /* a zero among the first eight padding bytes: PS shorter than 8 */
    if (!rsa_raw_pub(k, em, klen, ct)) built = 0;
    memset(out, 0xee, sizeof(out));
    rc = psRsaDecryptPriv(NULL, &k->mk, ct, (psSize_t) klen, out, (psSize_t) mlen, NULL);
    fprintf(g_tr, "{\"i\":%ld,\"k\":\"rsadec\",\"key\":%ld,\"cls\":\"%s\",\"mlen\":%ld,\"built\":%d,\"rc\":%d,\"accepted\":%d,\"ptok\":%d}\n", g_i++, bits, built ? cls : "unbuildable", mlen, built, rc,
        rc >= 0, rc >= 0 && !memcmp(out, m, mlen) && out[mlen] == 0xee);
}
static void cmd_rsaenc(char **tok, int ntok)
{
    long seed = opti(tok, ntok, "seed", 1), bits = opti(tok, ntok, "key", 2048), mlen = opti(tok, ntok, "mlen", 48);
    rsak_t *k = rsa_get(bits);
    int klen = (int) bits / 8, rc, ok = 0;
    unsigned char m[600], ct[600], out[600]; size_t ol = sizeof(out);
    EVP_PKEY_CTX *c;
    fill(m, seed, 0, mlen);
    rc = psRsaEncryptPub(NULL, &k->mk, m, (psSize_t) mlen, ct, (psSize_t) klen, NULL);
    if (rc >= 0)
    {
        c = EVP_PKEY_CTX_new(k->ok, NULL);
        ok = EVP_PKEY_decrypt_init(c) > 0 && EVP_PKEY_CTX_set_rsa_padding(c, RSA_PKCS1_PADDING) > 0 && EVP_PKEY_decrypt(c, out, &ol, ct, klen) > 0 && (long) ol == mlen && !memcmp(out, m, mlen);
        EVP_PKEY_CTX_free(c);
    }
    fprintf(g_tr, "{\"i\":%ld,\"k\":\"rsaenc\",\"key\":%ld,\"mlen\":%ld,\"rc\":%d,\"fits\":%d,\"ok\":%d}\n", g_i++, bits, mlen, rc, mlen <= klen - 11, ok);
}
static void cmd_rsasign(char **tok, int ntok)
{
    long seed = opti(tok, ntok, "seed", 1), bits = opti(tok, ntok, "key", 2048);
    const char *hash = opt(tok, ntok, "hash", "sha256");
    rsak_t *k = rsa_get(bits);
    int klen = (int) bits / 8, rc, ok = 0;
    unsigned char msg[64], ref[600], *sig = NULL; psSize_t sigLen = 0; size_t rl = sizeof(ref);
    psPubKey_t pk; psSignOpts_t so;
    EVP_MD_CTX *mc = EVP_MD_CTX_new();
    fill(msg, seed, 0, 40);
    EVP_DigestSignInit(mc, NULL, md_by(hash), NULL, k->ok); EVP_DigestSign(mc, ref, &rl, msg, 40); EVP_MD_CTX_free(mc);
    memset(&pk, 0, sizeof(pk)); pk.type = PS_RSA; pk.keysize = klen; pk.key.rsa = k->mk;
    memset(&so, 0, sizeof(so));
    { unsigned char h[64]; unsigned int ul; EVP_Digest(msg, 40, h, &ul, md_by(hash), NULL);       /* psSign takes the hash for RSA / ECDSA */
      rc = psSign(NULL, &pk, rsa_sigalg(hash), h, (psSizeL_t) hlen_by(hash), &sig, &sigLen, &so); }
    if (rc >= 0 && sig) ok = sigLen == rl && !memcmp(sig, ref, rl);
    fprintf(g_tr, "{\"i\":%ld,\"k\":\"rsasign\",\"key\":%ld,\"hash\":\"%s\",\"rc\":%d,\"ok\":%d}\n", g_i++, bits, hash, rc, ok);
    if (sig) psFree(sig, NULL);
}

/* ---------------------------------------------------------------- EC */
typedef struct { int bits; const char *file; int nid; EVP_PKEY *ok; EVP_PKEY *other; psEccKey_t mk; psEccKey_t mother; int loaded; BIGNUM *n, *p; EC_GROUP *grp; } eck_t;
static eck_t g_ec[3] = { { 256, "256", NID_X9_62_prime256v1 }, { 384, "384", NID_secp384r1 }, { 521, "521", NID_secp521r1 } };
static eck_t *ec_get(long bits)
{
    int i; char path[256];
    for (i = 0; i < 3; i++) if (g_ec[i].bits == bits) break;
    if (i == 3) die("curve");
    if (!g_ec[i].loaded)
    {
        eck_t *e = &g_ec[i];
        snprintf(path, sizeof(path), TK "/EC/%s_EC_KEY.pem", e->file);
        e->ok = load_pkey(path);
        if (psEccParsePrivFile(NULL, path, NULL, &e->mk) < 0) die("psEccParsePrivFile");
        snprintf(path, sizeof(path), TK "/EC/%s_EC_CA_KEY.pem", e->file);
        e->other = load_pkey(path);
        if (psEccParsePrivFile(NULL, path, NULL, &e->mother) < 0) die("psEccParsePrivFile (other)");
        e->grp = EC_GROUP_new_by_curve_name(e->nid); e->n = BN_new(); e->p = BN_new();
        EC_GROUP_get_order(e->grp, e->n, NULL); EC_GROUP_get_curve(e->grp, e->p, NULL, NULL, NULL);
        e->loaded = 1;
    }
    return &g_ec[i];
}
static int der_int(const BIGNUM *v, int neg, int leadzero, unsigned char *out)
{   /* INTEGER; neg: emit the two's-complement style negative (top bit set, no leading zero); leadzero: one superfluous 00 */
    unsigned char b[140]; int n = BN_bn2bin(v, b), k = 0, pad;
    if (n == 0) { b[0] = 0; n = 1; }
    pad = (b[0] & 0x80) && !neg ? 1 : 0;
    if (neg && !(b[0] & 0x80)) b[0] |= 0x80;
    out[k++] = 0x02; out[k++] = (unsigned char) (n + pad + leadzero);
    if (leadzero) out[k++] = 0x00;
    if (pad) out[k++] = 0x00;
    memcpy(out + k, b, n); return k + n;
}
static void cmd_ecv(char **tok, int ntok)
{
    long seed = opti(tok, ntok, "seed", 1), bits = opti(tok, ntok, "curve", 256);
    const char *hash = opt(tok, ntok, "hash", "sha256"), *rc_ = opt(tok, ntok, "r", "ok"), *sc = opt(tok, ntok, "s", "ok"), *der = opt(tok, ntok, "der", "canon"),
               *hashc = opt(tok, ntok, "hashc", "match"), *keyc = opt(tok, ntok, "keyc", "right");
    eck_t *e = ec_get(bits);
    unsigned char msg[64], h[64], dsig[300], body[300], sig[320]; unsigned int ul; size_t dl = sizeof(dsig);
    const unsigned char *pp; ECDSA_SIG *es; BIGNUM *r, *s; const BIGNUM *r0, *s0;
    int hl = hlen_by(hash), bl = 0, sl = 0, rc, status = -99, built = 1;
    EVP_PKEY_CTX *c;
    fill(msg, seed, 0, 40); EVP_Digest(msg, 40, h, &ul, md_by(hash), NULL);
    c = EVP_PKEY_CTX_new(e->ok, NULL);
    if (!(EVP_PKEY_sign_init(c) > 0 && EVP_PKEY_sign(c, dsig, &dl, h, hl) > 0)) die("ecdsa sign (OpenSSL)");
    EVP_PKEY_CTX_free(c);
    pp = dsig; es = d2i_ECDSA_SIG(NULL, &pp, (long) dl); ECDSA_SIG_get0(es, &r0, &s0); r = BN_dup(r0); s = BN_dup(s0);
    if (is(rc_, "zero")) BN_zero(r); else if (is(rc_, "n")) BN_copy(r, e->n); else if (is(rc_, "plusn")) BN_add(r, r, e->n); else if (is(rc_, "flip")) { if (BN_is_bit_set(r, 3)) BN_clear_bit(r, 3); else BN_set_bit(r, 3); }
    if (is(sc, "zero")) BN_zero(s); else if (is(sc, "n")) BN_copy(s, e->n); else if (is(sc, "plusn")) BN_add(s, s, e->n); else if (is(sc, "twin")) BN_sub(s, e->n, s);
    else if (is(sc, "flip")) { if (BN_is_bit_set(s, 5)) BN_clear_bit(s, 5); else BN_set_bit(s, 5); }
    bl = der_int(r, is(rc_, "neg"), is(der, "leadzero"), body);
    bl += der_int(s, is(sc, "neg"), 0, body + bl);
    if (is(rc_, "neg") && (BN_num_bits(r) % 8) == 0) built = 0;     /* top bit already set: the plain encoding has a leading 00, not a negative */
    if (is(sc, "neg") && (BN_num_bits(s) % 8) == 0) built = 0;
    sig[sl++] = 0x30;
    if (is(der, "longlen") || bl > 127) { sig[sl++] = 0x81; sig[sl++] = (unsigned char) bl; } else sig[sl++] = (unsigned char) bl;
    if (is(der, "longlen") && bl > 127) built = 0;                   /* long form is the canonical one there */
    memcpy(sig + sl, body, bl); sl += bl;
    if (is(der, "trail")) { sig[sl++] = 0x00; sig[sl++] = 0x00; }
    if (is(der, "trunc")) sl -= 3;                                   /* the SEQUENCE claims more than is there */
    if (is(der, "seqshort")) sig[sig[1] == 0x81 ? 2 : 1] -= 2;       /* the SEQUENCE ends inside s */
    if (is(hashc, "other")) h[seed % (hl < (int) (bits / 8) ? hl : (int) (bits / 8))] ^= 0x40;      /* within the bits ECDSA uses (leftmost, up to the order's length) */
    {
        unsigned char *exact = malloc(sl ? sl : 1);                  /* exact-size copy: an over-read is an ASan report */
        memcpy(exact, sig, sl);
        rc = psEccDsaVerify(NULL, is(keyc, "right") ? &e->mk : &e->mother, h, (psSize_t) hl, exact, (psSize_t) sl, &status, NULL);
        free(exact);
    }
    fprintf(g_tr, "{\"i\":%ld,\"k\":\"ecv\",\"curve\":%ld,\"hash\":\"%s\",\"r\":\"%s\",\"s\":\"%s\",\"der\":\"%s\",\"hashc\":\"%s\",\"keyc\":\"%s\",\"built\":%d,\"rc\":%d,\"accepted\":%d}\n", g_i++, bits, hash,
        rc_, sc, built ? der : "unbuildable", hashc, keyc, built, rc, rc >= 0 && status == 1);
    BN_free(r); BN_free(s); ECDSA_SIG_free(es);
}
static void cmd_ecsign(char **tok, int ntok)
{
    long seed = opti(tok, ntok, "seed", 1), bits = opti(tok, ntok, "curve", 256);
    const char *hash = opt(tok, ntok, "hash", "sha256");
    eck_t *e = ec_get(bits);
    unsigned char msg[64], h[64], sig[300]; unsigned int ul; psSize_t sl = sizeof(sig); int hl = hlen_by(hash), rc, ok = 0;
    EVP_PKEY_CTX *c;
    fill(msg, seed, 0, 40); EVP_Digest(msg, 40, h, &ul, md_by(hash), NULL);
    rc = psEccDsaSign(NULL, &e->mk, h, (psSize_t) hl, sig, &sl, 0, NULL);
    if (rc >= 0)
    {
        c = EVP_PKEY_CTX_new(e->ok, NULL);
        ok = EVP_PKEY_verify_init(c) > 0 && EVP_PKEY_verify(c, sig, sl, h, hl) == 1;
        EVP_PKEY_CTX_free(c);
    }
    fprintf(g_tr, "{\"i\":%ld,\"k\":\"ecsign\",\"curve\":%ld,\"hash\":\"%s\",\"rc\":%d,\"ok\":%d}\n", g_i++, bits, hash, rc, ok);
}
static void cmd_ecpoint(char **tok, int ntok)
{
    long seed = opti(tok, ntok, "seed", 1), bits = opti(tok, ntok, "curve", 256);
    const char *cls = opt(tok, ntok, "cls", "valid");
    eck_t *e = ec_get(bits);
    int fl = (int) (bits + 7) / 8, pl = 0, rc, rc2 = -999, ok = 0, built = 1;
    unsigned char pt[200], ref[100], out[100]; size_t rl = sizeof(ref); psSize_t ol = sizeof(out);
    EVP_PKEY *peer = NULL; EVP_PKEY_CTX *c; size_t ql = sizeof(pt);
    psEccKey_t pub; BIGNUM *x = NULL;
    (void) seed;
    /* a fresh peer key from OpenSSL */
    c = EVP_PKEY_CTX_new_id(EVP_PKEY_EC, NULL); EVP_PKEY_keygen_init(c); EVP_PKEY_CTX_set_ec_paramgen_curve_nid(c, e->nid); EVP_PKEY_keygen(c, &peer); EVP_PKEY_CTX_free(c);
    if (!EVP_PKEY_get_octet_string_param(peer, "pub", pt, sizeof(pt), &ql)) die("peer pub");
    pl = (int) ql;                                   /* 04 || x || y */
    if (is(cls, "offcurve")) pt[pl - 1] ^= 0x01;
    else if (is(cls, "offcurvex")) pt[1 + fl - 1] ^= 0x02;
    else if (is(cls, "infinity")) { pt[0] = 0x00; pl = 1; }
    else if (is(cls, "zerozero")) memset(pt + 1, 0, 2 * fl);
    else if (is(cls, "trunc")) pl -= 1;
    else if (is(cls, "long")) { pt[pl] = 0x00; pl += 1; }
    else if (is(cls, "badprefix")) pt[0] = 0x05;
    else if (is(cls, "compressed")) { pt[0] = (pt[pl - 1] & 1) ? 0x03 : 0x02; pl = 1 + fl; }
    else if (is(cls, "xplusp"))
    {   /* x + p: the same residue, not a field element; only encodable when it still fits */
        x = BN_bin2bn(pt + 1, fl, NULL); BN_add(x, x, e->p);
        if (BN_num_bytes(x) > fl) built = 0; else BN_bn2binpad(x, pt + 1, fl);
        BN_free(x);
    }
    memset(&pub, 0, sizeof(pub));
    {
        unsigned char *exact = malloc(pl ? pl : 1); memcpy(exact, pt, pl);
        rc = psEccX963ImportKey(NULL, exact, (psSize_t) pl, &pub, e->mk.curve);
        free(exact);
    }
    if (rc >= 0)
    {
        rc2 = psEccGenSharedSecret(NULL, &e->mk, &pub, out, &ol, NULL);
        if (rc2 >= 0 && is(cls, "valid"))
        {
            c = EVP_PKEY_CTX_new(e->ok, NULL);
            ok = EVP_PKEY_derive_init(c) > 0 && EVP_PKEY_derive_set_peer(c, peer) > 0 && EVP_PKEY_derive(c, ref, &rl) > 0 && rl == ol && !memcmp(ref, out, rl);
            EVP_PKEY_CTX_free(c);
        }
        psEccClearKey(&pub);
    }
    fprintf(g_tr, "{\"i\":%ld,\"k\":\"ecpoint\",\"curve\":%ld,\"cls\":\"%s\",\"built\":%d,\"rc\":%d,\"imported\":%d,\"rc2\":%d,\"used\":%d,\"ok\":%d}\n", g_i++, bits, built ? cls : "unbuildable", built, rc, rc >= 0,
        rc2, rc >= 0 && rc2 >= 0, ok);
    EVP_PKEY_free(peer);
}

/* ---------------------------------------------------------------- DH */
static void cmd_dh(char **tok, int ntok)
{
    long seed = opti(tok, ntok, "seed", 1), bits = opti(tok, ntok, "params", 2048);
    const char *cls = opt(tok, ntok, "cls", "valid");
    char path[256]; psDhParams_t params; psDhKey_t mine, theirs;
    unsigned char *pb = NULL, *gb = NULL, pubb[600], out[600], privb[600], ref[600]; psSize_t pl = 0, gl = 0, ol = sizeof(out), privl = sizeof(privb);
    BIGNUM *p, *y, *x, *z; BN_CTX *bc = BN_CTX_new(); int rc, rc2 = -999, ok = 0, publen;
    snprintf(path, sizeof(path), TK "/DH/%ld_DH_PARAMS.pem", bits);
    memset(&params, 0, sizeof(params)); memset(&mine, 0, sizeof(mine)); memset(&theirs, 0, sizeof(theirs));
    if (psPkcs3ParseDhParamFile(NULL, path, &params) < 0) die("dh params");
    if (psDhExportParameters(NULL, &params, &pb, &pl, &gb, &gl) < 0) die("dh export");
    if (psDhGenKeyParams(NULL, &params, &mine, NULL) < 0) die("dh genkey");
    p = BN_bin2bn(pb, pl, NULL); y = BN_new();
    if (is(cls, "zero")) BN_zero(y); else if (is(cls, "one")) BN_one(y); else if (is(cls, "two")) BN_set_word(y, 2);
    else if (is(cls, "pm1")) { BN_copy(y, p); BN_sub_word(y, 1); } else if (is(cls, "pm2")) { BN_copy(y, p); BN_sub_word(y, 2); }
    else if (is(cls, "p")) BN_copy(y, p); else if (is(cls, "pp1")) { BN_copy(y, p); BN_add_word(y, 1); }
    else { /* valid: g^k mod p for a pseudo-random k */
        BIGNUM *g = BN_bin2bn(gb, gl, NULL), *kk = BN_new(); unsigned char kb[32]; fill(kb, seed, 0, 32); BN_bin2bn(kb, 32, kk); BN_mod_exp(y, g, kk, p, bc); BN_free(g); BN_free(kk);
    }
    publen = BN_num_bytes(y) > (int) pl ? BN_num_bytes(y) : (int) pl;
    BN_bn2binpad(y, pubb, publen);
    rc = psDhImportPubKey(NULL, pubb, (psSize_t) publen, &theirs);
    if (rc >= 0)
    {
        rc2 = psDhGenSharedSecret(NULL, &mine, &theirs, pb, pl, out, &ol, NULL);
        if (rc2 >= 0)
        {   /* reference: y^x mod p with the library's own private exponent */
            int rl; unsigned char outp[600];
            privl = (psSize_t) pstm_unsigned_bin_size(&mine.priv);
            pstm_to_unsigned_bin(NULL, &mine.priv, privb);
            x = BN_bin2bn(privb, privl, NULL); z = BN_new(); BN_mod_exp(z, y, x, p, bc);
            rl = BN_num_bytes(z); BN_bn2bin(z, ref);
            /* compare as integers: strip leading zeros of the library's output */
            { int off = 0; while (off < (int) ol - 1 && out[off] == 0) off++; memcpy(outp, out + off, ol - off); ok = (int) ol - off == (rl ? rl : 1) && (!rl ? outp[0] == 0 : !memcmp(outp, ref, rl)); }
            BN_free(x); BN_free(z);
        }
        psDhClearKey(&theirs);
    }
    fprintf(g_tr, "{\"i\":%ld,\"k\":\"dh\",\"params\":%ld,\"cls\":\"%s\",\"rc\":%d,\"imported\":%d,\"rc2\":%d,\"used\":%d,\"ok\":%d}\n", g_i++, bits, cls, rc, rc >= 0, rc2, rc >= 0 && rc2 >= 0, ok);
    psDhClearKey(&mine); psPkcs3ClearDhParams(&params); psFree(pb, NULL); psFree(gb, NULL);
    BN_free(p); BN_free(y); BN_CTX_free(bc);
}

/* ---------------------------------------------------------------- X25519 / Ed25519 */
static void cmd_x25519(char **tok, int ntok)
{
    long seed = opti(tok, ntok, "seed", 1);
    unsigned char mypriv[32], mypub[32], out[32], ref[32], peerpub[32]; size_t l = 32; int rc, rc2, ok = 0;
    EVP_PKEY *peer = NULL, *me; EVP_PKEY_CTX *c;
    (void) seed;
    c = EVP_PKEY_CTX_new_id(EVP_PKEY_X25519, NULL); EVP_PKEY_keygen_init(c); EVP_PKEY_keygen(c, &peer); EVP_PKEY_CTX_free(c);
    EVP_PKEY_get_raw_public_key(peer, peerpub, &l);
    rc = psDhX25519GenKey(mypriv, mypub);
    rc2 = psDhX25519GenSharedSecret(peerpub, mypriv, out);
    me = EVP_PKEY_new_raw_private_key(EVP_PKEY_X25519, NULL, mypriv, 32);
    if (me)
    {
        unsigned char pub2[32]; size_t l2 = 32;
        EVP_PKEY_get_raw_public_key(me, pub2, &l2);
        c = EVP_PKEY_CTX_new(me, NULL); l = 32;
        ok = EVP_PKEY_derive_init(c) > 0 && EVP_PKEY_derive_set_peer(c, peer) > 0 && EVP_PKEY_derive(c, ref, &l) > 0 && !memcmp(ref, out, 32) && !memcmp(pub2, mypub, 32);
        EVP_PKEY_CTX_free(c); EVP_PKEY_free(me);
    }
    fprintf(g_tr, "{\"i\":%ld,\"k\":\"x25519\",\"rc\":%d,\"rc2\":%d,\"ok\":%d}\n", g_i++, rc, rc2, rc >= 0 && rc2 >= 0 && ok);
    EVP_PKEY_free(peer);
}
static const unsigned char ED_L[32] = { 0xed, 0xd3, 0xf5, 0x5c, 0x1a, 0x63, 0x12, 0x58, 0xd6, 0x9c, 0xf7, 0xa2, 0xde, 0xf9, 0xde, 0x14, 0, 0, 0, 0, 0, 0, 0, 0, 0, 0, 0, 0, 0, 0, 0, 0x10 };
static void cmd_edv(char **tok, int ntok)
{
    long seed = opti(tok, ntok, "seed", 1), mlen = opti(tok, ntok, "mlen", 40);
    const char *cls = opt(tok, ntok, "cls", "canon");
    unsigned char msg[300], sig[64], pub[32]; size_t sl = 64, pl = 32; int rc, built = 1;
    EVP_PKEY *k = NULL; EVP_PKEY_CTX *c; EVP_MD_CTX *mc;
    if (mlen > 256) die("mlen");
    fill(msg, seed, 0, mlen);
    c = EVP_PKEY_CTX_new_id(EVP_PKEY_ED25519, NULL); EVP_PKEY_keygen_init(c); EVP_PKEY_keygen(c, &k); EVP_PKEY_CTX_free(c);
    EVP_PKEY_get_raw_public_key(k, pub, &pl);
    mc = EVP_MD_CTX_new(); EVP_DigestSignInit(mc, NULL, NULL, NULL, k); EVP_DigestSign(mc, sig, &sl, msg, mlen); EVP_MD_CTX_free(mc);
    if (is(cls, "flipr")) sig[seed % 32] ^= 0x01;
    else if (is(cls, "flips")) sig[32 + (seed % 31)] ^= 0x01;
    else if (is(cls, "flipmsg")) { if (mlen > 0) msg[seed % mlen] ^= 0x01; else built = 0; }
    else if (is(cls, "flippub")) pub[seed % 32] ^= 0x02;
    else if (is(cls, "splusl"))
    {   /* S + L: the same residue; RFC 8032 5.1.7 requires S < L */
        int i, carry = 0;
        for (i = 0; i < 32; i++) { int v = sig[32 + i] + ED_L[i] + carry; sig[32 + i] = (unsigned char) v; carry = v >> 8; }
        if (carry) built = 0;
    }
    rc = psEd25519Verify(sig, msg, (psSizeL_t) mlen, pub);
    fprintf(g_tr, "{\"i\":%ld,\"k\":\"edv\",\"cls\":\"%s\",\"mlen\":%ld,\"built\":%d,\"rc\":%d,\"accepted\":%d}\n", g_i++, built ? cls : "unbuildable", mlen, built, rc, rc == PS_SUCCESS);
    EVP_PKEY_free(k);
}

int main(int argc, char **argv)
{
    const char *script = NULL, *trace = NULL; int i; FILE *f; char line[4096];
    for (i = 1; i < argc; i++) { if (!strcmp(argv[i], "-s") && i + 1 < argc) script = argv[++i]; else if (!strcmp(argv[i], "-t") && i + 1 < argc) trace = argv[++i]; }
    if (!script || !trace) die("usage: mxpk -s script -t trace");
    f = fopen(script, "r"); g_tr = fopen(trace, "w");
    if (!f || !g_tr) die("cannot open files");
    setvbuf(g_tr, NULL, _IOLBF, 0);
    if (psCryptoOpen(PSCRYPTO_CONFIG) < 0) die("psCryptoOpen");
    while (fgets(line, sizeof(line), f))
    {
        char *tok[64]; int n = 0; char *p = strtok(line, " \t\r\n");
        while (p && n < 64) { tok[n++] = p; p = strtok(NULL, " \t\r\n"); }
        if (!n || tok[0][0] == '#') continue;
        if (is(tok[0], "rsav")) cmd_rsav(tok, n);
        else if (is(tok[0], "pssv")) cmd_pssv(tok, n);
        else if (is(tok[0], "rsadec")) cmd_rsadec(tok, n);
        else if (is(tok[0], "rsaenc")) cmd_rsaenc(tok, n);
        else if (is(tok[0], "rsasign")) cmd_rsasign(tok, n);
        else if (is(tok[0], "ecv")) cmd_ecv(tok, n);
        else if (is(tok[0], "ecsign")) cmd_ecsign(tok, n);
        else if (is(tok[0], "ecpoint")) cmd_ecpoint(tok, n);
        else if (is(tok[0], "dh")) cmd_dh(tok, n);
        else if (is(tok[0], "x25519")) cmd_x25519(tok, n);
        else if (is(tok[0], "edv")) cmd_edv(tok, n);
        else if (is(tok[0], "reset")) fprintf(g_tr, "{\"i\":%ld,\"k\":\"Reset\",\"tag\":\"%s\"}\n", g_i++, n > 1 ? tok[1] : "");
        else die("unknown command");
    }
    fclose(g_tr);
    return 0;
}
