/*
 * mxdrive - script-driven in-memory driver for MatrixSSL sessions.
 *
 * Executes a line-oriented script against real MatrixSSL client/server sessions built
 * from /repo's working tree, with a network it fully controls (a queue of records per
 * direction), and writes one ndjson trace line per executed command carrying the projected
 * abstract state of the endpoint touched (see DESIGN.md 2.2/2.3).  The traces are validated
 * against the TLA+ specifications by TLC (tools/validate.py).
 *
 * Link with -Wl,--wrap=psGetEntropy,--wrap=gettimeofday,--wrap=time so that randomness and
 * the clock are pinned/virtual.
 */
#define _GNU_SOURCE
#include "matrixssl/matrixsslImpl.h"
#include <stdio.h>
#include <stdlib.h>
#include <string.h>
#include <stdarg.h>
#include <stdint.h>
#include <unistd.h>
#include <sys/time.h>
#include <sys/wait.h>
#include <fcntl.h>
#include <unistd.h>
#include <time.h>
#include <signal.h>
#include <execinfo.h>
#include <openssl/evp.h>
#include <openssl/hmac.h>

#ifndef MATRIXSSL_VERIF
# error "build with -DMATRIXSSL_VERIF"
#endif

/******************************************************************************/
/* pinned entropy and virtual clock */

static uint64_t g_rng = 0x9e3779b97f4a7c15ULL;
static long g_now = 1790000000L;      /* 2026-09-21, inside the test certificates' validity */
static long g_usec = 0;
static long g_entropy_calls = 0;

static uint64_t rng_next(void)
{
    g_rng ^= g_rng >> 12; g_rng ^= g_rng << 25; g_rng ^= g_rng >> 27;
    return g_rng * 0x2545F4914F6CDD1DULL;
}

int32 __wrap_psGetEntropy(unsigned char *bytes, uint32 size, void *userPtr)
{
    uint32 i;
    (void) userPtr;
    g_entropy_calls++;
    for (i = 0; i < size; i++)
    {
        bytes[i] = (unsigned char) (rng_next() >> 32);
    }
    return (int32) size;
}

int __wrap_gettimeofday(struct timeval *tv, void *tz)
{
    (void) tz;
    if (tv)
    {
        tv->tv_sec = g_now;
        tv->tv_usec = g_usec;
    }
    return 0;
}

/* on x86_64 the library's psGetTime reads CLOCK_MONOTONIC (USE_HIGHRES_TIME) */
int __wrap_clock_gettime(clockid_t id, struct timespec *ts)
{
    (void) id;
    if (ts)
    {
        ts->tv_sec = g_now;
        ts->tv_nsec = g_usec * 1000L;
    }
    return 0;
}

time_t __wrap_time(time_t *t)
{
    if (t)
    {
        *t = g_now;
    }
    return g_now;
}

/******************************************************************************/
/* small utilities */

static FILE *g_trace;
static long g_line = 0;       /* trace line number */
static int g_scriptline = 0;
static int g_verbose = 0;

static void die(const char *fmt, ...)
{
    va_list ap;
    va_start(ap, fmt);
    fprintf(stderr, "mxdrive: script line %d: ", g_scriptline);
    vfprintf(stderr, fmt, ap);
    fprintf(stderr, "\n");
    va_end(ap);
    if (g_trace)
    {
        fprintf(g_trace, "{\"ev\":\"DriverError\",\"line\":%d}\n", g_scriptline);
        fflush(g_trace);
    }
    _exit(3);
}

static int hexval(int c)
{
    if (c >= '0' && c <= '9') return c - '0';
    if (c >= 'a' && c <= 'f') return c - 'a' + 10;
    if (c >= 'A' && c <= 'F') return c - 'A' + 10;
    return -1;
}

static int unhex(const char *s, unsigned char *out, int max)
{
    int n = 0;
    while (s[0] && s[1])
    {
        int a = hexval(s[0]), b = hexval(s[1]);
        if (a < 0 || b < 0 || n >= max) return -1;
        out[n++] = (unsigned char) (a * 16 + b);
        s += 2;
    }
    return n;
}

/* dynamic string buffer for JSON fragments */
typedef struct { char *s; size_t n, cap; } sb_t;
static void sb_reset(sb_t *b) { b->n = 0; if (b->s) b->s[0] = 0; }
static void sb_printf(sb_t *b, const char *fmt, ...)
{
    va_list ap;
    int need;
    for (;;)
    {
        va_start(ap, fmt);
        need = vsnprintf(b->s ? b->s + b->n : NULL, b->s ? b->cap - b->n : 0, fmt, ap);
        va_end(ap);
        if (b->s && (size_t) need < b->cap - b->n) { b->n += need; return; }
        b->cap = (b->cap + need + 64) * 2;
        b->s = realloc(b->s, b->cap);
    }
}

/******************************************************************************/
/* names */

static const char *hs_name(int s)
{
    switch (s)
    {
    case 0: return "HELLO_REQUEST"; case 1: return "CLIENT_HELLO"; case 2: return "SERVER_HELLO";
    case 3: return "HELLO_VERIFY_REQUEST"; case 4: return "NEW_SESSION_TICKET"; case 5: return "EOED";
    case 8: return "ENCRYPTED_EXTENSIONS";
    case 11: return "CERTIFICATE"; case 12: return "SERVER_KEY_EXCHANGE"; case 13: return "CERTIFICATE_REQUEST";
    case 14: return "SERVER_HELLO_DONE"; case 15: return "CERTIFICATE_VERIFY"; case 16: return "CLIENT_KEY_EXCHANGE";
    case 20: return "FINISHED"; case 22: return "CERTIFICATE_STATUS";
    case 23: return "T13_START"; case 24: return "T13_RECVD_CH"; case 25: return "T13_NEGOTIATED";
    case 26: return "T13_WAIT_FLIGHT_2"; case 27: return "T13_WAIT_EOED"; case 28: return "T13_WAIT_CERT";
    case 29: return "T13_WAIT_CV"; case 30: return "T13_WAIT_FINISHED"; case 31: return "T13_SEND_NST";
    case 32: return "T13_WAIT_SH"; case 33: return "T13_WAIT_EE"; case 34: return "T13_WAIT_CERT_CR";
    case 35: return "T13_SEND_FINISHED";
    case 252: return "ALERT"; case 253: return "CCS"; case 254: return "NONE"; case 255: return "DONE";
    }
    return "UNKNOWN";
}

static int hs_by_name(const char *n)
{
    int i;
    for (i = 0; i < 256; i++)
    {
        if (strcmp(hs_name(i), n) == 0) return i;
    }
    return -1;
}

static const char *rc_class(int rc)
{
    switch (rc)
    {
    case 0: return "Success"; case 1: return "RequestSend"; case 2: return "RequestRecv";
    case 3: return "RequestClose"; case 4: return "AppData"; case 5: return "HandshakeComplete";
    case 6: return "ReceivedAlert"; case 7: return "AppDataCompressed";
    }
    return rc < 0 ? "Error" : "Other";
}

static const char *ver_name(ssl_t *ssl)
{
    psProtocolVersion_t v = ssl->activeVersion;
    if (v & v_tls_1_3) return "T13";
    if (v & v_tls_1_2) return "T12";
    if (v & v_tls_1_1) return "T11";
    if (v & v_tls_1_0) return "T10";
    if (v & v_dtls_1_2) return "D12";
    if (v & v_dtls_1_0) return "D10";
    return "none";
}

/******************************************************************************/
/* key sets */

#define MAXKEYS 16
typedef struct
{
    char name[24];
    sslKeys_t *keys;
    int used;
    char idcert[512], idkey[512];   /* the identity files, for the SNI callback (which must hand out keys of its own) */
} keyset_t;
static keyset_t g_keys[MAXKEYS];

#define MAXSID 160
typedef struct
{
    char name[24];
    sslSessionId_t *sid;
    int used;
} sidslot_t;
static sidslot_t g_sids[MAXSID];

/******************************************************************************/
/* endpoints and the wire */

#define MAXQ 2048
#define MAXHIST 1024
typedef struct
{
    unsigned char *b;
    int n;
    int id;          /* unique id of the record as first emitted */
    int origin;      /* 0 genuine, 1 modified, 2 injected plain, 3 forged with keys, 4 replayed, 5 reflected */
    int itype;       /* inner (true) record type as sealed by the sender, -1 unknown */
    int imsg;        /* handshake message type if itype == 22, else -1 */
    int wsec;        /* sender was write-secure when it sealed this record */
    uint32_t kfp;    /* fingerprint of the sender's write key when it sealed the record */
    unsigned char seq[8]; /* sender's write sequence number for the record (TLS) */
    int forged_ok;   /* forged with the receiver's current read state (always authentic if delivered now) */
    int alvl, adesc; /* alert level / description as sealed (itype == 21), else -1 */
} rec_t;

typedef struct ep
{
    char name[16];
    int used;
    int server;
    int dtls;
    ssl_t *ssl;
    struct ep *peer;
    rec_t q[MAXQ];      /* records emitted by this endpoint, in flight to the peer */
    int qn;
    rec_t hist[MAXHIST]; /* every record this endpoint ever emitted (copies) */
    int histn;
    unsigned char *tx;  /* all application bytes this endpoint's application submitted */
    int txn;
    int txmsg[1024];    /* message boundaries (end offsets) */
    unsigned char dgot[128]; /* datagram receiver: which of the peer's messages have been handed to the application */
    int txmsgn;
    int rxpos;          /* bytes of peer->tx delivered in order to this endpoint's application */
    unsigned char *etx; /* TLS 1.3 early data this endpoint's application submitted (a stream of its own: the
                           application must re-send it after the handshake if the server refuses it) */
    int etxn;
    int erxpos;
    unsigned char seen[512][12]; /* DTLS: sender key fp || epoch || sequence of every datagram record already delivered here */
    int seenn;
    unsigned char ivs[256][16]; /* explicit IV blocks / last cipher blocks of CBC records this endpoint emitted */
    int ivn;
    int ivrep;          /* number of CBC records whose explicit IV repeated an earlier IV or an earlier last block */
    int cbmode;         /* 0 none, 1 strict (return alert), 2 permissive (return 0) */
    int cbcalls;
    int cbalert;
    uint32_t outd, dlvd; long outn, dlvn;   /* running digests: every byte emitted / delivered to the application */
    int tam_msg, tam_mode, tam_off, tam_val, tam_slot, tam_done;   /* armed one-shot tamper of an outgoing handshake message */
    int autoflush;
    sb_t sub;           /* internal events during the current command */
    sb_t dlv;           /* deliveries during the current command */
    sb_t alin;          /* alerts received during the current command */
    sb_t outrecs;       /* record types flushed during the current command */
    struct { int type, msg, wsec; uint32_t kfp; unsigned char seq[8]; int alvl, adesc, bs; } sealq[512]; /* tags of records sealed but not yet flushed */
    int sealn;
    int tagmis;
    int lastrc;
    int sentrc;
    int have_sentrc;
    int ndlv;
    char sni_seen[80];  /* server: host name handed to the SNI callback */
    char alpn_seen[80]; /* server: protocols handed to the ALPN callback; client: n/a */
    char alpn_pick[32]; /* server: the protocol its application wants */
    int snicalls, alpncalls;
    keyset_t *sniks;    /* the key set the SNI callback loads its keys from */
} ep_t;

#define MAXEP 64
static ep_t g_eps[MAXEP];
static int g_recid = 0;
static unsigned long long g_chunk_rng = 88172645463325252ULL;
static int g_forkmode = 0, g_eptimeout = 120, g_leak_seen = 0, g_watchdog = 0;
static void on_watchdog(int sig) { static const char m[] = "mxdrive: episode time limit exceeded (hang)\n"; (void) sig; if (write(2, m, sizeof(m) - 1) < 0) { } _exit(76); }
static int g_leakcheck = 0;   /* -l: leak check at every reset (slow) */
static ep_t *g_cur_cb_ep; /* endpoint whose API call is in progress (for cert callback) */

static ep_t *ep_find(const char *name)
{
    int i;
    for (i = 0; i < MAXEP; i++)
    {
        if (g_eps[i].used && strcmp(g_eps[i].name, name) == 0) return &g_eps[i];
    }
    return NULL;
}

static ep_t *ep_get(const char *name)
{
    ep_t *e = ep_find(name);
    if (!e) die("unknown endpoint %s", name);
    return e;
}

static ep_t *ep_by_ssl(void *ssl)
{
    int i;
    for (i = 0; i < MAXEP; i++)
    {
        if (g_eps[i].used && g_eps[i].ssl == ssl) return &g_eps[i];
    }
    return NULL;
}

static void rec_free(rec_t *r) { free(r->b); r->b = NULL; r->n = 0; }

static rec_t rec_make(const unsigned char *b, int n, int origin)
{
    rec_t r;
    r.b = malloc(n > 0 ? n : 1);
    memcpy(r.b, b, n);
    r.n = n;
    r.id = g_recid++;
    r.origin = origin;
    r.itype = -1; r.imsg = -1; r.wsec = 0; r.kfp = 0; memset(r.seq, 0, 8); r.forged_ok = 0; r.alvl = -1; r.adesc = -1;
    return r;
}

static void q_insert(ep_t *e, int pos, rec_t r)
{
    if (e->qn >= MAXQ) die("queue overflow");
    if (pos < 0 || pos > e->qn) pos = e->qn;
    memmove(&e->q[pos + 1], &e->q[pos], sizeof(rec_t) * (e->qn - pos));
    e->q[pos] = r;
    e->qn++;
}

static rec_t q_remove(ep_t *e, int pos)
{
    rec_t r;
    if (pos < 0 || pos >= e->qn) die("queue index %d out of range (qn=%d)", pos, e->qn);
    r = e->q[pos];
    memmove(&e->q[pos], &e->q[pos + 1], sizeof(rec_t) * (e->qn - pos - 1));
    e->qn--;
    return r;
}

static int rec_hdrlen(ep_t *e) { return e->dtls ? 13 : 5; }

/******************************************************************************/
/* verification hook: internal events of the endpoint whose call is in progress */

static void (*g_tamper)(ep_t *e, int type, int hs, unsigned char *p, long n);

/* A deviant peer: rewrite one of its own handshake messages just before the record is sealed (for TLS <= 1.2
   that is also before the sender hashes it into its transcript, so only the receiver's signature check stands
   between the rewritten message and completion).  Modes: 1 xor byte at tam_off (negative: from the end of the
   message) with tam_val; 2 overwrite the 2-byte SignatureScheme field; 3 save the message in a slot;
   4 substitute the message saved in a slot (same length only). */
static unsigned char g_slot[8][4096];
static long g_slotn[8];
static void tamper_apply(ep_t *e, int type, int hs, unsigned char *p, long n)
{
    int hdr = e->dtls ? 12 : 4;
    long off = -1;
    int applied = 0;
    if (type != 22 || !e->tam_mode || e->tam_done || hs != e->tam_msg || n < hdr + 1) return;
    if (USING_TLS_1_3(e->ssl)) n -= 1;      /* inner content type */
    switch (e->tam_mode)
    {
    case 1:
        off = e->tam_off >= 0 ? hdr + e->tam_off : n + e->tam_off;
        if (off >= hdr && off < n) { p[off] ^= (unsigned char) e->tam_val; applied = 1; }
        break;
    case 2:
        if (hs == 15) off = hdr;
        else if (hs == 12 && n > hdr + 4 && p[hdr] == 3) off = hdr + 4 + p[hdr + 3];     /* ECDHE params: type, curve(2), len, point */
        if (off >= hdr && off + 2 <= n) { p[off] = (unsigned char) (e->tam_val >> 8); p[off + 1] = (unsigned char) e->tam_val; applied = 1; }
        break;
    case 3:
        if (n <= (long) sizeof(g_slot[0])) { memcpy(g_slot[e->tam_slot & 7], p, n); g_slotn[e->tam_slot & 7] = n; applied = 1; }
        break;
    case 4:
        if (g_slotn[e->tam_slot & 7] == n && memcmp(g_slot[e->tam_slot & 7] + hdr, p + hdr, n - hdr) != 0)
        {
            /* keep this handshake's own message header (DTLS message_seq) */
            memcpy(p + hdr, g_slot[e->tam_slot & 7] + hdr, n - hdr); applied = 1;
        }
        break;
    }
    e->tam_done = applied ? 1 : -1;
}

static uint32_t fnv(uint32_t h, const unsigned char *p, int n)
{
    int i;
    for (i = 0; i < n; i++) { h ^= p[i]; h *= 16777619u; }
    return h;
}

static uint32_t wkey_fp(ssl_t *ssl)
{
    uint32_t h = 2166136261u;
    if (!(ssl->flags & SSL_FLAGS_WRITE_SECURE)) return 0;
    if (USING_TLS_1_3(ssl))
    {
        if (ssl->sec.wKeyptr) h = fnv(h, ssl->sec.wKeyptr, 16);
        h = fnv(h, ssl->sec.tls13WriteIv, 12);
    }
    else
    {
        h = fnv(h, ssl->sec.writeKey, 16);
        h = fnv(h, ssl->sec.writeMAC, 20);
    }
    return h ? h : 1;
}

static uint32_t rkey_fp(ssl_t *ssl)
{
    uint32_t h = 2166136261u;
    if (!(ssl->flags & SSL_FLAGS_READ_SECURE)) return 0;
    if (USING_TLS_1_3(ssl))
    {
        if (ssl->sec.rKeyptr) h = fnv(h, ssl->sec.rKeyptr, 16);
        h = fnv(h, ssl->sec.tls13ReadIv, 12);
    }
    else
    {
        h = fnv(h, ssl->sec.readKey, 16);
        h = fnv(h, ssl->sec.readMAC, 20);
    }
    return h ? h : 1;
}

static void verif_hook(int ev, void *ssl, long a, long b, void *p, long n)
{
    ep_t *e = ep_by_ssl(ssl);
    if (!e && g_cur_cb_ep && g_cur_cb_ep->ssl == NULL) e = g_cur_cb_ep;   /* session being created */
    if (!e) return;
    switch (ev)
    {
    case MXV_HS_GATE:
        sb_printf(&e->sub, "%s{\"k\":\"G\",\"t\":\"%s\",\"x\":0,\"n\":0,\"q\":0,\"qh\":0,\"w\":0,\"bs\":0}", e->sub.n ? "," : "", hs_name((int) a));
        break;
    case MXV_HS_ACCEPT:
        sb_printf(&e->sub, "%s{\"k\":\"A\",\"t\":\"%s\",\"x\":%d,\"n\":0,\"q\":0,\"qh\":0,\"w\":0,\"bs\":0}", e->sub.n ? "," : "", hs_name((int) a),
            (b < 0 && b != SSL_PROCESS_DATA && b != SSL_ENCODE_RESPONSE && b != SSL_SEND_RESPONSE && b != SSL_NO_TLS_1_3) ? -1 : 0);
        break;
    case MXV_REC_OK:
        sb_printf(&e->sub, "%s{\"k\":\"R\",\"t\":\"%d\",\"x\":%d,\"n\":%ld,\"q\":0,\"qh\":0,\"w\":0,\"bs\":0}", e->sub.n ? "," : "", (int) a, (int) b, n);
        break;
    case MXV_SEAL:
    {
        int type = (int) a;
        if (USING_TLS_1_3(((ssl_t *) ssl)) && !(((ssl_t *) ssl)->flags & SSL_FLAGS_WRITE_SECURE))
        {
            /* unprotected TLS 1.3 record: the "plaintext" handed to the encrypt routine may include
               the 5-byte record header */
            unsigned char *pp = p;
            if (n > 5 && pp[0] >= 20 && pp[0] <= 23 && pp[1] == 3) { type = pp[0]; p = pp + 5; n -= 5; }
            else type = (n == 2 && (pp[0] == 1 || pp[0] == 2)) ? 21 : 22;
        }
        else if (USING_TLS_1_3(((ssl_t *) ssl)))
        {
            /* inner type = last non-zero byte */
            long k = n;
            unsigned char *pp = p;
            while (k > 0 && pp[k - 1] == 0) k--;
            type = k > 0 ? pp[k - 1] : 0;
        }
        {
            ssl_t *s = ssl;
            int msg = -1, wsec = !!(s->flags & SSL_FLAGS_WRITE_SECURE);
            long lvl = n;
            if (type == 22)
            {
                if (USING_TLS_1_3(s)) msg = ((unsigned char *) p)[0];
                else
                {
                    int off = (wsec && ACTV_VER(s, v_tls_explicit_iv) && s->enBlockSize > 1) ? s->enBlockSize : 0;
                    msg = (n > off) ? ((unsigned char *) p)[off] : (int) b;
                }

                b = msg;
            }
            if (type == 21 && n >= 2)
            {
                unsigned char *pp = p;
                /* TLS 1.1+ CBC: alert plaintext is preceded by the explicit IV */
                if (!USING_TLS_1_3(s) && wsec && s->enBlockSize > 1 && n >= 2 + s->enBlockSize) pp += s->enBlockSize;
                b = pp[1]; lvl = pp[0];     /* alert description, level */
            }
            if (e->sealn < 512)
            {
                e->sealq[e->sealn].type = type; e->sealq[e->sealn].msg = msg; e->sealq[e->sealn].wsec = wsec;
                e->sealq[e->sealn].kfp = wkey_fp(s); memcpy(e->sealq[e->sealn].seq, s->sec.seq, 8);
                e->sealq[e->sealn].alvl = type == 21 ? (int) lvl : -1; e->sealq[e->sealn].adesc = type == 21 ? (int) b : -1;
                e->sealq[e->sealn].bs = (wsec && !USING_TLS_1_3(s) && !(s->flags & SSL_FLAGS_AEAD_W)) ? s->enBlockSize : 0;
                e->sealn++;
            }
            {
                /* sequence number the record is bound to: TLS: sec.seq; DTLS: epoch(16) || rsn(48) */
                unsigned long long sq = 0;
                int k3;
                if (ACTV_VER(s, v_dtls_any)) { sq = ((unsigned long long) s->epoch[0] << 8) | s->epoch[1]; for (k3 = 0; k3 < 6; k3++) sq = (sq << 8) | s->rsn[k3]; }
                else { for (k3 = 0; k3 < 8; k3++) sq = (sq << 8) | s->sec.seq[k3]; }
                sb_printf(&e->sub, "%s{\"k\":\"S\",\"t\":\"%d\",\"x\":%d,\"n\":%ld,\"q\":%d,\"qh\":%d,\"w\":%d,\"kf\":\"%08x\",\"bs\":%d}", e->sub.n ? "," : "",
                    type, (int) b, type == 21 ? lvl : n, (int) (sq & 0x3fffffff), (int) ((sq >> 30) & 0x3fffffff), wsec, wkey_fp(s),
                    (wsec && !USING_TLS_1_3(s) && !(s->flags & SSL_FLAGS_AEAD_W)) ? s->enBlockSize : 0);
            }
        }
        if (g_tamper) g_tamper(e, type, (int) b, p, n);
        if (e->tam_mode && !e->tam_done) { tamper_apply(e, type, (int) b, p, n); if (e->tam_done) sb_printf(&e->sub, ",{\"k\":\"T\",\"t\":\"%d\",\"x\":%d,\"n\":%d,\"q\":0,\"qh\":0,\"w\":0,\"bs\":0}", e->tam_msg, e->tam_done, e->tam_mode); }
        break;
    }
    default:
        break;
    }
}

/* called from wrap_aead.c */
void mxd_note_seal(const char *kind, uint32_t keyfp, const unsigned char nonce[12], uint32_t ptdigest, long len)
{
    ep_t *e = g_cur_cb_ep;
    int i;
    char nh[32];
    (void) kind;
    if (!e || !e->used) return;
    for (i = 0; i < 12; i++) snprintf(nh + 2 * i, 3, "%02x", nonce[i]);
    sb_printf(&e->sub, "%s{\"k\":\"N\",\"t\":\"%08x:%s\",\"x\":%d,\"n\":%ld,\"q\":0,\"qh\":0,\"w\":0,\"bs\":0}", e->sub.n ? "," : "",
        keyfp, nh, (int) (ptdigest & 0x3fffffff), len);
}

void mxd_note_prng(long n)
{
    ep_t *e = g_cur_cb_ep;
    if (!e || !e->used) return;
    sb_printf(&e->sub, "%s{\"k\":\"E\",\"t\":\"prng\",\"x\":0,\"n\":%ld,\"q\":0,\"qh\":0,\"w\":0,\"bs\":0}", e->sub.n ? "," : "", n);
}

/******************************************************************************/
/* allocation-failure injection (build variant "fault": the library's Malloc/Calloc/Realloc are these) */
#if defined(__SANITIZE_ADDRESS__)
extern void __sanitizer_print_stack_trace(void);
#endif
static long g_alloc_n = 0, g_fail_at = -1, g_fail_hits = 0;
/* counting mode (failat -2): the call sites of the allocations (hash of the innermost return addresses), so that a
   check can fail each SITE at least once instead of sampling allocation indices uniformly */
#define MAXSITE 4096
static struct { unsigned long h; long first, last, count; } g_site[MAXSITE];
static int g_nsite = 0;
static void note_site(long k)
{
    void *bt[7];
    int n = backtrace(bt, 7), i;
    unsigned long h = 1469598103934665603UL;
    for (i = 1; i < n; i++) { h ^= (unsigned long) bt[i]; h *= 1099511628211UL; }
    for (i = 0; i < g_nsite; i++) if (g_site[i].h == h) { g_site[i].last = k; g_site[i].count++; return; }
    if (g_nsite < MAXSITE) { g_site[g_nsite].h = h; g_site[g_nsite].first = g_site[g_nsite].last = k; g_site[g_nsite].count = 1; g_nsite++; }
}
static int alloc_fails(void)
{
    long k = g_alloc_n++;
    if (g_fail_at == -2) note_site(k);
    if (g_fail_at >= 0 && k == g_fail_at)
    {
        ep_t *e = g_cur_cb_ep;
        g_fail_hits++;
#if defined(__SANITIZE_ADDRESS__)
        if (g_forkmode || getenv("MXV_FAULT_STACK")) { fprintf(stderr, "FAULT-INJECTED\n"); __sanitizer_print_stack_trace(); fprintf(stderr, "FAULT-END\n"); }
#endif
        if (e && e->used) sb_printf(&e->sub, "%s{\"k\":\"F\",\"t\":\"alloc\",\"x\":0,\"n\":%ld,\"q\":0,\"qh\":0,\"w\":0,\"bs\":0}", e->sub.n ? "," : "", k);
        return 1;
    }
    return 0;
}
void *mxv_malloc(size_t n) { return alloc_fails() ? NULL : malloc(n); }
void *mxv_calloc(size_t a, size_t b) { return alloc_fails() ? NULL : calloc(a, b); }
void *mxv_realloc(void *p, size_t n) { return alloc_fails() ? NULL : realloc(p, n); }
#if defined(__SANITIZE_ADDRESS__)
extern int __lsan_do_recoverable_leak_check(void);
extern void __sanitizer_print_stack_trace(void);
#endif

/******************************************************************************/
/* certificate callback */

static int32_t cert_cb(ssl_t *ssl, psX509Cert_t *cert, int32_t alert)
{
    ep_t *e = ep_by_ssl(ssl);
    (void) cert;
    if (!e) e = g_cur_cb_ep;
    if (!e) return alert;
    e->cbcalls++;
    e->cbalert = alert;
    sb_printf(&e->sub, "%s{\"k\":\"CB\",\"t\":\"%d\",\"x\":%d,\"n\":%d,\"q\":0,\"qh\":0,\"w\":0,\"bs\":0}", e->sub.n ? "," : "", alert, e->cbmode, alert);
    if (e->cbmode == 2) return 0;            /* permissive: accept this failure */
    return alert;                            /* strict: keep the library's verdict */
}

/******************************************************************************/
/* trace emission */

static void emit_begin(sb_t *o, const char *ev, ep_t *e)
{
    sb_reset(o);
    sb_printf(o, "{\"i\":%ld,\"ev\":\"%s\",\"ep\":\"%s\"", g_line++, ev, e ? e->name : "-");
}

static void emit_state(sb_t *o, ep_t *e)
{
    ssl_t *ssl = e->ssl;
    if (!ssl)
    {
        sb_printf(o, ",\"role\":\"%s\",\"hs\":\"NOSESSION\"", e->server ? "S" : "C");
        return;
    }
    sb_printf(o, ",\"role\":\"%s\",\"rc\":\"%s\",\"rcn\":%d,\"hs\":\"%s\",\"rs\":%d,\"ws\":%d,\"err\":%d,\"closed\":%d,"
        "\"cas\":%d,\"hc\":%d,\"ver\":\"%s\",\"resumed\":%d,\"sub\":[%s],\"dlv\":[%s],\"alin\":[%s],\"out\":[%s],"
        "\"qn\":%d,\"inlen\":%d,\"outlen\":%d,\"insize\":%d,\"outsize\":%d,\"rxpos\":%d,\"cbcalls\":%d",
        e->server ? "S" : "C", rc_class(e->lastrc), e->lastrc, hs_name(ssl->hsState),
        !!(ssl->flags & SSL_FLAGS_READ_SECURE), !!(ssl->flags & SSL_FLAGS_WRITE_SECURE),
        !!(ssl->flags & SSL_FLAGS_ERROR), !!(ssl->flags & SSL_FLAGS_CLOSED),
        !!(ssl->bFlags & BFLAG_CLOSE_AFTER_SENT), !!(ssl->bFlags & BFLAG_HS_COMPLETE),
        ver_name(ssl), matrixSslIsResumedSession(ssl) ? 1 : 0,
        e->sub.n ? e->sub.s : "", e->dlv.n ? e->dlv.s : "", e->alin.n ? e->alin.s : "",
        e->outrecs.n ? e->outrecs.s : "", e->qn, ssl->inlen, ssl->outlen, ssl->insize, ssl->outsize,
        e->rxpos, e->cbcalls);
    {
        static const char *kxn[] = { "null", "rsa", "dhe_rsa", "x3", "dhe_psk", "psk", "ecdhe_ecdsa", "ecdhe_rsa", "ecdh_ecdsa", "ecdh_rsa", "tls13" };
        int t = ssl->cipher ? ssl->cipher->type : 0;
        int tick = 0;
#ifdef USE_STATELESS_SESSION_TICKETS
        if (!e->server && ssl->sid) tick = ssl->sid->sessionTicketState;
#endif
        sb_printf(o, ",\"ivrep\":%d,\"ce\":%d,\"se\":%d,\"ged\":%d,\"med\":%d", e->ivrep, ssl->tls13ClientEarlyDataEnabled ? 1 : 0,
            ssl->tls13ServerEarlyDataEnabled ? 1 : 0, ssl->extFlags.got_early_data ? 1 : 0, (int) ssl->tls13SessionMaxEarlyData);
        sb_printf(o, ",\"kx\":\"%s\",\"suite\":%d,\"cauth\":%d,\"tick\":%d,\"psk13\":%d,\"early\":%d,\"tagmis\":%d",
            (t >= 0 && t <= 10) ? kxn[t] : "other", ssl->cipher ? ssl->cipher->ident : 0,
            !!(ssl->flags & SSL_FLAGS_CLIENT_AUTH), tick, ssl->sec.tls13UsingPsk ? 1 : 0,
            (int) ssl->tls13EarlyDataStatus, e->tagmis);
    }
    if (e->snicalls || e->alpncalls)
    {
        sb_printf(o, ",\"sni\":\"%s\",\"snicalls\":%d,\"alpn\":\"%s\",\"alpncalls\":%d", e->sni_seen, e->snicalls, e->alpn_seen, e->alpncalls);
    }
    if (e->have_sentrc)
    {
        sb_printf(o, ",\"src\":\"%s\"", rc_class(e->sentrc));
    }
    else
    {
        sb_printf(o, ",\"src\":\"None\"");
    }
}

static void emit_end(sb_t *o)
{
    sb_printf(o, "}\n");
    fputs(o->s, g_trace);
    if (g_verbose) fputs(o->s, stderr);
}

static void ep_call_begin(ep_t *e)
{
    sb_reset(&e->sub); sb_reset(&e->dlv); sb_reset(&e->alin); sb_reset(&e->outrecs);
    e->have_sentrc = 0;
    e->ndlv = 0;
    g_cur_cb_ep = e;
}

/******************************************************************************/
/* moving bytes: flush (endpoint -> wire) and feed (wire -> endpoint) */

/* Take everything in the endpoint's outdata, split it into records, queue them. */
static int ep_flush_ex(ep_t *e, int maxbytes, int timeout);
static int ep_flush(ep_t *e, int maxbytes) { return ep_flush_ex(e, maxbytes, 0); }
static int ep_flush_ex(ep_t *e, int maxbytes, int timeout)
{
    unsigned char *buf;
    int32 len, rc = 0;
    int total = 0;
    ssl_t *ssl = e->ssl;
    int guard = 0;

    if (!ssl) return 0;
    /* DTLS: asking for outdata while nothing is queued means "timer fired, resend the flight";
       an ordinary flush must therefore not ask unless something is queued */
    if (e->dtls && !timeout && ssl->outlen == 0) return 0;
    for (;;)
    {
        if (e->dtls)
        {
            len = matrixDtlsGetOutdata(ssl, &buf);
        }
        else
        {
            len = matrixSslGetOutdata(ssl, &buf);
        }
        if (len <= 0) break;
        if (maxbytes > 0 && len > maxbytes) len = maxbytes;
        e->outd = fnv(e->outd ? e->outd : 2166136261u, buf, len); e->outn += len;
        /* split into records */
        {
            int off = 0, hl = rec_hdrlen(e);
            while (off < len)
            {
                int rl;
                if (len - off < hl)
                {
                    rl = len - off;     /* trailing partial header (only with maxbytes) */
                }
                else
                {
                    rl = hl + ((buf[off + hl - 2] << 8) | buf[off + hl - 1]);
                    if (rl > len - off) rl = len - off;
                }
                {
                    rec_t r = rec_make(buf + off, rl, 0);
                    if (e->sealn > 0 && !(USING_TLS_1_3(ssl) && e->sealq[0].wsec && buf[off] == 22))
                    {
                        r.itype = e->sealq[0].type; r.imsg = e->sealq[0].msg; r.wsec = e->sealq[0].wsec;
                        r.kfp = e->sealq[0].kfp; memcpy(r.seq, e->sealq[0].seq, 8); r.alvl = e->sealq[0].alvl; r.adesc = e->sealq[0].adesc;
                        r.alvl = e->sealq[0].alvl; r.adesc = e->sealq[0].adesc;
                        if (e->sealq[0].bs == 16 && rl >= hl + 32)
                        {
                            /* CBC with explicit IV: the IV block must be new, also w.r.t. earlier last blocks */
                            int k4, rep = 0;
                            for (k4 = 0; k4 < e->ivn; k4++) if (memcmp(e->ivs[k4], buf + off + hl, 16) == 0) rep = 1;
                            if (rep) e->ivrep++;
                            if (e->ivn < 255) { memcpy(e->ivs[e->ivn++], buf + off + hl, 16); memcpy(e->ivs[e->ivn++], buf + off + rl - 16, 16); }
                        }
                        memmove(&e->sealq[0], &e->sealq[1], sizeof(e->sealq[0]) * (e->sealn - 1));
                        e->sealn--;
                    }
                    else if ((!(ssl->flags & SSL_FLAGS_WRITE_SECURE) || (USING_TLS_1_3(ssl) && buf[off] == 22)) && rl > hl)
                    {
                        /* unprotected record that did not pass through the seal hook (TLS 1.3 ClientHello) */
                        r.itype = buf[off]; r.imsg = buf[off] == 22 ? buf[off + hl] : -1; r.wsec = 0;
                        if (buf[off] == 21 && rl >= hl + 2) { r.alvl = buf[off + hl]; r.adesc = buf[off + hl + 1]; }
                    }
                    else
                    {
                        e->tagmis++;
                    }
                    q_insert(e, -1, r);
                    if (e->histn < MAXHIST)
                    {
                        e->hist[e->histn] = rec_make(buf + off, rl, 0);
                        e->hist[e->histn].id = r.id;
                        e->hist[e->histn].itype = r.itype; e->hist[e->histn].imsg = r.imsg; e->hist[e->histn].wsec = r.wsec;
                        e->hist[e->histn].kfp = r.kfp; memcpy(e->hist[e->histn].seq, r.seq, 8);
                        e->hist[e->histn].alvl = r.alvl; e->hist[e->histn].adesc = r.adesc;
                        e->histn++;
                    }
                    sb_printf(&e->outrecs, "%s%d", e->outrecs.n ? "," : "", buf[off]);
                }
                off += rl;
            }
        }
        total += len;
        if (e->dtls)
        {
            rc = matrixDtlsSentData(ssl, len);
        }
        else
        {
            rc = matrixSslSentData(ssl, len);
        }
        e->sentrc = rc;
        e->have_sentrc = 1;
        if (maxbytes > 0) break;
        if (++guard > 64) break;
    }
    return total;
}

/* match delivered plaintext against what the peer's application submitted */
static void note_delivery(ep_t *e, unsigned char *pt, uint32 len)
{
    ep_t *p = e->peer;
    int ok = 0;
    e->dlvd = fnv(e->dlvd ? e->dlvd : 2166136261u, pt, (int) len); e->dlvn += len;
    if (p && !e->dtls)
    {
        int isearly = e->server && e->ssl && e->ssl->hsState != SSL_HS_DONE;   /* only a client sends early data */
        if (!isearly && e->rxpos + (int) len <= p->txn && (len == 0 || memcmp(p->tx + e->rxpos, pt, len) == 0))
        {
            ok = 1;
            sb_printf(&e->dlv, "%s{\"len\":%u,\"ok\":%d,\"pos\":%d}", e->dlv.n ? "," : "", len, ok, e->rxpos);
            e->rxpos += len;
        }
        else if (isearly && e->erxpos + (int) len <= p->etxn && (len == 0 || memcmp(p->etx + e->erxpos, pt, len) == 0))
        {
            ok = 1;
            sb_printf(&e->dlv, "%s{\"len\":%u,\"ok\":%d,\"pos\":%d}", e->dlv.n ? "," : "", len, ok, -1 - e->erxpos);
            e->erxpos += len;
        }
        else
        {
            sb_printf(&e->dlv, "%s{\"len\":%u,\"ok\":%d,\"pos\":%d}", e->dlv.n ? "," : "", len, 0, e->rxpos);
        }
    }
    else if (p)
    {
        /* datagram semantics: must equal one submitted message */
        /* (payloads can coincide: the first submitted message with this content that has not been handed over yet,
           else the first with this content - a duplicate) */
        int i, start = 0, m = -1, mdup = -1;
        for (i = 0; i < p->txmsgn; i++)
        {
            int end = p->txmsg[i];
            if (end - start == (int) len && (len == 0 || memcmp(p->tx + start, pt, len) == 0))
            {
                if (mdup < 0) mdup = i;
                if (!(e->dgot[i >> 3] & (1 << (i & 7)))) { m = i; break; }
            }
            start = end;
        }
        if (m < 0) m = mdup;
        if (m >= 0) e->dgot[m >> 3] |= (unsigned char) (1 << (m & 7));
        sb_printf(&e->dlv, "%s{\"len\":%u,\"ok\":%d,\"pos\":%d}", e->dlv.n ? "," : "", len, m >= 0, m);
    }
    else
    {
        sb_printf(&e->dlv, "%s{\"len\":%u,\"ok\":0,\"pos\":-1}", e->dlv.n ? "," : "", len);
    }
    e->ndlv++;
}

/* Feed bytes to an endpoint in one or more receive calls; run the processed-data loop. */
static int ep_feed(ep_t *e, const unsigned char *b, int n)
{
    ssl_t *ssl = e->ssl;
    int off = 0;
    int32 rc = 0;
    unsigned char *buf, *pt;
    uint32 ptlen;
    int guard = 0;

    if (!ssl) { e->lastrc = -999; return -999; }
    do
    {
        int32 room = matrixSslGetReadbufOfSize(ssl, n - off > 0 ? n - off : 1, &buf);
        int take;
        if (room <= 0) { rc = room < 0 ? room : PS_FAILURE; break; }
        take = n - off < room ? n - off : room;
        memcpy(buf, b + off, take);
        off += take;
        rc = matrixSslReceivedData(ssl, take, &pt, &ptlen);
        while (rc == MATRIXSSL_APP_DATA || rc == MATRIXSSL_RECEIVED_ALERT || rc == MATRIXSSL_APP_DATA_COMPRESSED)
        {
            if (rc == MATRIXSSL_RECEIVED_ALERT)
            {
                sb_printf(&e->alin, "%s{\"lvl\":%d,\"desc\":%d}", e->alin.n ? "," : "", ptlen >= 1 ? pt[0] : -1, ptlen >= 2 ? pt[1] : -1);
            }
            else
            {
                note_delivery(e, pt, ptlen);
            }
            rc = matrixSslProcessedData(ssl, &pt, &ptlen);
            if (++guard > 100000) die("processed-data loop does not terminate");
        }
        if (rc < 0) break;
    }
    while (off < n);
    e->lastrc = rc;
    return rc;
}

/******************************************************************************/
/* record forging (deviant peer holding the keys): seal a record that verifies under the
   read state of endpoint `to`.  Independent of MatrixSSL's own record code (OpenSSL EVP). */

static const EVP_MD *md_for_macsize(int n)
{
    switch (n) { case 20: return EVP_sha1(); case 32: return EVP_sha256(); case 48: return EVP_sha384(); }
    return NULL;
}

static int forge_record(ep_t *to, int type, const unsigned char *body, int blen, unsigned char *out, int outmax, int seqdelta)
{
    ssl_t *ssl = to->ssl;
    int hl = rec_hdrlen(to);
    unsigned char seq[8];
    int i, n = 0;
    EVP_CIPHER_CTX *c = NULL;
    int ol = 0, fl = 0;

    if (outmax < blen + 256) return -1;
    memcpy(seq, ssl->sec.remSeq, 8);
    for (i = 0; i < seqdelta; i++) { int k; for (k = 7; k >= 0; k--) { if (++seq[k]) break; } }

    if (USING_TLS_1_3(ssl))
    {
        /* TLS 1.3: only meaningful once the endpoint decrypts; else plaintext */
        unsigned char nonce[12], aad[5];
        const EVP_CIPHER *ciph;
        int keylen = ssl->cipher ? ssl->cipher->keySize : 16;
        if (!(ssl->flags & SSL_FLAGS_READ_SECURE))
        {
            out[0] = type; out[1] = 3; out[2] = 3; out[3] = blen >> 8; out[4] = blen & 0xff;
            memcpy(out + 5, body, blen);
            return 5 + blen;
        }
        memcpy(nonce, ssl->sec.tls13ReadIv, 12);
        for (i = 0; i < 8; i++) nonce[4 + i] ^= seq[i];
        n = blen + 1 + 16;
        aad[0] = 23; aad[1] = 3; aad[2] = 3; aad[3] = n >> 8; aad[4] = n & 0xff;
        if (ssl->cipher && ssl->cipher->ident == 0x1303) ciph = EVP_chacha20_poly1305();
        else ciph = keylen == 32 ? EVP_aes_256_gcm() : EVP_aes_128_gcm();
        memcpy(out, aad, 5);
        memcpy(out + 5, body, blen);
        out[5 + blen] = type;
        c = EVP_CIPHER_CTX_new();
        EVP_EncryptInit_ex(c, ciph, NULL, NULL, NULL);
        EVP_CIPHER_CTX_ctrl(c, EVP_CTRL_AEAD_SET_IVLEN, 12, NULL);
        EVP_EncryptInit_ex(c, NULL, NULL, ssl->sec.rKeyptr, nonce);
        EVP_EncryptUpdate(c, NULL, &ol, aad, 5);
        EVP_EncryptUpdate(c, out + 5, &ol, out + 5, blen + 1);
        EVP_EncryptFinal_ex(c, out + 5 + ol, &fl);
        EVP_CIPHER_CTX_ctrl(c, EVP_CTRL_AEAD_GET_TAG, 16, out + 5 + blen + 1);
        EVP_CIPHER_CTX_free(c);
        return 5 + n;
    }

    /* TLS <= 1.2 / DTLS header */
    out[0] = type;
    {
        unsigned maj = 3, min = 3;
        if (ssl->activeVersion & v_tls_1_1) { min = 2; }
        if (ssl->activeVersion & v_tls_1_0) { min = 1; }
        if (ssl->activeVersion & v_dtls_1_2) { maj = 0xfe; min = 0xfd; }
        if (ssl->activeVersion & v_dtls_1_0) { maj = 0xfe; min = 0xff; }
        out[1] = maj; out[2] = min;
    }
    if (to->dtls)
    {
        /* epoch + 48-bit sequence: next after the last one received */
        unsigned char *r = ssl->lastRsn;
        out[3] = ssl->expectedEpoch[0]; out[4] = ssl->expectedEpoch[1];
        memcpy(out + 5, r, 6);
        for (i = 0; i <= seqdelta; i++) { int k; for (k = 10; k >= 5; k--) { if (++out[k]) break; } }
        memcpy(seq, out + 3, 8);
    }
    if (!(ssl->flags & SSL_FLAGS_READ_SECURE))
    {
        out[hl - 2] = blen >> 8; out[hl - 1] = blen & 0xff;
        memcpy(out + hl, body, blen);
        return hl + blen;
    }
    if (ssl->flags & SSL_FLAGS_AEAD_R)
    {
        unsigned char nonce[12], aad[13];
        const EVP_CIPHER *ciph;
        int keylen = ssl->cipher->keySize;
        int chacha = (ssl->cipher->flags & CRYPTO_FLAGS_CHACHA) ? 1 : 0;
        memcpy(aad, seq, 8);
        aad[8] = type; aad[9] = out[1]; aad[10] = out[2]; aad[11] = blen >> 8; aad[12] = blen & 0xff;
        if (chacha)
        {
            memcpy(nonce, ssl->sec.readIV, 12);
            for (i = 0; i < 8; i++) nonce[4 + i] ^= seq[i];
            ciph = EVP_chacha20_poly1305();
            n = blen + 16;
            out[hl - 2] = n >> 8; out[hl - 1] = n & 0xff;
            memcpy(out + hl, body, blen);
            c = EVP_CIPHER_CTX_new();
            EVP_EncryptInit_ex(c, ciph, NULL, NULL, NULL);
            EVP_CIPHER_CTX_ctrl(c, EVP_CTRL_AEAD_SET_IVLEN, 12, NULL);
            EVP_EncryptInit_ex(c, NULL, NULL, ssl->sec.readKey, nonce);
            EVP_EncryptUpdate(c, NULL, &ol, aad, 13);
            EVP_EncryptUpdate(c, out + hl, &ol, out + hl, blen);
            EVP_EncryptFinal_ex(c, out + hl + ol, &fl);
            EVP_CIPHER_CTX_ctrl(c, EVP_CTRL_AEAD_GET_TAG, 16, out + hl + blen);
            EVP_CIPHER_CTX_free(c);
            return hl + n;
        }
        memcpy(nonce, ssl->sec.readIV, 4);
        memcpy(nonce + 4, seq, 8);  /* explicit nonce = sequence number (any unique value would do) */
        ciph = keylen == 32 ? EVP_aes_256_gcm() : EVP_aes_128_gcm();
        n = 8 + blen + 16;
        out[hl - 2] = n >> 8; out[hl - 1] = n & 0xff;
        memcpy(out + hl, nonce + 4, 8);
        memcpy(out + hl + 8, body, blen);
        c = EVP_CIPHER_CTX_new();
        EVP_EncryptInit_ex(c, ciph, NULL, NULL, NULL);
        EVP_CIPHER_CTX_ctrl(c, EVP_CTRL_AEAD_SET_IVLEN, 12, NULL);
        EVP_EncryptInit_ex(c, NULL, NULL, ssl->sec.readKey, nonce);
        EVP_EncryptUpdate(c, NULL, &ol, aad, 13);
        EVP_EncryptUpdate(c, out + hl + 8, &ol, out + hl + 8, blen);
        EVP_EncryptFinal_ex(c, out + hl + 8 + ol, &fl);
        EVP_CIPHER_CTX_ctrl(c, EVP_CTRL_AEAD_GET_TAG, 16, out + hl + 8 + blen);
        EVP_CIPHER_CTX_free(c);
        return hl + n;
    }
    /* CBC + HMAC, explicit IV (TLS 1.1+, DTLS) */
    {
        int bs = ssl->deBlockSize, ms = ssl->deMacSize;
        const EVP_MD *md = md_for_macsize(ms);
        unsigned char hdr[13], mac[64], iv[16];
        unsigned int maclen = 0;
        int padlen, ptl;
        HMAC_CTX *h;
        const EVP_CIPHER *ciph = ssl->cipher->keySize == 32 ? EVP_aes_256_cbc() : EVP_aes_128_cbc();
        if (!md || bs != 16) return -1;
        memcpy(hdr, seq, 8);
        hdr[8] = type; hdr[9] = out[1]; hdr[10] = out[2]; hdr[11] = blen >> 8; hdr[12] = blen & 0xff;
        h = HMAC_CTX_new();
        HMAC_Init_ex(h, ssl->sec.readMAC, ms, md, NULL);
        HMAC_Update(h, hdr, 13);
        HMAC_Update(h, body, blen);
        HMAC_Final(h, mac, &maclen);
        HMAC_CTX_free(h);
        ptl = blen + ms;
        padlen = bs - (ptl % bs);           /* 1..bs, value padlen-1 */
        for (i = 0; i < 16; i++) iv[i] = (unsigned char) (rng_next() >> 24);
        n = bs + ptl + padlen;
        out[hl - 2] = n >> 8; out[hl - 1] = n & 0xff;
        memcpy(out + hl, iv, bs);
        memcpy(out + hl + bs, body, blen);
        memcpy(out + hl + bs + blen, mac, ms);
        memset(out + hl + bs + ptl, padlen - 1, padlen);
        c = EVP_CIPHER_CTX_new();
        EVP_EncryptInit_ex(c, ciph, NULL, ssl->sec.readKey, iv);
        EVP_CIPHER_CTX_set_padding(c, 0);
        EVP_EncryptUpdate(c, out + hl + bs, &ol, out + hl + bs, ptl + padlen);
        EVP_CIPHER_CTX_free(c);
        return hl + n;
    }
}

/******************************************************************************/
/* script helpers: key=value option parsing */

static const char *opt_get(char **tok, int ntok, const char *key)
{
    int i;
    size_t kl = strlen(key);
    for (i = 0; i < ntok; i++)
    {
        if (strncmp(tok[i], key, kl) == 0 && tok[i][kl] == '=') return tok[i] + kl + 1;
    }
    return NULL;
}

static int opt_int(char **tok, int ntok, const char *key, int dflt)
{
    const char *v = opt_get(tok, ntok, key);
    return v ? atoi(v) : dflt;
}

static keyset_t *keys_get(const char *name)
{
    int i;
    for (i = 0; i < MAXKEYS; i++)
    {
        if (g_keys[i].used && strcmp(g_keys[i].name, name) == 0) return &g_keys[i];
    }
    die("unknown key set %s", name);
    return NULL;
}

static psProtocolVersion_t ver_by_name(const char *n)
{
    if (!strcmp(n, "T13")) return v_tls_1_3;
    if (!strcmp(n, "T12")) return v_tls_1_2;
    if (!strcmp(n, "T11")) return v_tls_1_1;
    if (!strcmp(n, "T10")) return v_tls_1_0;
    if (!strcmp(n, "D12")) return v_dtls_1_2;
    if (!strcmp(n, "D10")) return v_dtls_1_0;
    die("unknown version %s", n);
    return 0;
}

static int split_csv(char *s, char **out, int max)
{
    int n = 0;
    char *p = s;
    if (!s || !*s) return 0;
    while (p && n < max)
    {
        char *c = strchr(p, ',');
        if (c) *c = 0;
        out[n++] = p;
        p = c ? c + 1 : NULL;
    }
    return n;
}

/* deterministic ticket keys: index k */
static void ticket_key_material(int k, unsigned char name[16], unsigned char sym[32], unsigned char mac[32])
{
    int i;
    for (i = 0; i < 16; i++) name[i] = (unsigned char) (0xA0 + k * 7 + i);
    for (i = 0; i < 32; i++) { sym[i] = (unsigned char) (k * 31 + i * 3 + 1); mac[i] = (unsigned char) (k * 17 + i * 5 + 2); }
}

/******************************************************************************/
/* commands */

static sb_t g_out;

static void cmd_keys(char **tok, int ntok)
{
    /* keys <K> [id=<cert>,<key>] [ca=<file>] [psk=<n>] [psk13=<n>] [early=<bytes>] [tickets=<k>] [idtype=rsa|ec|ed] */
    int i, rc = 0;
    keyset_t *ks = NULL;
    const char *id, *ca, *v;
    for (i = 0; i < MAXKEYS; i++) { if (!g_keys[i].used) { ks = &g_keys[i]; break; } }
    if (!ks) die("too many key sets");
    memset(ks, 0, sizeof(*ks));
    snprintf(ks->name, sizeof(ks->name), "%s", tok[1]);
    if (matrixSslNewKeys(&ks->keys, NULL) < 0)
    {
        /* (allocation failure injected) no key set */
        ks->keys = NULL; ks->used = 1;
        emit_begin(&g_out, "keys", NULL);
        sb_printf(&g_out, ",\"name\":\"%s\",\"rcn\":%d", ks->name, PS_MEM_FAIL);
        emit_end(&g_out);
        return;
    }
    ks->used = 1;
    id = opt_get(tok, ntok, "id");
    ca = opt_get(tok, ntok, "ca");
    if (id || ca)
    {
        char cert[512] = "", key[512] = "";
        matrixSslLoadKeysOpts_t lo;
        memset(&lo, 0, sizeof(lo));
        if (id)
        {
            const char *c = strchr(id, ',');
            if (!c) die("id=<cert>,<key>");
            snprintf(cert, sizeof(cert), "%.*s", (int) (c - id), id);
            snprintf(key, sizeof(key), "%s", c + 1);
        }
        v = opt_get(tok, ntok, "idtype");
        if (v && !strcmp(v, "ed")) lo.key_type = PS_ED25519;
        else if (v && !strcmp(v, "ec")) lo.key_type = PS_ECC;
        else if (v && !strcmp(v, "rsa")) lo.key_type = PS_RSA;
        if (opt_int(tok, ntok, "allowexpired", 0)) lo.flags |= LOAD_KEYS_OPT_ALLOW_OUT_OF_DATE_CERT_PARSE;
        rc = matrixSslLoadKeys(ks->keys, id ? cert : NULL, id ? key : NULL, NULL, ca, &lo);
        snprintf(ks->idcert, sizeof(ks->idcert), "%s", cert); snprintf(ks->idkey, sizeof(ks->idkey), "%s", key);
        v = opt_get(tok, ntok, "swapcert");
        if (v && rc >= 0 && ks->keys->identity)
        {
            /* a deviant prover: present this chain instead of the one the key pair was loaded with (the
               loader refuses chains that do not validate, a peer written by somebody else would not) */
            psX509Cert_t *c = NULL;
            int32 prc = psX509ParseCertFile(NULL, v, &c, CERT_STORE_UNPARSED_BUFFER | CERT_STORE_DN_BUFFER);
            if (prc < 0 || c == NULL) { if (c) psX509FreeCert(c); rc = -9000 + prc; }
            else { psX509FreeCert(ks->keys->identity->cert); ks->keys->identity->cert = c; }
        }
    }
    v = opt_get(tok, ntok, "psk");
    if (v && rc >= 0)
    {
        int n = atoi(v), k;
        for (k = 0; k < n && rc >= 0; k++)
        {
            unsigned char pk[SSL_PSK_MAX_KEY_SIZE], pid[SSL_PSK_MAX_ID_SIZE];
            memset(pk, 0x40 + k, sizeof(pk));
            memset(pid, 0, sizeof(pid));
            snprintf((char *) pid, sizeof(pid), "mxpsk%d", k);
            rc = matrixSslLoadPsk(ks->keys, pk, 16, pid, 8);
        }
    }
    v = opt_get(tok, ntok, "psk13");
    if (v && rc >= 0)
    {
        int n = atoi(v), k;
        for (k = 0; k < n && rc >= 0; k++)
        {
            unsigned char pk[32], pid[32];
            psTls13SessionParams_t sp;
            memset(&sp, 0, sizeof(sp));
            sp.maxEarlyData = opt_int(tok, ntok, "early", 0);
            if (sp.maxEarlyData > 0) sp.cipherId = (psCipher16_t) opt_int(tok, ntok, "pskcipher", 0x1301);  /* needed for early data keys */
            /* session parameters an application binds to an external PSK: server name and ALPN protocol (copied by the library) */
            if (opt_get(tok, ntok, "psksni")) { sp.sni = (unsigned char *) opt_get(tok, ntok, "psksni"); sp.sniLen = (psSize_t) strlen((const char *) sp.sni); }
            if (opt_get(tok, ntok, "pskalpn")) { sp.alpn = (unsigned char *) opt_get(tok, ntok, "pskalpn"); sp.alpnLen = (psSize_t) strlen((const char *) sp.alpn); }
            memset(pk, 0x60 + k, sizeof(pk));
            memset(pid, 0, sizeof(pid));
            snprintf((char *) pid, sizeof(pid), "mxpsk13-%d", k);
            rc = matrixSslLoadTls13Psk(ks->keys, pk, sizeof(pk), pid, 10, &sp);
        }
    }
    v = opt_get(tok, ntok, "tickets");
    if (v && rc >= 0)
    {
        int n = atoi(v), k;
        for (k = 0; k < n && rc >= 0; k++)
        {
            unsigned char name[16], sym[32], mac[32];
            ticket_key_material(k, name, sym, mac);
            rc = matrixSslLoadSessionTicketKeys(ks->keys, name, sym, 32, mac, 32);
        }
    }
    if (rc < 0)
    {
        /* an application does not go on with a key set that failed to load */
        matrixSslDeleteKeys(ks->keys);
        ks->keys = NULL;
    }
    emit_begin(&g_out, "keys", NULL);
    sb_printf(&g_out, ",\"name\":\"%s\",\"rcn\":%d", ks->name, rc);
    emit_end(&g_out);
}


/* server-side extension callbacks: record what the library hands over */
static ep_t *ep_of_ssl(void *ssl)
{
    int i;
    for (i = 0; i < MAXEP; i++) if (g_eps[i].ssl == (ssl_t *) ssl) return &g_eps[i];
    return NULL;
}
static void sni_cb(void *ssl, char *hostname, int32 hostnameLen, sslKeys_t **newKeys)
{
    ep_t *e = ep_of_ssl(ssl);
    if (e)
    {
        int n = hostnameLen < (int) sizeof(e->sni_seen) - 1 ? hostnameLen : (int) sizeof(e->sni_seen) - 1, i;
        for (i = 0; i < n; i++) e->sni_seen[i] = (hostname[i] >= 0x21 && hostname[i] < 0x7f && hostname[i] != '"' && hostname[i] != '\\') ? hostname[i] : '?';
        e->sni_seen[n > 0 ? n : 0] = 0;
        e->snicalls++;
    }
    /* as apps/ssl/server.c does: hand out keys the application owns (here: the key set the session was created with) */
    *newKeys = (e && e->sniks) ? e->sniks->keys : NULL;
}
static void alpn_cb(void *ssl, short protoCount, char *proto[MAX_PROTO_EXT], int32 protoLen[MAX_PROTO_EXT], int32 *index)
{
    ep_t *e = ep_of_ssl(ssl);
    int k, o = 0;
    *index = -1;
    if (!e) return;
    e->alpncalls++;
    e->alpn_seen[0] = 0;
    for (k = 0; k < protoCount && k < MAX_PROTO_EXT; k++)
    {
        int i;
        if (k && o < (int) sizeof(e->alpn_seen) - 1) e->alpn_seen[o++] = ',';
        for (i = 0; i < protoLen[k] && o < (int) sizeof(e->alpn_seen) - 1; i++)
            e->alpn_seen[o++] = (proto[k][i] >= 0x21 && proto[k][i] < 0x7f && proto[k][i] != '"' && proto[k][i] != '\\') ? proto[k][i] : '?';
        e->alpn_seen[o] = 0;
        if (*index < 0 && (int) strlen(e->alpn_pick) == protoLen[k] && !memcmp(e->alpn_pick, proto[k], protoLen[k])) *index = k;
    }
}

static int parse_ntype(const char *v, int dflt)
{
    if (!v) return dflt;
    if (!strcmp(v, "cn")) return NAME_TYPE_CN;
    if (!strcmp(v, "dns")) return NAME_TYPE_SAN_DNS;
    if (!strcmp(v, "email")) return NAME_TYPE_SAN_EMAIL;
    if (!strcmp(v, "ip")) return NAME_TYPE_SAN_IP_ADDRESS;
    if (!strcmp(v, "any")) return NAME_TYPE_ANY;
    if (!strcmp(v, "host")) return NAME_TYPE_HOSTNAME;
    return dflt;
}

/* %00 / %xx escapes allow NUL and control characters in an expected name */
static char *unescape_name(const char *nm, char *nmbuf, int cap)
{
    int i = 0, o = 0;
    if (!nm) return NULL;
    while (nm[i] && o < cap - 1)
    {
        if (nm[i] == '%' && hexval(nm[i + 1]) >= 0 && hexval(nm[i + 2]) >= 0) { nmbuf[o++] = (char) (hexval(nm[i + 1]) * 16 + hexval(nm[i + 2])); i += 3; }
        else nmbuf[o++] = nm[i++];
    }
    nmbuf[o] = 0;
    return nmbuf;
}

static void cmd_new(char **tok, int ntok)
{
    /* new <ep> client|server keys=<K> [ver=T12,T13] [suites=hex,hex] [sid=<name>] [cb=none|strict|perm]
       [name=<expected>] [ems=-1|0|1] [tick=1] [scsv=1] [groups=..] [sigalgs=..] [early=<n>] [shares=n] [maxfrag=n] */
    ep_t *e = NULL;
    int i, rc;
    const char *v;
    sslSessOpts_t opts;
    keyset_t *ks;
    sslCertCb_t cb = NULL;

    if (ep_find(tok[1])) die("endpoint %s exists", tok[1]);
    for (i = 0; i < MAXEP; i++) { if (!g_eps[i].used) { e = &g_eps[i]; break; } }
    if (!e) die("too many endpoints");
    memset(e, 0, sizeof(*e));
    snprintf(e->name, sizeof(e->name), "%s", tok[1]);
    e->used = 1;
    e->autoflush = 1;
    e->server = !strcmp(tok[2], "server");
    ks = keys_get(opt_get(tok, ntok, "keys") ? opt_get(tok, ntok, "keys") : "-");
    memset(&opts, 0, sizeof(opts));
    v = opt_get(tok, ntok, "ver");
    if (v)
    {
        char tmp[128], *parts[8];
        psProtocolVersion_t vers[8];
        int n, k;
        snprintf(tmp, sizeof(tmp), "%s", v);
        n = split_csv(tmp, parts, 8);
        for (k = 0; k < n; k++)
        {
            vers[k] = ver_by_name(parts[k]);
            if (vers[k] & v_dtls_any) e->dtls = 1;
        }
        if (e->dtls)
        {
            /* the SessOpts version API is TLS-only; DTLS is selected through versionFlag:
               DTLS|TLS_1_2 enables DTLS 1.2 and 1.0, DTLS|TLS_1_1 enables DTLS 1.0 only */
            int has12 = 0;
            for (k = 0; k < n; k++) if (vers[k] & v_dtls_1_2) has12 = 1;
            opts.versionFlag = SSL_FLAGS_DTLS | (has12 ? SSL_FLAGS_TLS_1_2 : SSL_FLAGS_TLS_1_1);
            rc = 0;
        }
        else if (e->server) rc = matrixSslSessOptsSetServerTlsVersions(&opts, vers, n);
        else rc = matrixSslSessOptsSetClientTlsVersions(&opts, vers, n);
        if (rc < 0) die("SetTlsVersions failed %d", rc);
    }
    v = opt_get(tok, ntok, "cb");
    e->cbmode = 0;
    if (v && !strcmp(v, "strict")) { e->cbmode = 1; cb = cert_cb; }
    if (v && !strcmp(v, "perm")) { e->cbmode = 2; cb = cert_cb; }
    if ((v = opt_get(tok, ntok, "ems"))) opts.extendedMasterSecret = atoi(v);
    if ((v = opt_get(tok, ntok, "tick"))) opts.ticketResumption = atoi(v);
    if ((v = opt_get(tok, ntok, "scsv"))) opts.fallbackScsv = atoi(v);
    if ((v = opt_get(tok, ntok, "maxfrag"))) opts.maxFragLen = atoi(v);
    if ((v = opt_get(tok, ntok, "early"))) opts.tls13SessionMaxEarlyData = atoi(v);
    if ((v = opt_get(tok, ntok, "ocsp"))) opts.OCSPstapling = atoi(v);
    /* TLS 1.3 record padding (RFC 8446 5.4): to a multiple of a block size, or a fixed number of zero bytes per record */
    if ((v = opt_get(tok, ntok, "padblock"))) opts.tls13BlockSize = atoi(v);
    if ((v = opt_get(tok, ntok, "padlen"))) opts.tls13PadLen = atoi(v);
    if ((v = opt_get(tok, ntok, "tls13suites"))) opts.tls13CiphersuitesEnabledClient = atoi(v) ? PS_TRUE : PS_FALSE;
    v = opt_get(tok, ntok, "groups");
    if (v)
    {
        char tmp[128], *parts[8];
        uint16_t g[8];
        int n, k;
        snprintf(tmp, sizeof(tmp), "%s", v);
        n = split_csv(tmp, parts, 8);
        for (k = 0; k < n; k++) g[k] = (uint16_t) strtol(parts[k], NULL, 0);
        rc = matrixSslSessOptsSetKeyExGroups(&opts, g, n, opt_int(tok, ntok, "shares", 1));
        if (rc < 0) die("SetKeyExGroups failed %d", rc);
    }
    v = opt_get(tok, ntok, "sigalgs");
    if (v)
    {
        char tmp[256], *parts[16];
        uint16_t g[16];
        int n, k;
        snprintf(tmp, sizeof(tmp), "%s", v);
        n = split_csv(tmp, parts, 16);
        for (k = 0; k < n; k++) g[k] = (uint16_t) strtol(parts[k], NULL, 0);
        rc = matrixSslSessOptsSetSigAlgs(&opts, g, n);
        if (rc < 0) die("SetSigAlgs failed %d", rc);
    }
    ep_call_begin(e);
    if (ks->keys == NULL)
    {
        rc = PS_MEM_FAIL;       /* the key set could not be created (injected allocation failure): an application stops here */
    }
    else if (e->server)
    {
        rc = matrixSslNewServerSession(&e->ssl, ks->keys, cb, &opts);
    }
    else
    {
        psCipher16_t suites[16];
        int ns = 0;
        sslSessionId_t *sid = NULL;
        v = opt_get(tok, ntok, "suites");
        if (v)
        {
            char tmp[256], *parts[16];
            int k;
            snprintf(tmp, sizeof(tmp), "%s", v);
            ns = split_csv(tmp, parts, 16);
            for (k = 0; k < ns; k++) suites[k] = (psCipher16_t) strtol(parts[k], NULL, 0);
        }
        v = opt_get(tok, ntok, "sid");
        if (v)
        {
            int k, found = -1, freeslot = -1;
            for (k = 0; k < MAXSID; k++)
            {
                if (g_sids[k].used && !strcmp(g_sids[k].name, v)) found = k;
                if (!g_sids[k].used && freeslot < 0) freeslot = k;
            }
            if (found < 0)
            {
                if (freeslot < 0) die("too many sids");
                found = freeslot;
                snprintf(g_sids[found].name, sizeof(g_sids[found].name), "%s", v);
                if (matrixSslNewSessionId(&g_sids[found].sid, NULL) < 0) { g_sids[found].sid = NULL; found = -1; }
                else g_sids[found].used = 1;
            }
            sid = found >= 0 ? g_sids[found].sid : NULL;
        }
        {
            /* expected peer name and how the application wants it matched (matrixValidateCertsOptions_t) */
            char nmbuf[512];
            if (opt_get(tok, ntok, "ntype")) opts.validateCertsOpts.nameType = parse_ntype(opt_get(tok, ntok, "ntype"), NAME_TYPE_HOSTNAME);
            if (opt_get(tok, ntok, "mflags")) opts.validateCertsOpts.mFlags = (uint32_t) opt_int(tok, ntok, "mflags", 0);
            if (opt_get(tok, ntok, "vflags")) opts.validateCertsOpts.flags = (uint64_t) opt_int(tok, ntok, "vflags", 0);
            {
                /* ClientHello extensions the application supplies: server_name (sni=<host>) and ALPN (alpn=<p1,p2,..>) */
                tlsExtension_t *ext = NULL;
                const char *sni = opt_get(tok, ntok, "sni"), *alpn = opt_get(tok, ntok, "alpn");
                int32 xrc = 0;
                if (sni || alpn) xrc = matrixSslNewHelloExtension(&ext, NULL);
                if (xrc >= 0 && sni)
                {
                    unsigned char *xd = NULL; int32 xl = 0;
                    xrc = matrixSslCreateSNIext(NULL, (unsigned char *) sni, (int32) strlen(sni), &xd, &xl);
                    if (xrc >= 0) { xrc = matrixSslLoadHelloExtension(ext, xd, xl, EXT_SNI); psFree(xd, NULL); }
                }
#ifdef USE_ALPN
                if (xrc >= 0 && alpn)
                {
                    char tmp2[128], *pp[8]; unsigned char *pr[8]; int32 pl[8]; int np, k2;
                    unsigned char *xd = NULL; int32 xl = 0;
                    snprintf(tmp2, sizeof(tmp2), "%s", alpn);
                    np = split_csv(tmp2, pp, 8);
                    for (k2 = 0; k2 < np; k2++) { pr[k2] = (unsigned char *) pp[k2]; pl[k2] = (int32) strlen(pp[k2]); }
                    xrc = matrixSslCreateALPNext(NULL, np, pr, pl, &xd, &xl);
                    if (xrc >= 0) { xrc = matrixSslLoadHelloExtension(ext, xd, xl, EXT_ALPN); psFree(xd, NULL); }
                }
#else
                (void) alpn;    /* ALPN is not part of this build configuration */
#endif
                if (xrc < 0) rc = xrc;      /* the extension could not be built (allocation failure): an application stops here */
                else rc = matrixSslNewClientSession(&e->ssl, ks->keys, sid, ns ? suites : NULL, ns, cb,
                        unescape_name(opt_get(tok, ntok, "name"), nmbuf, sizeof(nmbuf)), ext, NULL, &opts);
                if (ext) matrixSslDeleteHelloExtension(ext);
            }
        }
    }
    e->sni_seen[0] = e->alpn_seen[0] = e->alpn_pick[0] = 0; e->snicalls = e->alpncalls = 0;
    e->sniks = ks;
    if (rc >= 0 && e->server && e->ssl && opt_int(tok, ntok, "snicb", 0)) matrixSslRegisterSNICallback(e->ssl, sni_cb);
#ifdef USE_ALPN
    if (rc >= 0 && e->server && e->ssl && (v = opt_get(tok, ntok, "alpnpick")))
    {
        snprintf(e->alpn_pick, sizeof(e->alpn_pick), "%s", v);
        matrixSslRegisterALPNCallback(e->ssl, alpn_cb);
    }
#endif
    if (rc >= 0 && (v = opt_get(tok, ntok, "nosuites")))
    {
        /* per-session disabling of cipher suites (server side restriction of the enabled set) */
        char tmp[256], *parts[32];
        int n, k;
        snprintf(tmp, sizeof(tmp), "%s", v);
        n = split_csv(tmp, parts, 32);
        /* in order; "+id" enables a suite again */
        for (k = 0; k < n; k++)
        {
            if (parts[k][0] == '+') matrixSslSetCipherSuiteEnabledStatus(e->ssl, (psCipher16_t) strtol(parts[k] + 1, NULL, 0), PS_TRUE);
            else matrixSslSetCipherSuiteEnabledStatus(e->ssl, (psCipher16_t) strtol(parts[k], NULL, 0), PS_FALSE);
        }
    }
    e->lastrc = rc;
    if (rc < 0) { e->ssl = NULL; }
    emit_begin(&g_out, "new", e);
    emit_state(&g_out, e);
    if (rc < 0) sb_printf(&g_out, ",\"rcn\":%d", rc);
    sb_printf(&g_out, ",\"sidn\":\"%s\"", (!e->server && opt_get(tok, ntok, "sid")) ? opt_get(tok, ntok, "sid") : "-");
    sb_printf(&g_out, ",\"oidlen\":%d", (e->ssl && !e->server) ? (int) e->ssl->sessionIdLen : 0);     /* the session id a client puts into its ClientHello */
    emit_end(&g_out);
}

static void cmd_link(char **tok)
{
    ep_t *a = ep_get(tok[1]), *b = ep_get(tok[2]);
    a->peer = b; b->peer = a;
}

static void do_flush_event(ep_t *e, int maxbytes)
{
    ep_call_begin(e);
    ep_flush(e, maxbytes);
    emit_begin(&g_out, "flush", e);
    emit_state(&g_out, e);
    emit_end(&g_out);
}

/* deliver `count` records from src's queue to its peer (one receive call for all of them) */
static void do_deliver(ep_t *src, int count, int chunk)
{
    ep_t *dst = src->peer;
    unsigned char *buf;
    int total = 0, i, ids0 = -1, origin = 0, itype = -1, imsg = -1, wsec = 0, kmatch = 0, seqm = 0, auth = 0, alvl = -1, adesc = -1;
    unsigned char seenkey[12]; int have_seenkey = 0;
    int rs0 = dst && dst->ssl ? !!(dst->ssl->flags & SSL_FLAGS_READ_SECURE) : 0;
    if (!dst) die("endpoint %s has no peer", src->name);
    if (count > src->qn) count = src->qn;
    if (count <= 0) return;
    for (i = 0; i < count; i++) total += src->q[i].n;
    buf = malloc(total + 1);
    total = 0;
    ids0 = src->q[0].id; itype = src->q[0].itype; imsg = src->q[0].imsg; wsec = src->q[0].wsec;
    alvl = src->q[0].alvl; adesc = src->q[0].adesc;
    if (dst->ssl)
    {
        rec_t *r0 = &src->q[0];
        int og = r0->origin;
        kmatch = (r0->kfp != 0 && r0->kfp == rkey_fp(dst->ssl));
        if (dst->dtls)
        {
            /* DTLS: explicit epoch+sequence; fresh iff not delivered to this endpoint before */
            int k2;
            seqm = 1;
            if (r0->n >= 13)
            {
                unsigned char key[12];
                memcpy(key, &r0->kfp, 4); memcpy(key + 4, r0->b + 3, 8);
                for (k2 = 0; k2 < dst->seenn; k2++) if (memcmp(dst->seen[k2], key, 12) == 0) seqm = 0;
                memcpy(seenkey, key, 12); have_seenkey = 1;
            }
        }
        else
        {
            seqm = (memcmp(r0->seq, dst->ssl->sec.remSeq, 8) == 0);
        }
        /* authentic = sealed by a key holder, bytes untouched, and key + sequence number are the ones
           the receiver currently expects (a replayed copy delivered in the original's place qualifies) */
        auth = (og == 0 || og == 3 || og == 4 || og == 5 || og == 6) && wsec && kmatch && seqm;
    }
    for (i = 0; i < count; i++)
    {
        rec_t r = q_remove(src, 0);
        memcpy(buf + total, r.b, r.n);
        total += r.n;
        if (r.origin > origin) origin = r.origin;
        rec_free(&r);
    }
    ep_call_begin(dst);
    if (chunk != 0 && !dst->dtls)
    {
        int off = 0;
        while (off < total)
        {
            /* chunk < 0: pieces of pseudo-random size in 1..-chunk (own generator: the library's random source is not touched) */
            int want = chunk > 0 ? chunk : 1 + (int) ((g_chunk_rng = g_chunk_rng * 6364136223846793005ULL + 1442695040888963407ULL) >> 33) % (-chunk);
            int n = total - off < want ? total - off : want;
            ep_feed(dst, buf + off, n);
            off += n;
            if (dst->lastrc < 0) break;
        }
    }
    else
    {
        ep_feed(dst, buf, total);
    }
    /* DTLS: a datagram counts as "seen" by the receiver only if its record layer took it */
    if (have_seenkey && dst->sub.n && strstr(dst->sub.s, "\"k\":\"R\"") && dst->seenn < 512)
    {
        memcpy(dst->seen[dst->seenn++], seenkey, 12);
    }
    /* DTLS: REQUEST_SEND with an empty outbuf asks the caller to fetch the rebuilt flight (retransmission
       triggered by a duplicate handshake message from the peer) */
    if (dst->autoflush) ep_flush_ex(dst, 0, dst->dtls && dst->ssl && dst->lastrc == MATRIXSSL_REQUEST_SEND && dst->ssl->outlen == 0);
    emit_begin(&g_out, "deliver", dst);
    sb_printf(&g_out, ",\"from\":\"%s\",\"nrec\":%d,\"bytes\":%d,\"rtype\":%d,\"rid\":%d,\"origin\":%d,\"itype\":%d,\"imsg\":\"%s\",\"wsec\":%d,\"kmatch\":%d,\"seqm\":%d,\"auth\":%d,\"alvl\":%d,\"adesc\":%d,\"rs0\":%d",
        src->name, count, total, total > 0 ? buf[0] : -1, ids0, origin, itype, imsg >= 0 ? hs_name(imsg) : "-", wsec, kmatch, seqm, auth, alvl, adesc, rs0);
    if (!dst->dtls && total > 5 + 4 + 4 && buf[0] == 22 && wsec == 0 && imsg == 12 && buf[5 + 4] == 3)
    {
        /* TLS 1.2 ServerKeyExchange of an ECDHE suite, unprotected: ECParameters (named curve), the point, then the
           SignatureAndHashAlgorithm the server signed with */
        int o = 5 + 4 + 3, pl = buf[o];
        if (o + 1 + pl + 2 <= total) sb_printf(&g_out, ",\"skesig\":%d", (buf[o + 1 + pl] << 8) | buf[o + 1 + pl + 1]);
    }
    if (dst->dtls && total > 13 + 12 + 4 && buf[0] == 22 && wsec == 0 && imsg == 12 && buf[13 + 12] == 3
        && buf[13 + 6] == 0 && buf[13 + 7] == 0 && buf[13 + 8] == 0 && !memcmp(buf + 13 + 1, buf + 13 + 9, 3))
    {
        /* the same in a DTLS 1.2 datagram (13-byte record header, 12-byte handshake header, message not fragmented) */
        int o = 13 + 12 + 3, pl = buf[o];
        if (o + 1 + pl + 2 <= total) sb_printf(&g_out, ",\"skesig\":%d", (buf[o + 1 + pl] << 8) | buf[o + 1 + pl + 1]);
    }
    if (!dst->dtls && total >= 5 + 4 + 2 && buf[0] == 22 && wsec == 0 && imsg == 15)
    {
        /* TLS 1.2 CertificateVerify (sent before the client's ChangeCipherSpec): the SignatureAndHashAlgorithm the client signed with */
        sb_printf(&g_out, ",\"cvsig\":%d", (buf[5 + 4] << 8) | buf[5 + 4 + 1]);
    }
    if (dst->dtls && total >= 13)
    {
        /* DTLS record header of the (first) record: epoch, sequence number; message_seq of an unprotected handshake message */
        long dsq = ((long) buf[7] << 24) | ((long) buf[8] << 16) | ((long) buf[9] << 8) | buf[10];
        int dms = (buf[0] == 22 && buf[3] == 0 && buf[4] == 0 && total >= 13 + 6) ? ((buf[13 + 4] << 8) | buf[13 + 5]) : -1;
        sb_printf(&g_out, ",\"dep\":%d,\"dsq\":%ld,\"dms\":%d", (buf[3] << 8) | buf[4], dsq & 0x3fffffff, dms);
    }
    else sb_printf(&g_out, ",\"dep\":-1,\"dsq\":-1,\"dms\":-1");
    emit_state(&g_out, dst);
    emit_end(&g_out);
    free(buf);
}

static int ep_dead(ep_t *e)
{
    return !e->ssl || (e->ssl->flags & (SSL_FLAGS_ERROR | SSL_FLAGS_CLOSED)) || (e->ssl->bFlags & BFLAG_CLOSE_AFTER_SENT);
}

/* honest exchange: flush both, deliver record by record, until quiescent, a limit, or a stop condition */
static void do_pump(ep_t *a, ep_t *b, int maxsteps, ep_t *stop_ep, int stop_hs, int stop_on_done)
{
    int steps = 0, progress = 1;
    ep_t *pair[2];
    pair[0] = a; pair[1] = b;
    while (progress && steps < maxsteps)
    {
        int k;
        progress = 0;
        for (k = 0; k < 2; k++)
        {
            ep_t *e = pair[k];
            if (e->ssl && e->ssl->outlen > 0)
            {
                do_flush_event(e, 0);
                progress = 1;
            }
            while (e->qn > 0 && steps < maxsteps)
            {
                do_deliver(e, 1, 0);
                steps++;
                progress = 1;
                if (stop_ep && stop_ep->ssl && stop_ep->ssl->hsState == stop_hs) return;
                if (stop_on_done && a->ssl && b->ssl && a->ssl->hsState == SSL_HS_DONE && b->ssl->hsState == SSL_HS_DONE
                    && a->qn == 0 && b->qn == 0 && a->ssl->outlen == 0 && b->ssl->outlen == 0) return;
                if (e->peer && e->peer->ssl && e->peer->ssl->outlen > 0 && !e->peer->autoflush) break;
            }
        }
    }
}

static void cmd_send(char **tok, int ntok)
{
    /* send <ep> <len> [fill=<byte>] : application submits len bytes */
    ep_t *e = ep_get(tok[1]);
    int len = atoi(tok[2]), i, rc;
    unsigned char *buf = malloc(len + 1);
    int seedb = (e->txn + e->etxn) * 131 + (e->server ? 77 : 3) + (e->dtls ? e->txmsgn * 7919 : 0);
    (void) ntok;
    for (i = 0; i < len; i++) buf[i] = (unsigned char) ((seedb + i * 7 + (i >> 8) * 13) & 0xff);
    if (e->dtls && len >= 3) { buf[1] = (unsigned char) (e->txmsgn & 0xff); buf[2] = (unsigned char) ((e->txmsgn >> 8) ^ buf[0]); }   /* datagrams: message number in the payload */
    int ce0 = e->ssl && e->ssl->tls13ClientEarlyDataEnabled, se0 = e->ssl && e->ssl->tls13ServerEarlyDataEnabled;
    ep_call_begin(e);
    if (!e->ssl) { rc = -999; }
    else
    {
        rc = matrixSslEncodeToOutdata(e->ssl, buf, len);
    }
    e->lastrc = rc;
    if (rc >= 0 && !e->server && e->ssl && e->ssl->hsState != SSL_HS_DONE && !e->dtls)
    {
        e->etx = realloc(e->etx, e->etxn + len + 1);      /* TLS 1.3 early data */
        memcpy(e->etx + e->etxn, buf, len);
        e->etxn += len;
    }
    else if (rc >= 0)
    {
        e->tx = realloc(e->tx, e->txn + len + 1);
        memcpy(e->tx + e->txn, buf, len);
        e->txn += len;
        if (e->txmsgn < 1024) e->txmsg[e->txmsgn++] = e->txn;
    }
    if (e->autoflush) ep_flush(e, 0);
    emit_begin(&g_out, "send", e);
    sb_printf(&g_out, ",\"len\":%d,\"accepted\":%d,\"ce0\":%d,\"se0\":%d", len, rc >= 0, ce0, se0);
    emit_state(&g_out, e);
    emit_end(&g_out);
    free(buf);
}

static void cmd_close(char **tok)
{
    ep_t *e = ep_get(tok[1]);
    int rc;
    ep_call_begin(e);
    rc = e->ssl ? matrixSslEncodeClosureAlert(e->ssl) : -999;
    e->lastrc = rc;
    if (e->autoflush) ep_flush(e, 0);
    emit_begin(&g_out, "close", e);
    emit_state(&g_out, e);
    emit_end(&g_out);
}

static void cmd_del(char **tok)
{
    ep_t *e = ep_get(tok[1]);
    int i;
    if (e->ssl) matrixSslDeleteSession(e->ssl);
    e->ssl = NULL;
    for (i = 0; i < e->qn; i++) rec_free(&e->q[i]);
    for (i = 0; i < e->histn; i++) rec_free(&e->hist[i]);
    free(e->tx); free(e->etx); free(e->sub.s); free(e->dlv.s); free(e->alin.s); free(e->outrecs.s);
    if (e->peer && e->peer->peer == e) e->peer->peer = NULL;
    emit_begin(&g_out, "del", e);
    emit_end(&g_out);
    if (g_cur_cb_ep == e) g_cur_cb_ep = NULL;
    memset(e, 0, sizeof(*e));
}

static void emit_adv(const char *ev, ep_t *e, const char *fmt, ...)
{
    va_list ap;
    char tmp[512];
    va_start(ap, fmt);
    vsnprintf(tmp, sizeof(tmp), fmt, ap);
    va_end(ap);
    emit_begin(&g_out, ev, e);
    sb_printf(&g_out, "%s%s,\"qn\":%d,\"peer\":\"%s\"", tmp[0] ? "," : "", tmp, e->qn, e->peer ? e->peer->name : "-");
    emit_end(&g_out);
}

#include <setjmp.h>
static jmp_buf g_skip;
static int g_skip_armed = 0;
static void emit_adv(const char *ev, ep_t *e, const char *fmt, ...);

/* an adversary action that does not apply in this state (nothing queued, index out of range) is
   recorded as a no-op so that generated scripts need not know the exact shape of each flight */
static void skip_action(ep_t *e, const char *why)
{
    emit_adv("skip", e, "\"why\":\"%s\"", why);
    if (g_skip_armed) longjmp(g_skip, 1);
    die("inapplicable action: %s", why);
}

static int idx_arg(ep_t *e, const char *s)
{
    int i = atoi(s);
    if (i < 0) i += e->qn;
    if (i < 0 || i >= e->qn) skip_action(e, "index");
    return i;
}

static void cmd_adv(char **tok, int ntok)
{
    const char *c = tok[0];
    ep_t *e = ep_get(tok[1]);
    if (!strcmp(c, "drop"))
    {
        int i = idx_arg(e, tok[2]);
        rec_t r = q_remove(e, i);
        emit_adv("drop", e, "\"idx\":%d,\"rid\":%d,\"itype\":%d", i, r.id, r.itype);
        rec_free(&r);
    }
    else if (!strcmp(c, "dropall"))
    {
        int anyhs = 0;
        while (e->qn) { rec_t r = q_remove(e, 0); if (r.itype == 22) anyhs = 1; rec_free(&r); }
        emit_adv("dropall", e, "\"itype\":%d", anyhs ? 22 : 0);
    }
    else if (!strcmp(c, "dup"))
    {
        int i = idx_arg(e, tok[2]);
        rec_t r = rec_make(e->q[i].b, e->q[i].n, 4);
        r.itype = e->q[i].itype; r.imsg = e->q[i].imsg; r.wsec = e->q[i].wsec; r.kfp = e->q[i].kfp; memcpy(r.seq, e->q[i].seq, 8); r.alvl = e->q[i].alvl; r.adesc = e->q[i].adesc;
        q_insert(e, i + 1, r);
        emit_adv("dup", e, "\"idx\":%d", i);
    }
    else if (!strcmp(c, "swap"))
    {
        int i = idx_arg(e, tok[2]), j = idx_arg(e, tok[3]);
        rec_t t = e->q[i]; e->q[i] = e->q[j]; e->q[j] = t;
        emit_adv("swap", e, "\"idx\":%d,\"idx2\":%d,\"itype\":%d", i, j, (e->q[i].itype == 22 || e->q[j].itype == 22) ? 22 : e->q[i].itype);
    }
    else if (!strcmp(c, "mod"))
    {
        /* mod <ep> <idx> <off> <xor>   (off < 0: from the end) */
        int i = idx_arg(e, tok[2]), off = atoi(tok[3]);
        int x = (int) strtol(tok[4], NULL, 0);
        if (off < 0) off += e->q[i].n;
        if (off < 0 || off >= e->q[i].n) skip_action(e, "offset");
        e->q[i].b[off] ^= (unsigned char) x;
        e->q[i].origin = (off > 0 && off < rec_hdrlen(e)) ? 7 : 1;   /* 7: version/epoch/length field only */
        if (!e->q[i].wsec && e->q[i].n > rec_hdrlen(e))
        {
            /* unprotected record: what it now claims to be is what the receiver will see */
            e->q[i].itype = e->q[i].b[0];
            e->q[i].imsg = e->q[i].b[0] == 22 ? e->q[i].b[rec_hdrlen(e)] : -1;
            if (e->q[i].b[0] == 21 && e->q[i].n >= rec_hdrlen(e) + 2) { e->q[i].alvl = e->q[i].b[rec_hdrlen(e)]; e->q[i].adesc = e->q[i].b[rec_hdrlen(e) + 1]; }
        }
        emit_adv("mod", e, "\"idx\":%d,\"off\":%d,\"xor\":%d,\"rlen\":%d", i, off, x, e->q[i].n);
    }
    else if (!strcmp(c, "trunc"))
    {
        /* trunc <ep> <idx> <newlen> [fix=1] */
        int i = idx_arg(e, tok[2]), nl = atoi(tok[3]), hl = rec_hdrlen(e);
        if (nl < 0) nl += e->q[i].n;
        if (nl < 0 || nl > e->q[i].n) skip_action(e, "length");
        e->q[i].n = nl;
        e->q[i].origin = 1;
        if (opt_int(tok, ntok, "fix", 0) && nl >= hl)
        {
            e->q[i].b[hl - 2] = (nl - hl) >> 8; e->q[i].b[hl - 1] = (nl - hl) & 0xff;
        }
        emit_adv("trunc", e, "\"idx\":%d,\"rlen\":%d,\"itype\":%d", i, nl, e->q[i].itype);
    }
    else if (!strcmp(c, "cut"))
    {
        /* cut <ep> <idx> <off> <n> [fix=1]: n bytes at offset off (from the start of the record, header included) are
           removed - e.g. whole cipher blocks from the middle of a CBC record, so that its tail (MAC end and padding)
           follows an earlier block; logged as a truncation */
        int i = idx_arg(e, tok[2]), off = atoi(tok[3]), n = atoi(tok[4]), hl = rec_hdrlen(e), nl;
        if (off < hl || n <= 0 || off + n > e->q[i].n) skip_action(e, "length");
        memmove(e->q[i].b + off, e->q[i].b + off + n, e->q[i].n - off - n);
        nl = e->q[i].n - n;
        e->q[i].n = nl;
        e->q[i].origin = 1;
        if (opt_int(tok, ntok, "fix", 0)) { e->q[i].b[hl - 2] = (nl - hl) >> 8; e->q[i].b[hl - 1] = (nl - hl) & 0xff; }
        emit_adv("trunc", e, "\"idx\":%d,\"rlen\":%d,\"itype\":%d", i, nl, e->q[i].itype);
    }
    else if (!strcmp(c, "inject"))
    {
        /* inject <ep> <pos> <hex>  raw bytes appear in ep's stream toward its peer */
        unsigned char *b = malloc(strlen(tok[3]) / 2 + 1);
        int n = unhex(tok[3], b, (int) strlen(tok[3]) / 2 + 1);
        if (n < 0) die("bad hex");
        q_insert(e, atoi(tok[2]), rec_make(b, n, 2));
        free(b);
        emit_adv("inject", e, "\"rlen\":%d", n);
    }
    else if (!strcmp(c, "injectrec"))
    {
        /* injectrec <ep> <pos> <type> <bodylen> [body=<hex>] [vmaj=..] [vmin=..]: unprotected record */
        int type = atoi(tok[3]), bl = atoi(tok[4]), hl = rec_hdrlen(e), i;
        unsigned char *b = calloc(1, hl + bl + 1);
        const char *hx = opt_get(tok, ntok, "body");
        b[0] = (unsigned char) type;
        b[1] = (unsigned char) opt_int(tok, ntok, "vmaj", e->dtls ? 0xfe : 3);
        b[2] = (unsigned char) opt_int(tok, ntok, "vmin", e->dtls ? 0xfd : 3);
        if (e->dtls && e->peer && e->peer->ssl)
        {
            b[3] = e->peer->ssl->expectedEpoch[0]; b[4] = e->peer->ssl->expectedEpoch[1];
            memcpy(b + 5, e->peer->ssl->lastRsn, 6);
            for (i = 10; i >= 5; i--) { if (++b[i]) break; }
        }
        b[hl - 2] = bl >> 8; b[hl - 1] = bl & 0xff;
        for (i = 0; i < bl; i++) b[hl + i] = (unsigned char) (0x41 + (i % 26));
        if (hx)
        {
            int n = unhex(hx, b + hl, bl);
            if (n < 0) die("bad body hex");
        }
        {
            rec_t r = rec_make(b, hl + bl, 2);
            r.itype = type; r.imsg = (type == 22 && bl > 0) ? b[hl] : -1; r.wsec = 0;
            if (type == 21 && bl >= 2) { r.alvl = b[hl]; r.adesc = b[hl + 1]; }
            q_insert(e, atoi(tok[2]), r);
        }
        free(b);
        emit_adv("injectrec", e, "\"rtype\":%d,\"blen\":%d", type, bl);
    }
    else if (!strcmp(c, "forge"))
    {
        /* forge <ep> <pos> <type> <bodylen> [body=<hex>] [hs=<hstype>] [seqd=<n>]: record that verifies under
           the peer's current read keys, as a deviant <ep> holding the session keys would send */
        int type = atoi(tok[3]), bl = atoi(tok[4]), i, n;
        ep_t *to = e->peer;
        unsigned char *body = calloc(1, bl + 16), *out = malloc(bl + 512);
        const char *hx = opt_get(tok, ntok, "body");
        int hst = opt_int(tok, ntok, "hs", -1);
        if (!to || !to->ssl) skip_action(e, "nopeer");
        for (i = 0; i < bl; i++) body[i] = (unsigned char) (0x61 + (i % 26));
        if (hx && unhex(hx, body, bl) < 0) die("bad body hex");
        if (hst >= 0 && type == 22)
        {
            /* handshake message header + filler body of bl bytes total message */
            int ml;
            if (bl < (to->dtls ? 12 : 4)) { bl = (to->dtls ? 12 : 4) + 4; body = realloc(body, bl + 16); out = realloc(out, bl + 512); for (i = 0; i < bl; i++) body[i] = (unsigned char) (0x61 + (i % 26)); }
            ml = bl - (to->dtls ? 12 : 4);
            body[0] = (unsigned char) hst; body[1] = ml >> 16; body[2] = ml >> 8; body[3] = ml & 0xff;
            if (to->dtls)
            {
                int msn = to->ssl->lastMsn + 1;
                body[4] = msn >> 8; body[5] = msn & 0xff; body[6] = body[7] = body[8] = 0;
                body[9] = ml >> 16; body[10] = ml >> 8; body[11] = ml & 0xff;
            }
        }
        n = forge_record(to, type, body, bl, out, bl + 512, opt_int(tok, ntok, "seqd", 0));
        if (n < 0) die("forge failed");
        {
            rec_t r = rec_make(out, n, 3);
            r.itype = type; r.imsg = (type == 22 && bl > 0) ? body[0] : -1;
            if (type == 21 && bl >= 2) { r.alvl = body[0]; r.adesc = body[1]; }
            r.wsec = !!(to->ssl->flags & SSL_FLAGS_READ_SECURE);
            r.kfp = rkey_fp(to->ssl); memcpy(r.seq, to->ssl->sec.remSeq, 8);
            { int sd = opt_int(tok, ntok, "seqd", 0), k2; for (; sd > 0; sd--) for (k2 = 7; k2 >= 0; k2--) { if (++r.seq[k2]) break; } }
            q_insert(e, atoi(tok[2]), r);
        }
        free(body); free(out);
        emit_adv("forge", e, "\"rtype\":%d,\"hst\":\"%s\",\"blen\":%d", type, hst >= 0 ? hs_name(hst) : "-", bl);
    }
    else if (!strcmp(c, "replay"))
    {
        /* replay <ep> <pos> <histidx>: a copy of the histidx-th record ep ever emitted */
        int h = atoi(tok[3]);
        if (h < 0) h += e->histn;
        if (h < 0 || h >= e->histn) skip_action(e, "history");
        {
            rec_t r = rec_make(e->hist[h].b, e->hist[h].n, 4);
            r.itype = e->hist[h].itype; r.imsg = e->hist[h].imsg; r.wsec = e->hist[h].wsec; r.kfp = e->hist[h].kfp; memcpy(r.seq, e->hist[h].seq, 8); r.alvl = e->hist[h].alvl; r.adesc = e->hist[h].adesc;
            q_insert(e, atoi(tok[2]), r);
        }
        emit_adv("replay", e, "\"hidx\":%d,\"rtype\":%d", h, e->hist[h].b[0]);
    }
    else if (!strcmp(c, "reflect"))
    {
        /* reflect <ep> <histidx>: a record ep emitted is sent back to ep (queued at head of peer's queue) */
        int h = atoi(tok[2]);
        if (!e->peer) die("reflect: no peer");
        if (h < 0) h += e->histn;
        if (h < 0 || h >= e->histn) skip_action(e, "history");
        {
            rec_t r = rec_make(e->hist[h].b, e->hist[h].n, 5);
            r.itype = e->hist[h].itype; r.imsg = e->hist[h].imsg; r.wsec = e->hist[h].wsec; r.kfp = e->hist[h].kfp; memcpy(r.seq, e->hist[h].seq, 8); r.alvl = e->hist[h].alvl; r.adesc = e->hist[h].adesc;
            q_insert(e->peer, 0, r);
        }
        emit_adv("reflect", e, "\"hidx\":%d,\"rtype\":%d", h, e->hist[h].b[0]);
    }
    else
    {
        die("unknown adversary command %s", c);
    }
}

/* reframe: split/merge plaintext handshake records in ep's queue (only unprotected records) */
static void cmd_hsedit(char **tok, int ntok)
{
    /* hsedit <ep> del|dup|swap <k> [<k2>] : operate on the k-th plaintext handshake MESSAGE in the queue
       (records are re-framed one message per record) */
    ep_t *e = ep_get(tok[1]);
    int hl = rec_hdrlen(e), mh = e->dtls ? 12 : 4;
    rec_t msgs[64];
    int nm = 0, i, first = -1, last = -1;
    (void) ntok;
    /* collect leading run of plaintext handshake records */
    for (i = 0; i < e->qn; i++)
    {
        if (e->q[i].b[0] != 22 || e->q[i].wsec || e->q[i].origin != 0) break;
        if (first < 0) first = i;
        last = i;
    }
    if (first < 0) skip_action(e, "nohs");
    {
        /* concatenate bodies */
        unsigned char *cat = malloc(1 << 17), vmaj = e->q[first].b[1], vmin = e->q[first].b[2];
        int cn = 0, off = 0;
        unsigned char hdr[13];
        memcpy(hdr, e->q[first].b, hl);
        for (i = first; i <= last; i++) { memcpy(cat + cn, e->q[i].b + hl, e->q[i].n - hl); cn += e->q[i].n - hl; }
        for (i = last; i >= first; i--) { rec_t r = q_remove(e, i); rec_free(&r); }
        while (off + mh <= cn && nm < 64)
        {
            int ml = (cat[off + 1] << 16) | (cat[off + 2] << 8) | cat[off + 3];
            int fl = e->dtls ? ((cat[off + 9] << 16) | (cat[off + 10] << 8) | cat[off + 11]) : ml;
            unsigned char *rb;
            if (off + mh + fl > cn) break;   /* encrypted or partial: stop */
            rb = malloc(hl + mh + fl);
            memcpy(rb, hdr, hl);
            rb[1] = vmaj; rb[2] = vmin;
            rb[hl - 2] = (mh + fl) >> 8; rb[hl - 1] = (mh + fl) & 0xff;
            memcpy(rb + hl, cat + off, mh + fl);
            msgs[nm] = rec_make(rb, hl + mh + fl, 0);
            free(rb);
            nm++;
            off += mh + fl;
        }
        free(cat);
    }
    {
        const char *op = tok[2];
        int k = atoi(tok[3]);
        if (k < 0 || k >= nm || (!strcmp(op, "swap") && (atoi(tok[4]) < 0 || atoi(tok[4]) >= nm))) op = "split";
        if (!strcmp(op, "del")) { rec_free(&msgs[k]); memmove(&msgs[k], &msgs[k + 1], sizeof(rec_t) * (nm - k - 1)); nm--; }
        else if (!strcmp(op, "dup")) { memmove(&msgs[k + 1], &msgs[k], sizeof(rec_t) * (nm - k)); msgs[k + 1] = rec_make(msgs[k].b, msgs[k].n, 4); nm++; }
        else if (!strcmp(op, "swap")) { int k2 = atoi(tok[4]); rec_t t; if (k2 < 0 || k2 >= nm) die("hsedit swap"); t = msgs[k]; msgs[k] = msgs[k2]; msgs[k2] = t; }
        else if (!strcmp(op, "split")) { /* just re-frame */ }
        else die("hsedit: unknown op");
        for (i = 0; i < nm; i++)
        {
            /* message bytes are the sender's own; only record framing / order / multiplicity changed */
            if (msgs[i].origin != 4) msgs[i].origin = 6;
            msgs[i].itype = 22; msgs[i].imsg = msgs[i].b[hl]; msgs[i].wsec = 0;
            q_insert(e, first + i, msgs[i]);
        }
        emit_adv("hsedit", e, "\"op\":\"%s\",\"k\":%d,\"nm\":%d,\"itype\":22", op, k, nm);
    }
}

static uint32_t fp_bytes(const unsigned char *p, int n)
{
    return fnv(2166136261u, p, n);
}

static void cmd_state(char **tok)
{
    ep_t *e = ep_get(tok[1]);
    ep_call_begin(e);
    e->lastrc = 0;
    emit_begin(&g_out, "state", e);
    emit_state(&g_out, e);
    if (e->ssl)
    {
        ssl_t *s = e->ssl;
        int i, sidx = -1;
        const char *rmode = "none";
        sb_printf(&g_out, ",\"suite\":%d,\"ms\":\"", s->cipher ? s->cipher->ident : 0);
        for (i = 0; i < 8; i++) sb_printf(&g_out, "%02x", s->sec.masterSecret[i]);
        sb_printf(&g_out, "\"");
        /* session identity (C14) */
        if (s->sessionIdLen >= 4) sidx = s->sessionId[0] | (s->sessionId[1] << 8) | (s->sessionId[2] << 16) | ((s->sessionId[3] & 0x3f) << 24);
#ifdef USE_STATELESS_SESSION_TICKETS
        if (e->server && s->sid && s->sid->sessionTicketState == SESS_TICKET_STATE_USING_TICKET) rmode = "ticket";
        else
#endif
        if (matrixSslIsResumedSession(s)) rmode = USING_TLS_1_3(s) ? "psk" : "id";
        sb_printf(&g_out, ",\"msfp\":\"%08x\",\"sidlen\":%d,\"sidx\":%d,\"sidh\":\"%08x\",\"ems\":%d,\"rmode\":\"%s\"",
            USING_TLS_1_3(s) ? fp_bytes(s->sec.tls13ResumptionMasterSecret, 32) : fp_bytes(s->sec.masterSecret, SSL_HS_MASTER_SIZE),
            (int) s->sessionIdLen, sidx, fp_bytes(s->sessionId, s->sessionIdLen), (int) s->extFlags.extended_master_secret, rmode);
        if (e->server && USING_TLS_1_3(s) && s->sec.tls13UsingPsk && s->sec.tls13ChosenPsk && s->sec.tls13ChosenPsk->pskKey)
        {
            sb_printf(&g_out, ",\"cpsk\":\"%08x\",\"cpskres\":%d", fp_bytes(s->sec.tls13ChosenPsk->pskKey, s->sec.tls13ChosenPsk->pskLen),
                s->sec.tls13ChosenPsk->isResumptionPsk ? 1 : 0);
        }
        else sb_printf(&g_out, ",\"cpsk\":\"-\",\"cpskres\":0");
    }
    if (e->ssl)
    {
        sb_printf(&g_out, ",\"grp\":%d,\"sig13\":%d", USING_TLS_1_3(e->ssl) ? (int) e->ssl->tls13NegotiatedGroup : 0, (int) e->ssl->sec.tls13CvSigAlg);
    }
    sb_printf(&g_out, ",\"outd\":\"%08x\",\"outn\":%ld,\"dlvd\":\"%08x\",\"dlvn\":%ld", e->outd, e->outn, e->dlvd, e->dlvn);
    sb_printf(&g_out, ",\"peer\":\"%s\"", e->peer ? e->peer->name : "-");
    emit_end(&g_out);
}

static sidslot_t *sid_find(const char *name)
{
    int k;
    for (k = 0; k < MAXSID; k++) if (g_sids[k].used && !strcmp(g_sids[k].name, name)) return &g_sids[k];
    return NULL;
}

/* sid <name>: what a client-side resumption handle holds (C14) */
static void emit_sid(const char *ev, sidslot_t *sl)
{
    sslSessionId_t *sid = sl->sid;
    int sidx = -1, tk = -1, n = 0;
    psTls13Psk_t *p;
    if (sid->idLen >= 4) sidx = sid->id[0] | (sid->id[1] << 8) | (sid->id[2] << 16) | ((sid->id[3] & 0x3f) << 24);
    emit_begin(&g_out, ev, NULL);
    sb_printf(&g_out, ",\"name\":\"%s\",\"idlen\":%d,\"idx\":%d,\"idh\":\"%08x\",\"msfp\":\"%08x\",\"cipher\":%d",
        sl->name, (int) sid->idLen, sidx, fp_bytes(sid->id, sid->idLen), fp_bytes(sid->masterSecret, SSL_HS_MASTER_SIZE), (int) sid->cipherId);
#ifdef USE_STATELESS_SESSION_TICKETS
    if (sid->sessionTicket && sid->sessionTicketLen >= 16) tk = ((int) sid->sessionTicket[0] - 0xA0) / 7;
    sb_printf(&g_out, ",\"ticklen\":%d,\"tkey\":%d,\"tickh\":\"%08x\",\"tstate\":%d", (int) sid->sessionTicketLen, tk,
        sid->sessionTicket ? fp_bytes(sid->sessionTicket, sid->sessionTicketLen) : 0, (int) sid->sessionTicketState);
#endif
    sb_printf(&g_out, ",\"psks\":[");
    for (p = sid->psk; p; p = p->next)
    {
        sb_printf(&g_out, "%s{\"idh\":\"%08x\",\"idlen\":%d,\"keyh\":\"%08x\",\"res\":%d,\"tkey\":%d}", n++ ? "," : "",
            fp_bytes(p->pskId, p->pskIdLen), (int) p->pskIdLen, fp_bytes(p->pskKey, p->pskLen), p->isResumptionPsk ? 1 : 0,
            p->pskIdLen >= 16 ? ((int) p->pskId[0] - 0xA0) / 7 : -1);
    }
    sb_printf(&g_out, "]");
    emit_end(&g_out);
}

static void cmd_sid(char **tok, int ntok)
{
    sidslot_t *sl = sid_find(tok[1]);
    (void) ntok;
    if (!sl) { emit_begin(&g_out, "skip", NULL); sb_printf(&g_out, ",\"why\":\"no such sid\""); emit_end(&g_out); return; }
    emit_sid("sid", sl);
}

/* sidedit <name> idlen=<n> | idxor=<off>,<v> | msxor=<off>,<v> | tickxor=<off>,<v> | ticklen=<n> | pskxor=<off>,<v> | pskidxor=<off>,<v>
   (negative offsets count from the end); sidcopy <dst> <src> hands one client's handle to another */
static int edit_arg(const char *v, int *off, int *val)
{
    const char *c = strchr(v, ',');
    *off = atoi(v); *val = c ? (int) strtol(c + 1, NULL, 0) : 1;
    return 0;
}
static void cmd_sidedit(char **tok, int ntok)
{
    sidslot_t *sl = sid_find(tok[1]);
    sslSessionId_t *sid;
    const char *v;
    int off, val, done = 0;
    if (!sl) { emit_begin(&g_out, "skip", NULL); sb_printf(&g_out, ",\"why\":\"no such sid\""); emit_end(&g_out); return; }
    sid = sl->sid;
    if ((v = opt_get(tok, ntok, "idlen"))) { int n = atoi(v); if (n >= 0 && n <= SSL_MAX_SESSION_ID_SIZE && sid->idLen > 0) { sid->idLen = (psSize_t) n; done = 1; } }
    if ((v = opt_get(tok, ntok, "idfrom")))
    {   /* the session id of another handle (e.g. learnt from the wire) next to this handle's own secret / ticket */
        sidslot_t *o = sid_find(v);
        if (o && o->sid->idLen > 0) { memcpy(sid->id, o->sid->id, o->sid->idLen); sid->idLen = o->sid->idLen; done = 1; }
    }
    if ((v = opt_get(tok, ntok, "idep")))
    {   /* the session id a live server endpoint has assigned (it travels in the clear in its ServerHello) */
        ep_t *o = ep_get(v);
        if (o->ssl && o->ssl->sessionIdLen > 0) { memcpy(sid->id, o->ssl->sessionId, o->ssl->sessionIdLen); sid->idLen = o->ssl->sessionIdLen; done = 1; }
    }
    if ((v = opt_get(tok, ntok, "msep")))
    {   /* the master secret a live endpoint currently holds (a client knows the one it has just agreed on) */
        ep_t *o = ep_get(v);
        if (o->ssl) { memcpy(sid->masterSecret, o->ssl->sec.masterSecret, SSL_HS_MASTER_SIZE); done = 1; }
    }
    if ((v = opt_get(tok, ntok, "mszero")) && atoi(v)) { memset(sid->masterSecret, 0, SSL_HS_MASTER_SIZE); done = 1; }
    if ((v = opt_get(tok, ntok, "idxor"))) { edit_arg(v, &off, &val); if (off < 0) off += sid->idLen; if (off >= 0 && off < (int) sid->idLen) { sid->id[off] ^= (unsigned char) val; done = 1; } }
    if ((v = opt_get(tok, ntok, "msxor"))) { edit_arg(v, &off, &val); if (off >= 0 && off < SSL_HS_MASTER_SIZE) { sid->masterSecret[off] ^= (unsigned char) val; done = 1; } }
#ifdef USE_STATELESS_SESSION_TICKETS
    if ((v = opt_get(tok, ntok, "tickxor"))) { edit_arg(v, &off, &val); if (off < 0) off += sid->sessionTicketLen; if (sid->sessionTicket && off >= 0 && off < (int) sid->sessionTicketLen) { sid->sessionTicket[off] ^= (unsigned char) val; done = 1; } }
    if ((v = opt_get(tok, ntok, "ticklen"))) { int n = atoi(v); if (sid->sessionTicket && n >= 0 && n <= (int) sid->sessionTicketLen) { sid->sessionTicketLen = (psSize_t) n; done = 1; if (n == 0) { psFree(sid->sessionTicket, sid->pool); sid->sessionTicket = NULL; } } }
#endif
    if ((v = opt_get(tok, ntok, "pskxor"))) { edit_arg(v, &off, &val); if (sid->psk && off >= 0 && off < (int) sid->psk->pskLen) { sid->psk->pskKey[off] ^= (unsigned char) val; done = 1; } }
    if ((v = opt_get(tok, ntok, "pskidxor"))) { edit_arg(v, &off, &val); if (sid->psk) { if (off < 0) off += sid->psk->pskIdLen; if (off >= 0 && off < (int) sid->psk->pskIdLen) { sid->psk->pskId[off] ^= (unsigned char) val; done = 1; } } }
    if (!done) { emit_begin(&g_out, "skip", NULL); sb_printf(&g_out, ",\"why\":\"sidedit not applicable\""); emit_end(&g_out); return; }
    emit_sid("sidedit", sl);
}

static int parse_cert_file(const char *path, psX509Cert_t **chain)
{
    FILE *f = fopen(path, "rb");
    unsigned char *buf;
    long n;
    int rc;
    if (!f) die("cannot open %s", path);
    fseek(f, 0, SEEK_END); n = ftell(f); fseek(f, 0, SEEK_SET);
    buf = malloc(n + 1);
    if (fread(buf, 1, n, f) != (size_t) n) die("read %s", path);
    fclose(f);
    rc = psX509ParseCertData(NULL, buf, n, chain, 0);     /* appends to *chain */
    free(buf);
    return rc;
}

/* validate chain=<pem>[,<pem>..] ca=<pem>[,<pem>..] [name=<expected>] [ntype=host|cn|dns|email|ip] [tag=<id>] [depth=<n>]
   runs the library's certificate path validation on files; reports the verdict and per-certificate status */
static void cmd_validate(char **tok, int ntok)
{
    psX509Cert_t *chain = NULL, *cas = NULL, *found = NULL, *c;
    const char *v;
    char tmp[2048], *parts[16];
    int n, k, prc = 0, rc = -999, caskip = 0, caok[16], ncaf = 0;
    matrixValidateCertsOptions_t vo;
    memset(&vo, 0, sizeof(vo));
    g_cur_cb_ep = NULL;
    if ((v = opt_get(tok, ntok, "chain")))
    {
        snprintf(tmp, sizeof(tmp), "%s", v);
        n = split_csv(tmp, parts, 16);
        for (k = 0; k < n && prc >= 0; k++) prc = parse_cert_file(parts[k], &chain);
    }
    if (prc >= 0 && (v = opt_get(tok, ntok, "ca")) && *v)
    {
        snprintf(tmp, sizeof(tmp), "%s", v);
        n = split_csv(tmp, parts, 16);
        /* a trust anchor the library refuses to load is simply not a trust anchor */
        for (k = 0; k < n && k < 16; k++) { caok[k] = parse_cert_file(parts[k], &cas) >= 0; if (!caok[k]) caskip++; }
        ncaf = n < 16 ? n : 16;
    }
    vo.nameType = parse_ntype(opt_get(tok, ntok, "ntype"), NAME_TYPE_HOSTNAME);
    vo.mFlags = (uint32_t) opt_int(tok, ntok, "mflags", 0);
    vo.flags = (uint64_t) opt_int(tok, ntok, "vflags", 0);
    vo.max_verify_depth = opt_int(tok, ntok, "depth", 0);
    if (prc >= 0 && chain)
    {
        char nmbuf[512];
        char *nm = unescape_name(opt_get(tok, ntok, "name"), nmbuf, sizeof(nmbuf));
        rc = matrixValidateCertsExt(NULL, chain, cas, nm, &found, NULL, NULL, &vo);
    }
    emit_begin(&g_out, "validate", NULL);
    sb_printf(&g_out, ",\"tag\":\"%s\",\"prc\":%d,\"rcn\":%d,\"st\":[", opt_get(tok, ntok, "tag") ? opt_get(tok, ntok, "tag") : "", prc < 0 ? prc : 0, rc);
    for (c = chain, k = 0; c; c = c->next, k++) sb_printf(&g_out, "%s%d", k ? "," : "", c->authStatus);
    sb_printf(&g_out, "],\"fl\":[");
    for (c = chain, k = 0; c; c = c->next, k++) sb_printf(&g_out, "%s%d", k ? "," : "", (int) c->authFailFlags);
    sb_printf(&g_out, "],\"rs\":[");
#ifdef USE_CRL
    for (c = chain, k = 0; c; c = c->next, k++) sb_printf(&g_out, "%s%d", k ? "," : "", (int) c->revokedStatus);
#endif
    sb_printf(&g_out, "],\"found\":%d,\"caskip\":%d,\"caok\":[", found ? 1 : 0, caskip);
    for (k = 0; k < ncaf; k++) sb_printf(&g_out, "%s%d", k ? "," : "", caok[k]);
    sb_printf(&g_out, "]");
    emit_end(&g_out);
    if (chain) psX509FreeCert(chain);
    if (cas) psX509FreeCert(cas);
}

#ifdef USE_CRL
/* crl file=<der> [ca=<pem>] [tag=<id>]: what an application does with a CRL it fetched: parse it, authenticate it against
   the CA certificate it trusts (without ca=: left unauthenticated) and put it into the library's CRL cache, replacing an
   older CRL of the same issuer.   crlclear: empty the cache. */
static void cmd_crl(char **tok, int ntok)
{
    const char *fn = opt_get(tok, ntok, "file"), *ca = opt_get(tok, ntok, "ca");
    unsigned char *buf = NULL; long n = 0; FILE *f;
    psX509Crl_t *crl = NULL; psX509Cert_t *cac = NULL;
    int32 prc = -999, arc = -999, urc = -999, authd = -1, nrev = 0;
    if (fn && (f = fopen(fn, "rb")))
    {
        fseek(f, 0, SEEK_END); n = ftell(f); fseek(f, 0, SEEK_SET);
        buf = malloc(n > 0 ? n : 1);
        if (buf && fread(buf, 1, n, f) != (size_t) n) n = 0;
        fclose(f);
    }
    if (buf && n > 0) prc = psX509ParseCRL(NULL, &crl, buf, (int32) n);
    if (prc >= 0 && crl)
    {
        x509revoked_t *r;
        if (ca && parse_cert_file(ca, &cac) >= 0 && cac) arc = psX509AuthenticateCRL(cac, crl, NULL);
        authd = crl->authenticated ? 1 : 0;
        for (r = crl->revoked; r; r = r->next) nrev++;
        urc = psCRL_Update(crl, 1);
        if (urc == 0) psX509FreeCRL(crl);       /* not taken */
    }
    emit_begin(&g_out, "crl", NULL);
    sb_printf(&g_out, ",\"tag\":\"%s\",\"prc\":%d,\"arc\":%d,\"urc\":%d,\"authd\":%d,\"nrev\":%d", opt_get(tok, ntok, "tag") ? opt_get(tok, ntok, "tag") : "", prc, arc, urc, authd, nrev);
    emit_end(&g_out);
    if (cac) psX509FreeCert(cac);
    free(buf);
}
#endif

static void run_line(char *line)
{
    char *tok[64];
    int ntok = 0;
    char *p = strtok(line, " \t\r\n");
    while (p && ntok < 64) { tok[ntok++] = p; p = strtok(NULL, " \t\r\n"); }
    if (ntok == 0 || tok[0][0] == '#') return;
    if (!strcmp(tok[0], "seed")) { g_rng = strtoull(tok[1], NULL, 0) * 0x9e3779b97f4a7c15ULL + 0x1234567ULL; if (!g_rng) g_rng = 1; }
    else if (!strcmp(tok[0], "clock")) { if (tok[1][0] == '+') g_now += atol(tok[1] + 1); else g_now = atol(tok[1]); emit_begin(&g_out, "clock", NULL); sb_printf(&g_out, ",\"now\":%ld", g_now); emit_end(&g_out); }
    else if (!strcmp(tok[0], "keys")) cmd_keys(tok, ntok);
    else if (!strcmp(tok[0], "new")) cmd_new(tok, ntok);
    else if (!strcmp(tok[0], "link")) cmd_link(tok);
    else if (!strcmp(tok[0], "flush")) do_flush_event(ep_get(tok[1]), ntok > 2 ? atoi(tok[2]) : 0);
    else if (!strcmp(tok[0], "deliver")) do_deliver(ep_get(tok[1]), ntok > 2 ? atoi(tok[2]) : 1, opt_int(tok, ntok, "chunk", 0));
    else if (!strcmp(tok[0], "pump"))
    {
        ep_t *a = ep_get(tok[1]), *b = ep_get(tok[2]);
        const char *u = opt_get(tok, ntok, "until");
        ep_t *se = NULL; int sh = -1;
        if (u)
        {
            char tmp[64]; char *c;
            snprintf(tmp, sizeof(tmp), "%s", u);
            c = strchr(tmp, ':');
            if (!c) die("until=<ep>:<HS>");
            *c = 0;
            se = ep_get(tmp); sh = hs_by_name(c + 1);
            if (sh < 0) die("unknown hs state %s", c + 1);
        }
        do_pump(a, b, opt_int(tok, ntok, "max", 200), se, sh, opt_int(tok, ntok, "done", 0));
    }
    else if (!strcmp(tok[0], "timeout"))
    {
        ep_t *e = ep_get(tok[1]);
        ep_call_begin(e);
        ep_flush_ex(e, 0, 1);
        emit_begin(&g_out, "timeout", e);
        emit_state(&g_out, e);
        emit_end(&g_out);
    }
    else if (!strcmp(tok[0], "send")) cmd_send(tok, ntok);
    else if (!strcmp(tok[0], "close")) cmd_close(tok);
    else if (!strcmp(tok[0], "del")) cmd_del(tok);
    else if (!strcmp(tok[0], "state")) cmd_state(tok);
    else if (!strcmp(tok[0], "delkeys"))
    {
        /* delkeys <K>: the application is done with a key set */
        int i;
        for (i = 0; i < MAXKEYS; i++)
            if (g_keys[i].used && !strcmp(g_keys[i].name, tok[1])) { if (g_keys[i].keys) matrixSslDeleteKeys(g_keys[i].keys); g_keys[i].keys = NULL; g_keys[i].used = 0; }
    }
#ifdef USE_CRL
    else if (!strcmp(tok[0], "crl")) cmd_crl(tok, ntok);
    else if (!strcmp(tok[0], "crlclear")) { psCRL_DeleteAll(); emit_begin(&g_out, "crlclear", NULL); emit_end(&g_out); }
#endif
    else if (!strcmp(tok[0], "pad"))
    {
        /* pad <ep> <blocksize>: switch block padding of outgoing TLS 1.3 records on for a live session */
        ep_t *e = ep_get(tok[1]);
        int32 rc = e->ssl ? matrixSslSetTls13BlockPadding(e->ssl, (psSizeL_t) atoi(tok[2])) : -999;
        emit_begin(&g_out, "pad", e); sb_printf(&g_out, ",\"rcn\":%d,\"block\":%d", rc, atoi(tok[2])); emit_end(&g_out);
    }
    else if (!strcmp(tok[0], "sid")) cmd_sid(tok, ntok);
    else if (!strcmp(tok[0], "sidedit")) cmd_sidedit(tok, ntok);
    else if (!strcmp(tok[0], "tickkey"))
    {
        /* tickkey <K> add|del <n> : the server's ticket key list (the first key seals new tickets) */
        keyset_t *ks = keys_get(tok[1]);
        unsigned char name[16], sym[32], mac[32];
        int32 rc;
        if (ntok < 4) die("tickkey <K> add|del <n>");
        ticket_key_material(atoi(tok[3]), name, sym, mac);
        if (ks->keys == NULL) rc = PS_ARG_FAIL;
        else if (!strcmp(tok[2], "add")) rc = matrixSslLoadSessionTicketKeys(ks->keys, name, sym, 32, mac, 32);
        else rc = matrixSslDeleteSessionTicketKey(ks->keys, name);
        emit_begin(&g_out, "tickkey", NULL);
        sb_printf(&g_out, ",\"name\":\"%s\",\"op\":\"%s\",\"k\":%d,\"rcn\":%d", ks->name, tok[2], atoi(tok[3]), rc);
        emit_end(&g_out);
    }
    else if (!strcmp(tok[0], "autoflush")) ep_get(tok[1])->autoflush = atoi(tok[2]);
    else if (!strcmp(tok[0], "validate")) cmd_validate(tok, ntok);
    else if (!strcmp(tok[0], "hsedit"))
    {
        g_skip_armed = 1;
        if (setjmp(g_skip) == 0) cmd_hsedit(tok, ntok);
        g_skip_armed = 0;
    }
    else if (!strcmp(tok[0], "tamper"))
    {
        /* tamper <ep> <hsmsg> flip <off> <xor> | alg <hex> | save <slot> | subst <slot> */
        ep_t *e = ep_get(tok[1]);
        if (ntok < 4) die("tamper <ep> <hsmsg> <mode> ...");
        e->tam_msg = atoi(tok[2]); e->tam_done = 0;
        if (!strcmp(tok[3], "flip")) { e->tam_mode = 1; e->tam_off = ntok > 4 ? atoi(tok[4]) : -1; e->tam_val = ntok > 5 ? (int) strtol(tok[5], NULL, 0) : 1; }
        else if (!strcmp(tok[3], "alg")) { e->tam_mode = 2; e->tam_val = ntok > 4 ? (int) strtol(tok[4], NULL, 0) : 0x0201; }
        else if (!strcmp(tok[3], "save")) { e->tam_mode = 3; e->tam_slot = ntok > 4 ? atoi(tok[4]) : 0; }
        else if (!strcmp(tok[3], "subst")) { e->tam_mode = 4; e->tam_slot = ntok > 4 ? atoi(tok[4]) : 0; }
        else die("unknown tamper mode %s", tok[3]);
        emit_begin(&g_out, "tamper", e);
        sb_printf(&g_out, ",\"msg\":%d,\"mode\":%d", e->tam_msg, e->tam_mode);
        emit_end(&g_out);
    }
    else if (!strcmp(tok[0], "failat"))
    {
        /* failat <k>: the k-th allocation of the library from now on fails (once); k < 0: count only */
        g_alloc_n = 0; g_fail_hits = 0; g_fail_at = atol(tok[1]);
        emit_begin(&g_out, "failat", NULL); sb_printf(&g_out, ",\"k\":%ld", g_fail_at); emit_end(&g_out);
    }
    else if (!strcmp(tok[0], "failoff"))
    {
        emit_begin(&g_out, "failoff", NULL); sb_printf(&g_out, ",\"allocs\":%ld,\"hits\":%ld,\"k\":%ld", g_alloc_n, g_fail_hits, g_fail_at); emit_end(&g_out);
        g_fail_at = -1;
    }
    else if (!strcmp(tok[0], "cpump"))
    {
        /* cpump <a> <b> [chunk=k] [sendmax=m] [max=steps]: the same traffic as pump, but each endpoint's output is
           drained by partial sends of at most m bytes and everything in flight is handed to the receiver in one
           go, split into receive calls of k bytes (0: all at once) - TLS only */
        ep_t *pa = ep_get(tok[1]), *pb = ep_get(tok[2]);
        int chunk = opt_int(tok, ntok, "chunk", 0), sendmax = opt_int(tok, ntok, "sendmax", 0), maxsteps = opt_int(tok, ntok, "max", 200);
        if (opt_get(tok, ntok, "cseed")) g_chunk_rng = 88172645463325252ULL + (unsigned long long) opt_int(tok, ntok, "cseed", 0) * 1000003ULL;
        int steps = 0, progress = 1;
        ep_t *pair[2];
        pair[0] = pa; pair[1] = pb;
        while (progress && steps < maxsteps)
        {
            int k;
            progress = 0;
            for (k = 0; k < 2; k++)
            {
                ep_t *e = pair[k];
                int guard = 0;
                while (e->ssl && e->ssl->outlen > 0 && guard++ < 100000) { ep_call_begin(e); ep_flush(e, sendmax); progress = 1; }
                if (e->qn > 0) { do_deliver(e, e->qn, chunk); steps++; progress = 1; }
            }
        }
    }
    else if (!strcmp(tok[0], "heal"))
    {
        /* heal <a> <b> [rounds=6]: the network stops losing datagrams; as an application would, each endpoint whose
           handshake is not complete fires its retransmission timer when nothing arrives */
        ep_t *a = ep_get(tok[1]), *b = ep_get(tok[2]);
        int rounds = opt_int(tok, ntok, "rounds", 6), k;
        char cmd[96];
        for (k = 0; k < rounds; k++)
        {
            int adone = a->ssl && (a->ssl->bFlags & BFLAG_HS_COMPLETE) && a->ssl->hsState == SSL_HS_DONE;
            int bdone = b->ssl && (b->ssl->bFlags & BFLAG_HS_COMPLETE) && b->ssl->hsState == SSL_HS_DONE;
            snprintf(cmd, sizeof(cmd), "pump %s %s max=400", a->name, b->name); run_line(cmd);
            adone = a->ssl && (a->ssl->bFlags & BFLAG_HS_COMPLETE) && a->ssl->hsState == SSL_HS_DONE;
            bdone = b->ssl && (b->ssl->bFlags & BFLAG_HS_COMPLETE) && b->ssl->hsState == SSL_HS_DONE;
            if ((adone && bdone) || ep_dead(a) || ep_dead(b)) break;
            if (!adone && a->histn > 0) { snprintf(cmd, sizeof(cmd), "timeout %s", a->name); run_line(cmd); }
            if (!bdone && b->histn > 0) { snprintf(cmd, sizeof(cmd), "timeout %s", b->name); run_line(cmd); }
        }
    }
    else if (!strcmp(tok[0], "pmtu"))
    {
        int32 rc = matrixDtlsSetPmtu(atoi(tok[1]));
        emit_begin(&g_out, "pmtu", NULL); sb_printf(&g_out, ",\"pmtu\":%d,\"rcn\":%d", atoi(tok[1]), rc); emit_end(&g_out);
    }
    else if (!strcmp(tok[0], "sched"))
    {
        /* sched <a> <b> <decisions> : a datagram schedule.  Endpoints take turns; the decision letter is applied
           to the head of the sender's queue: d deliver, x drop, u duplicate (the copy stays queued), s swap with
           the next one then deliver, l delay (move to the end of the queue).  When nothing is in flight and
           letters remain, both retransmission timers fire (at most 8 times). */
        ep_t *a = ep_get(tok[1]), *b = ep_get(tok[2]);
        const char *str = ntok > 3 ? tok[3] : "";
        int i = 0, n = (int) strlen(str), iter, timeouts = 0, turn = 0;
        char cmd[96];
        for (iter = 0; iter < 600; iter++)
        {
            ep_t *src;
            char dec;
            snprintf(cmd, sizeof(cmd), "flush %s", a->name); run_line(cmd);
            snprintf(cmd, sizeof(cmd), "flush %s", b->name); run_line(cmd);
            src = turn ? b : a;
            if (src->qn == 0) src = turn ? a : b;
            if (src->qn == 0)
            {
                if (i >= n || timeouts >= 8 || ep_dead(a) || ep_dead(b)) break;
                timeouts++;
                /* a retransmission timer runs only once a flight has been sent (RFC 6347 4.2.4) */
                if (a->histn > 0) { snprintf(cmd, sizeof(cmd), "timeout %s", a->name); run_line(cmd); }
                if (b->histn > 0) { snprintf(cmd, sizeof(cmd), "timeout %s", b->name); run_line(cmd); }
                continue;
            }
            if (i >= n) break;
            dec = str[i++];
            if (dec == 'x') snprintf(cmd, sizeof(cmd), "drop %s 0", src->name);
            else if (dec == 'u') { snprintf(cmd, sizeof(cmd), "dup %s 0", src->name); run_line(cmd); snprintf(cmd, sizeof(cmd), "deliver %s 1", src->name); }
            else if (dec == 's' && src->qn >= 2) { snprintf(cmd, sizeof(cmd), "swap %s 0 1", src->name); run_line(cmd); snprintf(cmd, sizeof(cmd), "deliver %s 1", src->name); }
            else if (dec == 'l' && src->qn >= 2) { rec_t r = q_remove(src, 0); q_insert(src, src->qn, r); emit_adv("delay", src, "\"itype\":%d", r.itype); cmd[0] = 0; }
            else snprintf(cmd, sizeof(cmd), "deliver %s 1", src->name);
            if (cmd[0]) run_line(cmd);
            turn = !turn;
        }
    }
    else if (!strcmp(tok[0], "mark")) { emit_begin(&g_out, "mark", NULL); sb_printf(&g_out, ",\"tag\":\"%s\"", ntok > 1 ? tok[1] : ""); emit_end(&g_out); }
    else if (!strcmp(tok[0], "reset"))
    {
        int i;
        for (i = 0; i < MAXEP; i++) { if (g_eps[i].used) { char *t[2]; t[0] = "del"; t[1] = g_eps[i].name; cmd_del(t); } }
        for (i = 0; i < MAXSID; i++) { if (g_sids[i].used) { matrixSslDeleteSessionId(g_sids[i].sid); g_sids[i].used = 0; } }
        for (i = 0; i < MAXKEYS; i++) { if (g_keys[i].used) { if (g_keys[i].keys) matrixSslDeleteKeys(g_keys[i].keys); g_keys[i].used = 0; } }
#ifdef USE_CRL
        psCRL_DeleteAll();      /* the CRL cache is process-wide */
#endif
        matrixSslClose();
        memset(g_slotn, 0, sizeof(g_slotn));
        matrixDtlsSetPmtu(-1);
        g_now = 1790000000L; g_usec = 0; g_rng = 0x9e3779b97f4a7c15ULL;
        if (matrixSslOpen() < 0) die("matrixSslOpen failed");
        emit_begin(&g_out, "Reset", NULL);
        sb_printf(&g_out, ",\"tag\":\"%s\"", ntok > 1 ? tok[1] : "");
        {
            int leak = 0;
#if defined(__SANITIZE_ADDRESS__)
            if (g_leakcheck) leak = __lsan_do_recoverable_leak_check();
#endif
            if (leak) g_leak_seen = 1;
            sb_printf(&g_out, ",\"leak\":%d,\"allocs\":%ld,\"hits\":%ld", leak, g_alloc_n, g_fail_hits);
            if (g_nsite)
            {
                int si;
                sb_printf(&g_out, ",\"sites\":[");
                for (si = 0; si < g_nsite; si++) sb_printf(&g_out, "%s[%ld,%ld,%ld]", si ? "," : "", g_site[si].first, g_site[si].last, g_site[si].count);
                sb_printf(&g_out, "]");
                g_nsite = 0;
            }
            g_fail_at = -1;
        }
        emit_end(&g_out);
        fflush(g_trace);        /* a later crash must not lose the episodes that ended well */
    }
    else
    {
        g_skip_armed = 1;
        if (setjmp(g_skip) == 0) cmd_adv(tok, ntok);
        g_skip_armed = 0;
    }
}

int main(int argc, char **argv)
{
    FILE *in = stdin;
    char *line = NULL;
    size_t cap = 0;
    int i;

    g_trace = stdout;
    for (i = 1; i < argc; i++)
    {
        if (!strcmp(argv[i], "-s") && i + 1 < argc) { in = fopen(argv[++i], "r"); if (!in) { perror("script"); return 2; } }
        else if (!strcmp(argv[i], "-t") && i + 1 < argc) { g_trace = fopen(argv[++i], "w"); if (!g_trace) { perror("trace"); return 2; } }
        else if (!strcmp(argv[i], "-v")) g_verbose = 1;
        else if (!strcmp(argv[i], "-l")) g_leakcheck = 1;
        else if (!strcmp(argv[i], "-F")) g_forkmode = 1;
        else if (!strcmp(argv[i], "-T") && i + 1 < argc) { g_eptimeout = atoi(argv[++i]); g_watchdog = 1; }
    }
    if (g_watchdog && !g_forkmode) signal(SIGALRM, on_watchdog);
    if (matrixSslOpen() < 0) { fprintf(stderr, "matrixSslOpen failed\n"); return 2; }
    matrixVerifHook = verif_hook;
    if (g_forkmode)
    {
        /* whole lines only reach the file, also when a child dies in the middle of an episode */
        static char tbuf[1 << 20];
        setvbuf(g_trace, tbuf, _IOLBF, sizeof(tbuf));
        /* -F: every episode (the lines up to and including a "reset") runs in a child process, so that a crash,
           a sanitizer report or a hang ends that episode only; the parent records it as a Crash line */
        char **L = NULL; size_t nL = 0, capL = 0, a = 0, k;
        int epno = 0;
        const char *tpath = NULL;
        for (i = 1; i < argc; i++) if (!strcmp(argv[i], "-t") && i + 1 < argc) tpath = argv[i + 1];
        while (getline(&line, &cap, in) >= 0)
        {
            if (nL == capL) { capL = capL ? capL * 2 : 1024; L = realloc(L, capL * sizeof(char *)); }
            L[nL++] = strdup(line);
        }
        while (a < nL)
        {
            size_t b = a;
            char errp[600], tag[128] = "";
            pid_t pid;
            int status = 0;
            while (b < nL && strncmp(L[b], "reset", 5) != 0) b++;
            if (b < nL) { sscanf(L[b], "reset %127s", tag); b++; }
            snprintf(errp, sizeof(errp), "%s.err%d", tpath ? tpath : "/tmp/mxdrive", epno++);
            fflush(g_trace); fflush(stderr);
            pid = fork();
            if (pid == 0)
            {
                int fd = open(errp, O_WRONLY | O_CREAT | O_TRUNC, 0600);
                if (fd >= 0) { dup2(fd, 2); close(fd); }
                alarm(g_eptimeout);
                for (k = a; k < b; k++) { g_scriptline = (int) k + 1; run_line(L[k]); }
                fflush(g_trace);
                _exit(g_leak_seen ? 79 : 0);
            }
            waitpid(pid, &status, 0);
            if (status != 0)
            {
                /* signature: the sanitizer's ERROR / runtime error line and the first frames inside the repository */
                char sig[1400] = "", inj[500] = "", ln[600];
                FILE *ef = fopen(errp, "r");
                int frames = 0, ininj = 0, injf = 0;
                while (ef && fgets(ln, sizeof(ln), ef) && strlen(sig) < 1100)
                {
                    char *q;
                    for (q = ln; *q; q++) if (*q == '"' || *q == '\\' || *q == '\n' || *q == '\t') *q = ' ';
                    if (strstr(ln, "FAULT-INJECTED")) { ininj = 1; continue; }
                    if (strstr(ln, "FAULT-END")) { ininj = 0; continue; }
                    if (ininj)
                    {
                        if (strstr(ln, " in ") && strstr(ln, "/repo/") && injf < 4 && strlen(inj) < 380) { char *f = strstr(ln, " in "); strncat(inj, f + 4, 90); strcat(inj, " | "); injf++; }
                        continue;
                    }
                    if (strstr(ln, "ERROR:") || strstr(ln, "runtime error") || strstr(ln, "mxdrive:")) { strncat(sig, ln, 300); strcat(sig, " | "); }
                    else if (strstr(ln, " in ") && strstr(ln, "/repo/") && frames < 6) { char *f = strstr(ln, " in "); strncat(sig, f + 4, 160); strcat(sig, " | "); frames++; }
                }
                if (ef) fclose(ef);
                fprintf(g_trace, "{\"i\":-1,\"ev\":\"Crash\",\"ep\":\"-\",\"tag\":\"%s\",\"exit\":%d,\"signal\":%d,\"sig\":\"%s\",\"inj\":\"%s\"}\n", tag,
                    WIFEXITED(status) ? WEXITSTATUS(status) : -1, WIFSIGNALED(status) ? WTERMSIG(status) : 0, sig, inj);
                fprintf(g_trace, "{\"i\":-1,\"ev\":\"Reset\",\"ep\":\"-\",\"tag\":\"%s\",\"leak\":0,\"allocs\":0,\"hits\":0,\"crashed\":1}\n", tag);
            }
            unlink(errp);
            /* the child appended to the trace file through its own descriptor copy: move to the end */
            fseek(g_trace, 0, SEEK_END);
            a = b;
        }
        fflush(g_trace);
        if (g_trace != stdout) fclose(g_trace);
        for (k = 0; k < nL; k++) free(L[k]);
        free(L); free(line); free(g_out.s);
        matrixSslClose();
        return 0;
    }
    while (getline(&line, &cap, in) >= 0)
    {
        g_scriptline++;
        /* -T without -F: a watchdog per episode - a call that does not return ends the run with exit code 76 */
        if (g_watchdog && (g_scriptline == 1 || !strncmp(line, "reset", 5))) alarm((unsigned) g_eptimeout);
        run_line(line);
    }
    alarm(0);
    {
        char r[] = "reset end";
        run_line(r);
    }
    matrixSslClose();
    free(line); free(g_out.s);
    fflush(g_trace);
    if (g_trace != stdout) fclose(g_trace);
    return 0;
}
