/* prototypes of the allocator the "fault" build variant substitutes for Malloc / Calloc / Realloc (force-included) */
#ifndef MXV_ALLOC_H
#define MXV_ALLOC_H
#include <stddef.h>
void *mxv_malloc(size_t n);
void *mxv_calloc(size_t a, size_t b);
void *mxv_realloc(void *p, size_t n);
#endif
