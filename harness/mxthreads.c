/*
 * mxthreads - N threads drive sessions concurrently against ONE server key set (identity, CA list, session ticket
 * keys, ephemeral ECDHE key cache), the global session cache and the shared random generator (C20).
 *
 *   mxthreads <script> <trace>
 * script: lines "<thread> <op> ...":
 *     <t> conn <handle> <ver> <suite-hex> <want: full|id|ticket|psk>   a connection (handshake, data both ways, closure, deletion)
 *     <t> keyadd <k> | keydel <k>                                      session ticket key list of the shared server keys
 *     0 ticketcb <usec>     (before the threads start) register a session ticket callback on the shared server keys; it
 *                           takes up to <usec> microseconds, accepts a key the library found and supplies none itself
 *   <ver> may be T11, T12, T13 or T13F (TLS 1.3 with the finite-field group ffdhe2048 only)
 * Every thread executes its own lines in order.  Each operation is logged with two stamps of a global atomic
 * counter (taken right before and right after the operation); every mutex acquisition / release of the library
 * is logged through link-time wrappers with a stamp taken while the mutex is held.
 */
#define _GNU_SOURCE
#include <stdio.h>
#include <stdlib.h>
#include <string.h>
#include <pthread.h>
#include <stdatomic.h>
#include <stdarg.h>
#include <time.h>
#include <sched.h>
#include "matrixssl/matrixsslApi.h"
#include "matrixssl/matrixssllib.h"

#define TK "/repo/testkeys"
#define MAXT 8
#define MAXOPS 512
#define MAXEV 60000

static atomic_long g_clock;
static atomic_int g_loaded[64];     /* session ticket key names that may be in the shared list */
static sslKeys_t *g_ks, *g_kc;

typedef struct { char s[200]; } ev_t;
typedef struct
{
    int id, nops, nev;
    char ops[MAXOPS][96];
    ev_t *ev;
    unsigned long long rng;
    struct { char name[16]; sslSessionId_t *sid; } h[48];
    struct { ssl_t *c, *s; } slot[48];
    int nh, seq;
    int cbcalls, cbfound;       /* ticket callback invocations during the current connection; whether the last one was told "found" */
} thr_t;
static thr_t g_thr[MAXT];
static __thread thr_t *g_me;

static void logev(const char *fmt, ...)
{
    va_list ap;
    thr_t *t = g_me;
    if (!t || t->nev >= MAXEV) return;
    va_start(ap, fmt);
    vsnprintf(t->ev[t->nev++].s, sizeof(t->ev[0].s), fmt, ap);
    va_end(ap);
}

int32 __wrap_psGetEntropy(unsigned char *bytes, uint32 size, void *userPtr)
{
    static __thread unsigned long long fallback = 0x1234567ULL;
    unsigned long long *r = g_me ? &g_me->rng : &fallback;
    uint32 i;
    (void) userPtr;
    for (i = 0; i < size; i++) { *r ^= *r << 13; *r ^= *r >> 7; *r ^= *r << 17; bytes[i] = (unsigned char) (*r >> 32); }
    return (int32) size;
}

extern void __real_psLockMutex(psMutex_t *m);
extern void __real_psUnlockMutex(psMutex_t *m);
void __wrap_psLockMutex(psMutex_t *m)
{
    __real_psLockMutex(m);
    if (g_me) logev("{\"th\":%d,\"op\":\"lock\",\"lk\":\"%lx\",\"t0\":%ld,\"t1\":0}", g_me->id, (unsigned long) m, (long) atomic_fetch_add(&g_clock, 1));
}
void __wrap_psUnlockMutex(psMutex_t *m)
{
    if (g_me) logev("{\"th\":%d,\"op\":\"unlock\",\"lk\":\"%lx\",\"t0\":%ld,\"t1\":0}", g_me->id, (unsigned long) m, (long) atomic_fetch_add(&g_clock, 1));
    __real_psUnlockMutex(m);
}

static void ticket_key_material(int k, unsigned char name[16], unsigned char sym[32], unsigned char mac[32])
{
    int i;
    for (i = 0; i < 16; i++) name[i] = (unsigned char) (0xA0 + k * 7 + i);
    for (i = 0; i < 32; i++) { sym[i] = (unsigned char) (k * 31 + i * 3 + 1); mac[i] = (unsigned char) (k * 17 + i * 5 + 2); }
}

/* the application's session ticket callback: runs with no library lock held (getTicketKeys releases g_sessTicketLock
   around it); the window is logged with two stamps */
static int g_cb_usec = -1, g_cb_supply = 0;
static int32 ticket_cb(void *keys, unsigned char name[16], short found)
{
    thr_t *t = g_me;
    long c0 = atomic_fetch_add(&g_clock, 1), c1;
    int k = ((int) name[0] - 0xA0) / 7, supplied = 0;
    if (t)
    {
        struct timespec ts;
        t->rng ^= t->rng << 13; t->rng ^= t->rng >> 7; t->rng ^= t->rng << 17;
        ts.tv_sec = 0; ts.tv_nsec = g_cb_usec > 0 ? (long) ((t->rng >> 33) % (unsigned) g_cb_usec) * 1000L : 0;
        sched_yield();
        if (ts.tv_nsec) nanosleep(&ts, NULL);
        t->cbcalls++; t->cbfound = found ? 1 : 0;
    }
    if (!found && g_cb_supply && k >= 0 && k < 64 && atomic_exchange(&g_loaded[k], 1) == 0)
    {
        /* the application has the key the library lacks (e.g. from a key server) and loads it - what the callback is for; the
           library then looks for it at the end of the list */
        unsigned char nm[16], sym[32], mac[32];
        long a0 = atomic_fetch_add(&g_clock, 1), a1;
        int32 lrc;
        ticket_key_material(k, nm, sym, mac);
        lrc = matrixSslLoadSessionTicketKeys((sslKeys_t *) keys, nm, sym, 32, mac, 32);
        a1 = atomic_fetch_add(&g_clock, 1);
        logev("{\"th\":%d,\"op\":\"keyadd\",\"seq\":-1,\"k\":%d,\"t0\":%ld,\"t1\":%ld,\"rcn\":%d}", t ? t->id : -1, k, a0, a1, (int) lrc);
        if (lrc >= 0) supplied = 1; else atomic_store(&g_loaded[k], 0);
    }
    c1 = atomic_fetch_add(&g_clock, 1);
    logev("{\"th\":%d,\"op\":\"cb\",\"k\":%d,\"found\":%d,\"t0\":%ld,\"t1\":%ld}", t ? t->id : -1, k, found ? 1 : 0, c0, c1);
    return (found || supplied) ? PS_SUCCESS : PS_FAILURE;
}

/* shuttle bytes from src to dst; returns bytes moved; collects plaintext */
static int shuttle(ssl_t *src, ssl_t *dst, unsigned char *rx, int *rxn, int *err)
{
    unsigned char *ob; int32 n; int moved = 0;
    while ((n = matrixSslGetOutdata(src, &ob)) > 0)
    {
        int off = 0;
        while (off < n)
        {
            unsigned char *rb, *pt; uint32 ptl;
            int32 room = matrixSslGetReadbuf(dst, &rb), take, rc;
            if (room <= 0) { *err = 1; return moved; }
            take = n - off < room ? n - off : room;
            memcpy(rb, ob + off, take); off += take;
            rc = matrixSslReceivedData(dst, take, &pt, &ptl);
            while (rc == MATRIXSSL_APP_DATA || rc == MATRIXSSL_RECEIVED_ALERT)
            {
                if (rc == MATRIXSSL_APP_DATA && *rxn + (int) ptl <= 4096) { memcpy(rx + *rxn, pt, ptl); *rxn += ptl; }
                rc = matrixSslProcessedData(dst, &pt, &ptl);
            }
            if (rc < 0) { *err = 1; return moved; }
        }
        moved += n;
        if (matrixSslSentData(src, n) < 0) { *err = 1; return moved; }
    }
    return moved;
}

static void do_conn(thr_t *t, const char *hname, const char *ver, int suite, const char *want, int keep)
{
    sslSessOpts_t so, co;
    ssl_t *s = NULL, *c = NULL;
    sslSessionId_t *sid = NULL;
    psProtocolVersion_t pv = !strncmp(ver, "T13", 3) ? v_tls_1_3 : !strcmp(ver, "T12") ? v_tls_1_2 : v_tls_1_1;
    psCipher16_t cs = (psCipher16_t) suite;
    unsigned char crx[4096], srx[4096], msg[64];
    int crxn = 0, srxn = 0, err = 0, i, hc = 0, dataok = 0, resc = 0, ress = 0, tk0 = -1, tk1 = -1, hadid = 0;
    long t0, t1;
    int32 rc;

    for (i = 0; i < t->nh; i++) if (!strcmp(t->h[i].name, hname)) sid = t->h[i].sid;
    if (!sid && t->nh < 48) { snprintf(t->h[t->nh].name, 16, "%s", hname); matrixSslNewSessionId(&t->h[t->nh].sid, NULL); sid = t->h[t->nh].sid; t->nh++; }
    if (!strcmp(want, "full") && sid) matrixSslClearSessionId(sid);
#ifdef USE_STATELESS_SESSION_TICKETS
    if (sid && sid->sessionTicket && sid->sessionTicketLen >= 16) tk0 = ((int) sid->sessionTicket[0] - 0xA0) / 7;
#endif
    if (sid && sid->psk && sid->psk->pskIdLen >= 16) tk0 = ((int) sid->psk->pskId[0] - 0xA0) / 7;
    hadid = sid && sid->idLen > 0;
    memset(&so, 0, sizeof(so)); memset(&co, 0, sizeof(co));
    matrixSslSessOptsSetServerTlsVersions(&so, &pv, 1);
    matrixSslSessOptsSetClientTlsVersions(&co, &pv, 1);
    if (!strcmp(want, "ticket") || (!strcmp(want, "full") && hname[0] == 'T')) co.ticketResumption = 1;
    /* handles named E..: the session is created WITHOUT extended master secret and offered again WITH it - RFC 7627 5.3: the
       server must not resume it and falls back to a full handshake (want "idems": completes, not resumed) */
    if (hname[0] == 'E' && !strcmp(want, "full")) co.extendedMasterSecret = -1;
    /* clients differ in the curve they allow for ECDHE (by handle and connection count), so that the key set's shared
       ephemeral-key cache is regenerated while other threads read it */
    { unsigned hv = 0; const char *q; static atomic_long nconn; for (q = hname; *q; q++) hv = hv * 31 + (unsigned char) *q;
      co.ecFlags = ((hv + (unsigned) atomic_fetch_add(&nconn, 1)) & 1) ? SSL_OPT_SECP384R1 : SSL_OPT_SECP256R1; }
    if (!strcmp(ver, "T13F"))
    {
        /* finite-field key share only */
        uint16_t g = 256;
        matrixSslSessOptsSetKeyExGroups(&so, &g, 1, 1);
        matrixSslSessOptsSetKeyExGroups(&co, &g, 1, 1);
    }
    t->cbcalls = 0; t->cbfound = -1;
    t0 = atomic_fetch_add(&g_clock, 1);
    rc = matrixSslNewServerSession(&s, g_ks, NULL, &so);
    if (rc >= 0) rc = matrixSslNewClientSession(&c, g_kc, sid, pv == v_tls_1_3 ? NULL : &cs, pv == v_tls_1_3 ? 0 : 1, NULL, NULL, NULL, NULL, &co);
    if (rc >= 0)
    {
        for (i = 0; i < 60 && !err; i++)
        {
            int m = shuttle(c, s, srx, &srxn, &err) + shuttle(s, c, crx, &crxn, &err);
            if (!m) break;
        }
        hc = !err && matrixSslHandshakeIsComplete(c) && matrixSslHandshakeIsComplete(s);
        if (hc)
        {
            unsigned char *wb;
            for (i = 0; i < 50; i++) msg[i] = (unsigned char) (t->id * 16 + i);
            if (matrixSslGetWritebuf(c, &wb, 50) >= 50) { memcpy(wb, msg, 50); matrixSslEncodeWritebuf(c, 50); }
            if (matrixSslGetWritebuf(s, &wb, 60) >= 60) { memcpy(wb, msg, 50); memset(wb + 50, 0x5a, 10); matrixSslEncodeWritebuf(s, 60); }
            srxn = crxn = 0;
            for (i = 0; i < 10 && !err; i++) if (!(shuttle(c, s, srx, &srxn, &err) + shuttle(s, c, crx, &crxn, &err))) break;
            dataok = !err && srxn == 50 && crxn == 60 && !memcmp(srx, msg, 50) && !memcmp(crx, msg, 50);
            resc = matrixSslIsResumedSession(c) ? 1 : 0; ress = matrixSslIsResumedSession(s) ? 1 : 0;
            if (keep < 0)
            {
                matrixSslEncodeClosureAlert(c);
                shuttle(c, s, srx, &srxn, &err); shuttle(s, c, crx, &crxn, &err);
            }
        }
    }
    if (keep >= 0 && keep < 48 && hc) { t->slot[keep].c = c; t->slot[keep].s = s; c = s = NULL; }
    if (c) matrixSslDeleteSession(c);
    if (s) matrixSslDeleteSession(s);
    t1 = atomic_fetch_add(&g_clock, 1);
#ifdef USE_STATELESS_SESSION_TICKETS
    if (sid && sid->sessionTicket && sid->sessionTicketLen >= 16) tk1 = ((int) sid->sessionTicket[0] - 0xA0) / 7;
#endif
    if (sid && sid->psk && sid->psk->pskIdLen >= 16) tk1 = ((int) sid->psk->pskId[0] - 0xA0) / 7;
    logev("{\"th\":%d,\"op\":\"conn\",\"seq\":%d,\"name\":\"%s\",\"ver\":\"%s\",\"want\":\"%s\",\"t0\":%ld,\"t1\":%ld,\"rcn\":%d,\"hc\":%d,\"dataok\":%d,\"resc\":%d,\"ress\":%d,\"tk0\":%d,\"tk1\":%d,\"hadid\":%d,\"keep\":%d,\"cbcalls\":%d,\"cbf\":%d}",
        t->id, t->seq++, hname, ver, want, t0, t1, (int) rc, hc, dataok, resc, ress, tk0, tk1, hadid, keep, t->cbcalls, t->cbfound);
}

static void *thread_main(void *arg)
{
    thr_t *t = arg;
    int i;
    g_me = t;
    for (i = 0; i < t->nops; i++)
    {
        char op[16] = "", a[32] = "", b[16] = "", c[16] = "", d[16] = "";
        sscanf(t->ops[i], "%15s %31s %15s %15s %15s", op, a, b, c, d);
        if (!strcmp(op, "conn")) do_conn(t, a, b, (int) strtol(c, NULL, 0), d, -1);
        else if (!strcmp(op, "open"))
        {
            /* open <slot> <handle> <ver> <suite> <want>: as conn, but the connection stays open in the slot */
            char e[16] = "";
            sscanf(t->ops[i], "%*s %*s %*s %*s %*s %15s", e);
            do_conn(t, b, c, (int) strtol(d, NULL, 0), e, atoi(a));
        }
        else if (!strcmp(op, "shut"))
        {
            int k = atoi(a), err = 0, n1 = 0, n2 = 0;
            unsigned char rx1[4096], rx2[4096];
            long t0 = atomic_fetch_add(&g_clock, 1), t1;
            if (k >= 0 && k < 48 && t->slot[k].c)
            {
                matrixSslEncodeClosureAlert(t->slot[k].c);
                shuttle(t->slot[k].c, t->slot[k].s, rx1, &n1, &err); shuttle(t->slot[k].s, t->slot[k].c, rx2, &n2, &err);
                matrixSslDeleteSession(t->slot[k].c); matrixSslDeleteSession(t->slot[k].s);
                t->slot[k].c = t->slot[k].s = NULL;
            }
            t1 = atomic_fetch_add(&g_clock, 1);
            logev("{\"th\":%d,\"op\":\"shut\",\"seq\":%d,\"slot\":%d,\"t0\":%ld,\"t1\":%ld}", t->id, t->seq++, k, t0, t1);
        }
        else if (!strcmp(op, "nap"))
        {
            /* nap <usec>: pacing only (nothing is logged) */
            struct timespec ts; ts.tv_sec = 0; ts.tv_nsec = (long) atoi(a) * 1000L; nanosleep(&ts, NULL);
        }
        else if (!strcmp(op, "keyadd") || !strcmp(op, "keydel"))
        {
            unsigned char name[16], sym[32], mac[32];
            long t0 = atomic_fetch_add(&g_clock, 1), t1;
            int32 rc;
            ticket_key_material(atoi(a), name, sym, mac);
            /* key names stay unique in the list (the library would accept a second key of the same name, and a deletion by
               name would then remove whichever of the two is not in use): a name that may still be loaded is not loaded again */
            if (!strcmp(op, "keyadd"))
            {
                if (atomic_exchange(&g_loaded[atoi(a) & 63], 1) == 1) rc = -100;
                else rc = matrixSslLoadSessionTicketKeys(g_ks, name, sym, 32, mac, 32);
            }
            else
            {
                rc = matrixSslDeleteSessionTicketKey(g_ks, name);
                if (rc >= 0) atomic_store(&g_loaded[atoi(a) & 63], 0);
            }
            t1 = atomic_fetch_add(&g_clock, 1);
            logev("{\"th\":%d,\"op\":\"%s\",\"seq\":%d,\"k\":%d,\"t0\":%ld,\"t1\":%ld,\"rcn\":%d}", t->id, op, t->seq++, atoi(a), t0, t1, (int) rc);
        }
    }
    for (i = 0; i < 48; i++) if (t->slot[i].c) { matrixSslDeleteSession(t->slot[i].c); matrixSslDeleteSession(t->slot[i].s); }
    for (i = 0; i < t->nh; i++) matrixSslDeleteSessionId(t->h[i].sid);
    g_me = NULL;
    return NULL;
}

int main(int argc, char **argv)
{
    FILE *f, *out;
    char line[256];
    pthread_t th[MAXT];
    int i, n = 0, k;
    unsigned char name[16], sym[32], mac[32];
    if (argc < 3) { fprintf(stderr, "usage: mxthreads <script> <trace>\n"); return 2; }
    if (!(f = fopen(argv[1], "r")) || !(out = fopen(argv[2], "w"))) { perror("open"); return 2; }
    for (i = 0; i < MAXT; i++) { g_thr[i].id = i; g_thr[i].ev = calloc(MAXEV, sizeof(ev_t)); g_thr[i].rng = 0x9e3779b97f4a7c15ULL * (i + 1); }
    while (fgets(line, sizeof(line), f))
    {
        int t = atoi(line);
        char *sp = strchr(line, ' ');
        if (line[0] == '#' || !sp || t < 0 || t >= MAXT) continue;
        if (!strncmp(sp + 1, "ticketcb", 8)) { g_cb_usec = atoi(sp + 9); g_cb_supply = strstr(sp + 9, "supply") != NULL; continue; }
        if (g_thr[t].nops < MAXOPS) snprintf(g_thr[t].ops[g_thr[t].nops++], 96, "%s", sp + 1);
        if (t + 1 > n) n = t + 1;
    }
    fclose(f);
    if (matrixSslOpen() < 0) return 2;
    if (matrixSslNewKeys(&g_ks, NULL) < 0 || matrixSslNewKeys(&g_kc, NULL) < 0) return 2;
    if (matrixSslLoadKeys(g_ks, TK "/RSA/2048_RSA.pem", TK "/RSA/2048_RSA_KEY.pem", NULL, TK "/RSA/2048_RSA_CA.pem", NULL) < 0) return 2;
    if (matrixSslLoadKeys(g_kc, NULL, NULL, NULL, TK "/RSA/2048_RSA_CA.pem", NULL) < 0) return 2;
    ticket_key_material(0, name, sym, mac);
    matrixSslLoadSessionTicketKeys(g_ks, name, sym, 32, mac, 32);
    atomic_store(&g_loaded[0], 1);
    if (g_cb_usec >= 0) matrixSslSetSessionTicketCallback(g_ks, ticket_cb);
    for (i = 0; i < n; i++) pthread_create(&th[i], NULL, thread_main, &g_thr[i]);
    for (i = 0; i < n; i++) pthread_join(th[i], NULL);
    for (i = 0; i < n; i++) for (k = 0; k < g_thr[i].nev; k++) fprintf(out, "%s\n", g_thr[i].ev[k].s);
    fclose(out);
    matrixSslDeleteKeys(g_ks); matrixSslDeleteKeys(g_kc);
    matrixSslClose();
    for (i = 0; i < MAXT; i++) free(g_thr[i].ev);
    return 0;
}
