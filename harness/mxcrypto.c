/* mxcrypto: drives MatrixSSL's streaming digest / MAC / KDF / cipher / AEAD interfaces along call patterns given in
   a script and records, after every call, the projection of the real context the MxStream specification talks
   about (bytes buffered, bit counter, keystream offset, GHASH buffer fill) plus the verdict of an independent
   implementation (OpenSSL libcrypto) on every output.  One ndjson line per API call.

   usage: mxcrypto -s script -t trace
   script lines (all numbers decimal):
     dig  <alg> seed=<s> al=<a> <n1> <n2> ...          init, update(n1), update(n2) ..., final
     hmac <alg> seed=<s> klen=<k> mode=init|single <n1> ...   (mode=single: one call of psHmac with sum of n)
     hkdf <alg> seed=<s> salt=<n> ikm=<n> info=<n> out=<n>
     pbkdf2 seed=<s> plen=<n> slen=<n> rounds=<n> klen=<n>
     gcm  seed=<s> klen=16|32 aad=<n> al=<a> inplace=0|1 dir=enc|dec [reuse=<taglen>] <n1> <n2> ...   streaming seal / tagless open
     gcmopen seed=<s> klen= aad= pt= taglen=<t> api=1|2 tamper=none|ct|tag|nonce|aad|key bit=<b>
     chacha seed=<s> aad=<n> pt=<n> al= inplace= tamper=... bit=<b> api=att|det
     cbc  seed=<s> klen=16|32 dir=enc|dec inplace=0|1 al=<a> <n1> <n2> ...   (n multiples of 16)
     des3 seed=<s> dir=enc|dec inplace= <n1> ...                            (n multiples of 8)
     reset <tag>
*/
#include "crypto/cryptoImpl.h"
#include <stdio.h>
#include <stdlib.h>
#include <string.h>
#include <stdint.h>
#include <unistd.h>
#include <openssl/evp.h>
#include <openssl/hmac.h>
#include <openssl/kdf.h>

static FILE *g_tr;
static long g_i = 0;
static void die(const char *m) { fprintf(stderr, "mxcrypto: %s\n", m); exit(3); }

/* message bytes depend on position only, so that any chunking feeds the same message */
static unsigned char mbyte(long seed, long i) { return (unsigned char) ((i * 131 + seed * 17 + 7 + (i >> 8) * 29) & 0xff); }
static void fill(unsigned char *p, long seed, long from, long n) { long k; for (k = 0; k < n; k++) p[k] = mbyte(seed, from + k); }

static const char *opt(char **tok, int n, const char *k)
{
    int i; size_t l = strlen(k);
    for (i = 0; i < n; i++) if (!strncmp(tok[i], k, l) && tok[i][l] == '=') return tok[i] + l + 1;
    return NULL;
}
static long opti(char **tok, int n, const char *k, long d) { const char *v = opt(tok, n, k); return v ? atol(v) : d; }
static int isnum(const char *s) { return *s >= '0' && *s <= '9'; }

/* ---------------------------------------------------------------- digests */
typedef struct { const char *name; int B, H; const EVP_MD *(*md)(void); } alg_t;
static const alg_t ALGS[] = {
    { "md5", 64, 16, EVP_md5 }, { "sha1", 64, 20, EVP_sha1 }, { "sha256", 64, 32, EVP_sha256 },
    { "sha384", 128, 48, EVP_sha384 }, { "sha512", 128, 64, EVP_sha512 }, { "md5sha1", 64, 36, NULL }, { NULL, 0, 0, NULL } };
static const alg_t *alg_by(const char *n) { const alg_t *a; for (a = ALGS; a->name; a++) if (!strcmp(a->name, n)) return a; die("unknown alg"); return NULL; }

typedef union { psMd5_t md5; psSha1_t sha1; psSha256_t sha256; psSha384_t sha384; psSha512_t sha512; psMd5Sha1_t md5sha1; } dctx_t;

static void d_init(const alg_t *a, dctx_t *c)
{
    if (!strcmp(a->name, "md5")) psMd5Init(&c->md5);
    else if (!strcmp(a->name, "sha1")) psSha1Init(&c->sha1);
    else if (!strcmp(a->name, "sha256")) psSha256Init(&c->sha256);
    else if (!strcmp(a->name, "sha384")) psSha384Init(&c->sha384);
    else if (!strcmp(a->name, "sha512")) psSha512Init(&c->sha512);
    else psMd5Sha1Init(&c->md5sha1);
}
static void d_update(const alg_t *a, dctx_t *c, const unsigned char *p, uint32_t n)
{
    if (!strcmp(a->name, "md5")) psMd5Update(&c->md5, p, n);
    else if (!strcmp(a->name, "sha1")) psSha1Update(&c->sha1, p, n);
    else if (!strcmp(a->name, "sha256")) psSha256Update(&c->sha256, p, n);
    else if (!strcmp(a->name, "sha384")) psSha384Update(&c->sha384, p, n);
    else if (!strcmp(a->name, "sha512")) psSha512Update(&c->sha512, p, n);
    else psMd5Sha1Update(&c->md5sha1, p, n);
}
static void d_final(const alg_t *a, dctx_t *c, unsigned char *out)
{
    if (!strcmp(a->name, "md5")) psMd5Final(&c->md5, out);
    else if (!strcmp(a->name, "sha1")) psSha1Final(&c->sha1, out);
    else if (!strcmp(a->name, "sha256")) psSha256Final(&c->sha256, out);
    else if (!strcmp(a->name, "sha384")) psSha384Final(&c->sha384, out);
    else if (!strcmp(a->name, "sha512")) psSha512Final(&c->sha512, out);
    else psMd5Sha1Final(&c->md5sha1, out);
}
/* projection of the real context: bytes waiting in the block buffer, bits already compressed */
static void d_proj(const alg_t *a, dctx_t *c, long *curlen, long *bits, long *curlen2, long *bits2)
{
    *curlen2 = -1; *bits2 = -1;
    if (!strcmp(a->name, "md5")) { *curlen = c->md5.curlen; *bits = (long) c->md5.length; }
    else if (!strcmp(a->name, "sha1")) { *curlen = c->sha1.curlen; *bits = (long) c->sha1.length; }
    else if (!strcmp(a->name, "sha256")) { *curlen = c->sha256.curlen; *bits = (long) c->sha256.length; }
    else if (!strcmp(a->name, "sha384")) { *curlen = (long) c->sha384.curlen; *bits = (long) c->sha384.length; }
    else if (!strcmp(a->name, "sha512")) { *curlen = (long) c->sha512.curlen; *bits = (long) c->sha512.length; }
    else { *curlen = c->md5sha1.md5.curlen; *bits = (long) c->md5sha1.md5.length; *curlen2 = c->md5sha1.sha1.curlen; *bits2 = (long) c->md5sha1.sha1.length; }
}
static void ref_digest(const alg_t *a, const unsigned char *m, size_t n, unsigned char *out)
{
    unsigned int l;
    if (a->md) { EVP_Digest(m, n, out, &l, a->md(), NULL); return; }
    EVP_Digest(m, n, out, &l, EVP_md5(), NULL); EVP_Digest(m, n, out + 16, &l, EVP_sha1(), NULL);
}

static void cmd_dig(char **tok, int ntok)
{
    const alg_t *a = alg_by(tok[1]);
    long seed = opti(tok, ntok, "seed", 1), al = opti(tok, ntok, "al", 0), fed = 0, cl, bt, cl2, bt2;
    dctx_t c; int i;
    unsigned char out[64], ref[64], *msg = malloc(1 << 20), *tmp = malloc((1 << 20) + 64);
    memset(&c, 0xa5, sizeof(c));
    d_init(a, &c); d_proj(a, &c, &cl, &bt, &cl2, &bt2);
    fprintf(g_tr, "{\"i\":%ld,\"k\":\"dig\",\"alg\":\"%s\",\"op\":\"init\",\"B\":%d,\"n\":0,\"curlen\":%ld,\"bits\":%ld,\"curlen2\":%ld,\"bits2\":%ld,\"ok\":1}\n", g_i++, a->name, a->B, cl, bt, cl2, bt2);
    for (i = 2; i < ntok; i++)
    {
        long n;
        if (!isnum(tok[i])) continue;
        n = atol(tok[i]);
        if (fed + n > (1 << 20)) die("message too long");
        fill(msg + fed, seed, fed, n);
        memcpy(tmp + al, msg + fed, n);                 /* the chunk at the requested misalignment, in an exact-size window */
        d_update(a, &c, tmp + al, (uint32_t) n); fed += n;
        d_proj(a, &c, &cl, &bt, &cl2, &bt2);
        fprintf(g_tr, "{\"i\":%ld,\"k\":\"dig\",\"alg\":\"%s\",\"op\":\"update\",\"B\":%d,\"n\":%ld,\"curlen\":%ld,\"bits\":%ld,\"curlen2\":%ld,\"bits2\":%ld,\"ok\":1}\n", g_i++, a->name, a->B, n, cl, bt, cl2, bt2);
    }
    d_final(a, &c, out); ref_digest(a, msg, fed, ref);
    fprintf(g_tr, "{\"i\":%ld,\"k\":\"dig\",\"alg\":\"%s\",\"op\":\"final\",\"B\":%d,\"n\":0,\"curlen\":0,\"bits\":%ld,\"curlen2\":-1,\"bits2\":-1,\"ok\":%d}\n", g_i++, a->name, a->B, fed * 8, !memcmp(out, ref, a->H));
    free(msg); free(tmp);
}

/* ---------------------------------------------------------------- HMAC / HKDF / PBKDF2 */
static psCipherType_e hmac_type(const char *n)
{
    if (!strcmp(n, "md5")) return HMAC_MD5;
    if (!strcmp(n, "sha1")) return HMAC_SHA1;
    if (!strcmp(n, "sha256")) return HMAC_SHA256;
    if (!strcmp(n, "sha384")) return HMAC_SHA384;
    die("no hmac for alg"); return 0;
}
static void cmd_hmac(char **tok, int ntok)
{
    const alg_t *a = alg_by(tok[1]);
    long seed = opti(tok, ntok, "seed", 1), klen = opti(tok, ntok, "klen", 16), fed = 0;
    const char *mode = opt(tok, ntok, "mode") ? opt(tok, ntok, "mode") : "init";
    unsigned char key[600], out[64], ref[64], *msg = malloc(1 << 16);
    unsigned int rl; int i, rc = 0;
    psHmac_t h;
    if (klen > 512) die("klen");
    fill(key, seed + 1000, 0, klen);
    if (!strcmp(mode, "init"))
    {
        dctx_t *inner; long cl, bt, cl2, bt2;
        memset(&h, 0x5a, sizeof(h));
        rc = psHmacInit(&h, hmac_type(a->name), key, (psSize_t) klen);
        inner = !strcmp(a->name, "md5") ? (dctx_t *) &h.u.md5.md5 : !strcmp(a->name, "sha1") ? (dctx_t *) &h.u.sha1.sha1 :
                !strcmp(a->name, "sha256") ? (dctx_t *) &h.u.sha256.sha256 : (dctx_t *) &h.u.sha384.sha384;
        d_proj(a, inner, &cl, &bt, &cl2, &bt2);
        fprintf(g_tr, "{\"i\":%ld,\"k\":\"hmac\",\"alg\":\"%s\",\"op\":\"hinit\",\"B\":%d,\"klen\":%ld,\"n\":0,\"curlen\":%ld,\"bits\":%ld,\"rc\":%d,\"ok\":1}\n", g_i++, a->name, a->B, klen, cl, bt, rc);
        for (i = 2; i < ntok; i++)
        {
            long n;
            if (!isnum(tok[i])) continue;
            n = atol(tok[i]); fill(msg + fed, seed, fed, n);
            psHmacUpdate(&h, msg + fed, (uint32_t) n); fed += n;
            d_proj(a, inner, &cl, &bt, &cl2, &bt2);
            fprintf(g_tr, "{\"i\":%ld,\"k\":\"hmac\",\"alg\":\"%s\",\"op\":\"hupdate\",\"B\":%d,\"klen\":%ld,\"n\":%ld,\"curlen\":%ld,\"bits\":%ld,\"rc\":0,\"ok\":1}\n", g_i++, a->name, a->B, klen, n, cl, bt);
        }
        psHmacFinal(&h, out);
    }
    else
    {
        for (i = 2; i < ntok; i++) if (isnum(tok[i])) { long n = atol(tok[i]); fill(msg + fed, seed, fed, n); fed += n; }
        rc = psHmac(hmac_type(a->name), key, (psSize_t) klen, msg, (uint32_t) fed, out);
    }
    HMAC(a->md(), key, (int) klen, msg, fed, ref, &rl);
    fprintf(g_tr, "{\"i\":%ld,\"k\":\"hmac\",\"alg\":\"%s\",\"op\":\"%s\",\"B\":%d,\"klen\":%ld,\"n\":%ld,\"curlen\":0,\"bits\":0,\"rc\":%d,\"ok\":%d}\n", g_i++, a->name,
        !strcmp(mode, "init") ? "hfinal" : "hsingle", a->B, klen, fed, rc, rc >= 0 && !memcmp(out, ref, a->H));
    free(msg);
}

static void ref_hkdf(const EVP_MD *md, int H, const unsigned char *salt, long sl, const unsigned char *ikm, long il, const unsigned char *info, long nl,
    unsigned char *prk, unsigned char *okm, long ol)
{
    unsigned char zero[64] = { 0 }, t[64], buf[64 + 1100]; unsigned int l; long done = 0, tl = 0; int ctr = 1;
    HMAC(md, sl ? salt : zero, sl ? (int) sl : H, ikm, il, prk, &l);
    while (done < ol)
    {
        long m;
        memcpy(buf, t, tl); memcpy(buf + tl, info, nl); buf[tl + nl] = (unsigned char) ctr++;
        HMAC(md, prk, H, buf, tl + nl + 1, t, &l); tl = H;
        m = ol - done < H ? ol - done : H; memcpy(okm + done, t, m); done += m;
    }
}
static void cmd_hkdf(char **tok, int ntok)
{
    const alg_t *a = alg_by(tok[1]);
    long seed = opti(tok, ntok, "seed", 1), sl = opti(tok, ntok, "salt", 0), il = opti(tok, ntok, "ikm", 32), nl = opti(tok, ntok, "info", 0), ol = opti(tok, ntok, "out", 32);
    unsigned char salt[300], ikm[300], info[1100], prk[64], rprk[64], *okm = malloc(70000), *rokm = malloc(70000);
    psSize_t prkLen = 0; int rc1, rc2, okx, oke, expect_fail = ol > 255 * a->H || nl > 80;   /* RFC 5869 limit; HKDF_MAX_INFO_LEN */
    if (sl > 256 || il > 256 || nl > 1024 || ol > 65535) die("hkdf sizes");
    fill(salt, seed + 1, 0, sl); fill(ikm, seed + 2, 0, il); fill(info, seed + 3, 0, nl);
    memset(prk, 0, sizeof(prk));
    rc1 = psHkdfExtract(hmac_type(a->name), salt, (psSize_t) sl, ikm, (psSize_t) il, prk, &prkLen);
    if (!expect_fail) ref_hkdf(a->md(), a->H, salt, sl, ikm, il, info, nl, rprk, rokm, ol);
    else { unsigned int l; unsigned char zero[64] = { 0 }; HMAC(a->md(), sl ? salt : zero, sl ? (int) sl : a->H, ikm, il, rprk, &l); }
    okx = rc1 >= 0 && prkLen == a->H && !memcmp(prk, rprk, a->H);
    memset(okm, 0xee, 70000);
    rc2 = psHkdfExpand(hmac_type(a->name), rprk, (psSize_t) a->H, info, (psSize_t) nl, okm, (psSize_t) ol);
    oke = expect_fail ? rc2 < 0 : (rc2 >= 0 && !memcmp(okm, rokm, ol) && okm[ol] == 0xee);
    fprintf(g_tr, "{\"i\":%ld,\"k\":\"hkdf\",\"alg\":\"%s\",\"op\":\"extract\",\"H\":%d,\"salt\":%ld,\"ikm\":%ld,\"rc\":%d,\"ok\":%d}\n", g_i++, a->name, a->H, sl, il, rc1, okx);
    fprintf(g_tr, "{\"i\":%ld,\"k\":\"hkdf\",\"alg\":\"%s\",\"op\":\"expand\",\"H\":%d,\"info\":%ld,\"out\":%ld,\"rc\":%d,\"refused\":%d,\"ok\":%d}\n", g_i++, a->name, a->H, nl, ol, rc2, rc2 < 0, oke);
    free(okm); free(rokm);
}
static void cmd_pbkdf2(char **tok, int ntok)
{
    long seed = opti(tok, ntok, "seed", 1), pl = opti(tok, ntok, "plen", 8), sl = opti(tok, ntok, "slen", 8), rounds = opti(tok, ntok, "rounds", 3), kl = opti(tok, ntok, "klen", 24);
    unsigned char pw[300], salt[300], key[600], ref[600];
    if (pl > 256 || sl > 256 || kl > 512) die("pbkdf2 sizes");
    fill(pw, seed + 4, 0, pl); fill(salt, seed + 5, 0, sl); memset(key, 0xee, sizeof(key));
    psPkcs5Pbkdf2(pw, (uint32) pl, salt, (uint32) sl, (int32) rounds, key, (uint32) kl);
    PKCS5_PBKDF2_HMAC_SHA1((const char *) pw, (int) pl, salt, (int) sl, (int) rounds, (int) kl, ref);
    fprintf(g_tr, "{\"i\":%ld,\"k\":\"pbkdf2\",\"alg\":\"sha1\",\"op\":\"derive\",\"plen\":%ld,\"slen\":%ld,\"rounds\":%ld,\"klen\":%ld,\"ok\":%d}\n", g_i++, pl, sl, rounds, kl,
        !memcmp(key, ref, kl) && key[kl] == 0xee);
}

/* ---------------------------------------------------------------- AES-GCM */
static int ref_gcm_seal(const unsigned char *key, int klen, const unsigned char *iv, const unsigned char *aad, long al, const unsigned char *pt, long pl, unsigned char *ct, unsigned char *tag)
{
    EVP_CIPHER_CTX *c = EVP_CIPHER_CTX_new(); int l = 0, ok;
    ok = EVP_EncryptInit_ex(c, klen == 16 ? EVP_aes_128_gcm() : EVP_aes_256_gcm(), NULL, key, iv);
    if (al) ok &= EVP_EncryptUpdate(c, NULL, &l, aad, (int) al);
    if (pl) ok &= EVP_EncryptUpdate(c, ct, &l, pt, (int) pl);
    ok &= EVP_EncryptFinal_ex(c, ct + l, &l);
    ok &= EVP_CIPHER_CTX_ctrl(c, EVP_CTRL_GCM_GET_TAG, 16, tag);
    EVP_CIPHER_CTX_free(c);
    return ok;
}
static void cmd_gcm(char **tok, int ntok)
{
    long seed = opti(tok, ntok, "seed", 1), klen = opti(tok, ntok, "klen", 16), aadl = opti(tok, ntok, "aad", 13), al = opti(tok, ntok, "al", 0), inplace = opti(tok, ntok, "inplace", 0), total = 0, done = 0;
    const char *dir = opt(tok, ntok, "dir") ? opt(tok, ntok, "dir") : "enc";
    int enc = !strcmp(dir, "enc"), i, rc;
    unsigned char key[32], iv[16], aad[300], tag[16], rtag[16];
    unsigned char *pt = malloc(70000), *rct = malloc(70000), *in = malloc(70000 + 64), *out = malloc(70000 + 64);
    psAesGcm_t g;
    if (aadl > 256) die("aad");
    for (i = 2; i < ntok; i++) if (isnum(tok[i])) total += atol(tok[i]);
    if (total > 65536) die("gcm length");
    fill(key, seed + 10, 0, klen); fill(iv, seed + 11, 0, 12); fill(aad, seed + 12, 0, aadl); fill(pt, seed, 0, total);
    ref_gcm_seal(key, (int) klen, iv, aad, aadl, pt, total, rct, rtag);
    memcpy(in + al, enc ? pt : rct, total);
    rc = psAesInitGCM(&g, key, (uint8_t) klen);
    if (opti(tok, ntok, "reuse", 0) > 0)
    {   /* the context has already protected another message, whose tag was fetched with `reuse` bytes: psAesReadyGCM
           must start the new message from a clean state (a context is initialised once per key, readied per message) */
        unsigned char iv0[16], t0[16], b0[40];
        fill(iv0, seed + 77, 0, 12); fill(b0, seed + 78, 0, 21);
        psAesReadyGCM(&g, iv0, aad, (psSize_t) aadl);
        psAesEncryptGCM(&g, b0, b0, 21);
        psAesGetGCMTag(&g, (uint8_t) opti(tok, ntok, "reuse", 16), t0);
    }
    psAesReadyGCM(&g, iv, aad, (psSize_t) aadl);
    fprintf(g_tr, "{\"i\":%ld,\"k\":\"gcm\",\"op\":\"ready\",\"dir\":\"%s\",\"aad\":%ld,\"n\":0,\"ibc\":%u,\"obc\":%u,\"abits\":%u,\"cbits\":%u,\"rc\":%d,\"ok\":1}\n", g_i++, dir, aadl,
        g.InputBufferCount, g.OutputBufferCount, g.ProcessedBitCount[0], g.ProcessedBitCount[2], rc);
    for (i = 2; i < ntok; i++)
    {
        long n; unsigned char *src, *dst;
        if (!isnum(tok[i])) continue;
        n = atol(tok[i]); src = in + al + done; dst = inplace ? src : out + al + done;
        if (enc) psAesEncryptGCM(&g, src, dst, (uint32_t) n); else psAesDecryptGCMtagless(&g, src, dst, (uint32_t) n);
        done += n;
        fprintf(g_tr, "{\"i\":%ld,\"k\":\"gcm\",\"op\":\"crypt\",\"dir\":\"%s\",\"aad\":%ld,\"n\":%ld,\"ibc\":%u,\"obc\":%u,\"abits\":%u,\"cbits\":%u,\"rc\":0,\"ok\":1}\n", g_i++, dir, aadl, n,
            g.InputBufferCount, g.OutputBufferCount, g.ProcessedBitCount[0], g.ProcessedBitCount[2]);
    }
    psAesGetGCMTag(&g, 16, tag);
    {
        unsigned char *res = inplace ? in + al : out + al;
        int ok = !memcmp(res, enc ? rct : pt, total) && !memcmp(tag, rtag, 16);
        fprintf(g_tr, "{\"i\":%ld,\"k\":\"gcm\",\"op\":\"tag\",\"dir\":\"%s\",\"aad\":%ld,\"n\":%ld,\"ibc\":0,\"obc\":0,\"abits\":%ld,\"cbits\":%ld,\"rc\":0,\"ok\":%d}\n", g_i++, dir, aadl, total, aadl * 8, total * 8, ok);
    }
    psAesClearGCM(&g);
    free(pt); free(rct); free(in); free(out);
}
static void flipbit(unsigned char *p, long bit) { p[bit >> 3] ^= (unsigned char) (1 << (bit & 7)); }
static void cmd_gcmopen(char **tok, int ntok)
{
    long seed = opti(tok, ntok, "seed", 1), klen = opti(tok, ntok, "klen", 16), aadl = opti(tok, ntok, "aad", 13), pl = opti(tok, ntok, "pt", 32), taglen = opti(tok, ntok, "taglen", 16),
         api = opti(tok, ntok, "api", 1), bit = opti(tok, ntok, "bit", 0);
    const char *tamper = opt(tok, ntok, "tamper") ? opt(tok, ntok, "tamper") : "none";
    unsigned char key[32], iv[16], aad[300], tag[16];
    unsigned char *pt = malloc(70000), *ct = malloc(70000 + 32), *out = malloc(70000 + 32);
    psAesGcm_t g; int rc, applied = 1;
    if (aadl > 256 || pl > 65536 || taglen > 16 || taglen < 1) die("gcmopen sizes");
    fill(key, seed + 10, 0, klen); fill(iv, seed + 11, 0, 12); fill(aad, seed + 12, 0, aadl); fill(pt, seed, 0, pl);
    ref_gcm_seal(key, (int) klen, iv, aad, aadl, pt, pl, ct, tag);
    memcpy(ct + pl, tag, 16);
    if (!strcmp(tamper, "ct")) { if (bit < pl * 8) flipbit(ct, bit); else applied = 0; }
    else if (!strcmp(tamper, "tag")) { if (bit < taglen * 8) flipbit(ct + pl, bit); else applied = 0; }
    else if (!strcmp(tamper, "nonce")) { if (bit < 96) flipbit(iv, bit); else applied = 0; }
    else if (!strcmp(tamper, "aad")) { if (bit < aadl * 8) flipbit(aad, bit); else applied = 0; }
    else if (!strcmp(tamper, "key")) { if (bit < klen * 8) flipbit(key, bit); else applied = 0; }
    else if (strcmp(tamper, "none")) die("tamper class");
    psAesInitGCM(&g, key, (uint8_t) klen);
    psAesReadyGCM(&g, iv, aad, (psSize_t) aadl);
    memset(out, 0xee, pl + 32);
    if (api == 1) rc = psAesDecryptGCM(&g, ct, (uint32_t) (pl + taglen), out, (uint32_t) pl);
    else rc = psAesDecryptGCM2(&g, ct, out, (uint32_t) pl, ct + pl, (uint32_t) taglen);
    fprintf(g_tr, "{\"i\":%ld,\"k\":\"aead\",\"alg\":\"aesgcm\",\"op\":\"open\",\"api\":%ld,\"tamper\":\"%s\",\"bit\":%ld,\"aad\":%ld,\"pt\":%ld,\"taglen\":%ld,\"rc\":%d,\"accepted\":%d,\"ptok\":%d}\n",
        g_i++, api, applied ? tamper : "none", bit, aadl, pl, taglen, rc, rc == PS_SUCCESS, !memcmp(out, pt, pl) && out[pl] == 0xee);
    psAesClearGCM(&g);
    free(pt); free(ct); free(out);
}

/* ---------------------------------------------------------------- ChaCha20-Poly1305 */
static int ref_chacha_seal(const unsigned char *key, const unsigned char *iv, const unsigned char *aad, long al, const unsigned char *pt, long pl, unsigned char *ct, unsigned char *tag)
{
    EVP_CIPHER_CTX *c = EVP_CIPHER_CTX_new(); int l = 0, ok;
    ok = EVP_EncryptInit_ex(c, EVP_chacha20_poly1305(), NULL, key, iv);
    if (al) ok &= EVP_EncryptUpdate(c, NULL, &l, aad, (int) al);
    if (pl) ok &= EVP_EncryptUpdate(c, ct, &l, pt, (int) pl);
    ok &= EVP_EncryptFinal_ex(c, ct + l, &l);
    ok &= EVP_CIPHER_CTX_ctrl(c, EVP_CTRL_AEAD_GET_TAG, 16, tag);
    EVP_CIPHER_CTX_free(c);
    return ok;
}
static void cmd_chacha(char **tok, int ntok)
{
    long seed = opti(tok, ntok, "seed", 1), aadl = opti(tok, ntok, "aad", 13), pl = opti(tok, ntok, "pt", 32), al = opti(tok, ntok, "al", 0), inplace = opti(tok, ntok, "inplace", 0), bit = opti(tok, ntok, "bit", 0);
    const char *tamper = opt(tok, ntok, "tamper") ? opt(tok, ntok, "tamper") : "none";
    const char *api = opt(tok, ntok, "api") ? opt(tok, ntok, "api") : "att";
    unsigned char key[32], iv[12], aad[300], rtag[16];
    unsigned char *pt = malloc(70000), *rct = malloc(70000 + 32), *buf = malloc(70000 + 96), *out = malloc(70000 + 96);
    psChacha20Poly1305Ietf_t c; psResSize_t r; int sealok, applied = 1;
    if (aadl > 256 || pl > 65536) die("chacha sizes");
    fill(key, seed + 20, 0, 32); fill(iv, seed + 21, 0, 12); fill(aad, seed + 22, 0, aadl); fill(pt, seed, 0, pl);
    ref_chacha_seal(key, iv, aad, aadl, pt, pl, rct, rtag);
    /* seal with the library, compare with the reference */
    psChacha20Poly1305IetfInit(&c, key);
    memcpy(buf + al, pt, pl);
    if (!strcmp(api, "att"))
    {
        unsigned char *dst = inplace ? buf + al : out + al;
        r = psChacha20Poly1305IetfEncrypt(&c, buf + al, (psSizeL_t) pl, iv, aad, (psSizeL_t) aadl, dst);
        sealok = r == pl + 16 && !memcmp(dst, rct, pl) && !memcmp(dst + pl, rtag, 16);
    }
    else
    {
        unsigned char mac[16], *dst = inplace ? buf + al : out + al;
        r = psChacha20Poly1305IetfEncryptDetached(&c, buf + al, (psSizeL_t) pl, iv, aad, (psSize_t) aadl, dst, mac);
        sealok = r >= 0 && !memcmp(dst, rct, pl) && !memcmp(mac, rtag, 16);
    }
    fprintf(g_tr, "{\"i\":%ld,\"k\":\"aead\",\"alg\":\"chacha\",\"op\":\"seal\",\"api\":\"%s\",\"aad\":%ld,\"pt\":%ld,\"rc\":%ld,\"ok\":%d}\n", g_i++, api, aadl, pl, (long) r, sealok);
    /* open, possibly tampered */
    memcpy(rct + pl, rtag, 16);
    if (!strcmp(tamper, "ct")) { if (bit < pl * 8) flipbit(rct, bit); else applied = 0; }
    else if (!strcmp(tamper, "tag")) { if (bit < 128) flipbit(rct + pl, bit); else applied = 0; }
    else if (!strcmp(tamper, "nonce")) { if (bit < 96) flipbit(iv, bit); else applied = 0; }
    else if (!strcmp(tamper, "aad")) { if (bit < aadl * 8) flipbit(aad, bit); else applied = 0; }
    else if (!strcmp(tamper, "key")) { if (bit < 256) flipbit(key, bit); else applied = 0; }
    else if (strcmp(tamper, "none")) die("tamper class");
    psChacha20Poly1305IetfInit(&c, key);
    memcpy(buf + al, rct, pl + 16); memset(out, 0xee, pl + 64);
    {
        unsigned char *dst = inplace ? buf + al : out + al;
        if (!strcmp(api, "att")) r = psChacha20Poly1305IetfDecrypt(&c, buf + al, (psSizeL_t) (pl + 16), iv, aad, (psSizeL_t) aadl, dst);
        else r = psChacha20Poly1305IetfDecryptDetached(&c, buf + al, (psSizeL_t) pl, iv, aad, (psSizeL_t) aadl, buf + al + pl, dst);
        fprintf(g_tr, "{\"i\":%ld,\"k\":\"aead\",\"alg\":\"chacha\",\"op\":\"open\",\"api\":\"%s\",\"tamper\":\"%s\",\"bit\":%ld,\"aad\":%ld,\"pt\":%ld,\"taglen\":16,\"rc\":%ld,\"accepted\":%d,\"ptok\":%d}\n",
            g_i++, api, applied ? tamper : "none", bit, aadl, pl, (long) r, r >= 0, !memcmp(dst, pt, pl));
    }
    psChacha20Poly1305IetfClear(&c);
    free(pt); free(rct); free(buf); free(out);
}

/* ---------------------------------------------------------------- CBC modes */
static void ref_cbc(const EVP_CIPHER *ciph, const unsigned char *key, const unsigned char *iv, int enc, const unsigned char *in, long n, unsigned char *out)
{
    EVP_CIPHER_CTX *c = EVP_CIPHER_CTX_new(); int l = 0, l2 = 0;
    EVP_CipherInit_ex(c, ciph, NULL, key, iv, enc); EVP_CIPHER_CTX_set_padding(c, 0);
    if (n) EVP_CipherUpdate(c, out, &l, in, (int) n);
    EVP_CipherFinal_ex(c, out + l, &l2);
    EVP_CIPHER_CTX_free(c);
}
static void cmd_cbc(char **tok, int ntok, int des)
{
    long seed = opti(tok, ntok, "seed", 1), klen = des ? 24 : opti(tok, ntok, "klen", 16), al = opti(tok, ntok, "al", 0), inplace = opti(tok, ntok, "inplace", 0), total = 0, done = 0;
    const char *dir = opt(tok, ntok, "dir") ? opt(tok, ntok, "dir") : "enc";
    int enc = !strcmp(dir, "enc"), i, blk = des ? 8 : 16, rc;
    unsigned char key[32], iv[16];
    unsigned char *pt = malloc(70000), *rct = malloc(70000), *in = malloc(70000 + 64), *out = malloc(70000 + 64);
    psAesCbc_t a; psDes3_t d;
    for (i = 2; i < ntok; i++) if (isnum(tok[i])) total += atol(tok[i]);
    if (total > 65536 || total % blk) die("cbc length");
    fill(key, seed + 30, 0, klen); fill(iv, seed + 31, 0, blk); fill(pt, seed, 0, total);
    ref_cbc(des ? EVP_des_ede3_cbc() : klen == 16 ? EVP_aes_128_cbc() : EVP_aes_256_cbc(), key, iv, 1, pt, total, rct);
    memcpy(in + al, enc ? pt : rct, total);
    if (des) rc = psDes3Init(&d, iv, key); else rc = psAesInitCBC(&a, iv, key, (uint8_t) klen, enc ? PS_AES_ENCRYPT : PS_AES_DECRYPT);
    fprintf(g_tr, "{\"i\":%ld,\"k\":\"cbc\",\"alg\":\"%s\",\"op\":\"init\",\"dir\":\"%s\",\"n\":0,\"blk\":%d,\"rc\":%d,\"chain\":1,\"ok\":1}\n", g_i++, des ? "des3" : "aes", dir, blk, rc);
    for (i = 2; i < ntok; i++)
    {
        long n; unsigned char *src, *dst, *ivnow; int chain;
        if (!isnum(tok[i])) continue;
        n = atol(tok[i]); src = in + al + done; dst = inplace ? src : out + al + done;
        if (des) { if (enc) psDes3Encrypt(&d, src, dst, (uint32_t) n); else psDes3Decrypt(&d, src, dst, (uint32_t) n); }
        else { if (enc) psAesEncryptCBC(&a, src, dst, (uint32_t) n); else psAesDecryptCBC(&a, src, dst, (uint32_t) n); }
        done += n;
        /* the chaining value the context carries to the next call must be the last ciphertext block so far */
        ivnow = des ? d.IV : a.IV;
        chain = done == 0 ? !memcmp(ivnow, iv, blk) : !memcmp(ivnow, rct + done - blk, blk);
        fprintf(g_tr, "{\"i\":%ld,\"k\":\"cbc\",\"alg\":\"%s\",\"op\":\"crypt\",\"dir\":\"%s\",\"n\":%ld,\"blk\":%d,\"rc\":0,\"chain\":%d,\"ok\":1}\n", g_i++, des ? "des3" : "aes", dir, n, blk, chain);
    }
    {
        unsigned char *res = inplace ? in + al : out + al;
        fprintf(g_tr, "{\"i\":%ld,\"k\":\"cbc\",\"alg\":\"%s\",\"op\":\"done\",\"dir\":\"%s\",\"n\":%ld,\"blk\":%d,\"rc\":0,\"chain\":1,\"ok\":%d}\n", g_i++, des ? "des3" : "aes", dir, total, blk,
            !memcmp(res, enc ? rct : pt, total));
    }
    if (des) psDes3Clear(&d); else psAesClearCBC(&a);
    free(pt); free(rct); free(in); free(out);
}

int main(int argc, char **argv)
{
    const char *script = NULL, *trace = NULL; int i; FILE *f; char line[65536];
    for (i = 1; i < argc; i++) { if (!strcmp(argv[i], "-s") && i + 1 < argc) script = argv[++i]; else if (!strcmp(argv[i], "-t") && i + 1 < argc) trace = argv[++i]; }
    if (!script || !trace) die("usage: mxcrypto -s script -t trace");
    f = fopen(script, "r"); g_tr = fopen(trace, "w");
    if (!f || !g_tr) die("cannot open files");
    if (psCryptoOpen(PSCRYPTO_CONFIG) < 0) die("psCryptoOpen");
    while (fgets(line, sizeof(line), f))
    {
        char *tok[4096]; int n = 0; char *p = strtok(line, " \t\r\n");
        while (p && n < 4096) { tok[n++] = p; p = strtok(NULL, " \t\r\n"); }
        if (!n || tok[0][0] == '#') continue;
        if (!strcmp(tok[0], "dig")) cmd_dig(tok, n);
        else if (!strcmp(tok[0], "hmac")) cmd_hmac(tok, n);
        else if (!strcmp(tok[0], "hkdf")) cmd_hkdf(tok, n);
        else if (!strcmp(tok[0], "pbkdf2")) cmd_pbkdf2(tok, n);
        else if (!strcmp(tok[0], "gcm")) cmd_gcm(tok, n);
        else if (!strcmp(tok[0], "gcmopen")) cmd_gcmopen(tok, n);
        else if (!strcmp(tok[0], "chacha")) cmd_chacha(tok, n);
        else if (!strcmp(tok[0], "cbc")) cmd_cbc(tok, n, 0);
        else if (!strcmp(tok[0], "des3")) cmd_cbc(tok, n, 1);
        else if (!strcmp(tok[0], "reset")) fprintf(g_tr, "{\"i\":%ld,\"k\":\"Reset\",\"tag\":\"%s\"}\n", g_i++, n > 1 ? tok[1] : "");
        else die("unknown command");
    }
    fclose(g_tr);
    psCryptoClose();
    return 0;
}
