/*
 * certgen - builds X.509 certificates from abstract descriptions (one per line on stdin) with
 * OpenSSL's libcrypto, an implementation independent of the library under test.
 *
 *   key <name> ec|rsa|ed
 *   cert <out> subj=<cn> iss=<cn> key=<k> signkey=<k> [md=sha256|sha1|md5|sha384] [ver=3|1]
 *        [ca=1|0|-] [pathlen=<n>] [ku=certSign|digSig|certSign+digSig|-] [kucrit=0|1]
 *        [eku=server|client|other|-] [ekucrit=1] [nb=<days>] [na=<days>] [san=DNS:x,IP:1.2.3.4,email:a@b,URI:u]
 *        [critunk=1] [aki=match|mismatch|-] [ski=1|0] [sig=ok|corrupt|copy:<othercert>|tbsmod] [nocn=1]
 *   crl <out> iss=<cn> signkey=<k> [revoked=<serial>,..] [last=<days>] [next=<days>] [akicert=<cert>] [md=..]
 * Files <dir>/<out>.pem (cert), <dir>/<k>.key.pem and <dir>/<out>.crl (DER) are written.  Validity is relative to BASE.
 */
#include <stdio.h>
#include <stdlib.h>
#include <string.h>
#include <openssl/x509.h>
#include <openssl/x509v3.h>
#include <openssl/pem.h>
#include <openssl/evp.h>
#include <openssl/rsa.h>
#include <openssl/ec.h>
#include <openssl/err.h>

#define BASE 1790000000L
static const char *g_dir = ".";

static const char *opt(char **tok, int n, const char *k)
{
    int i; size_t l = strlen(k);
    for (i = 0; i < n; i++) if (!strncmp(tok[i], k, l) && tok[i][l] == '=') return tok[i] + l + 1;
    return NULL;
}

static EVP_PKEY *load_key(const char *name)
{
    char p[512]; FILE *f; EVP_PKEY *k;
    snprintf(p, sizeof(p), "%s/%s.key.pem", g_dir, name);
    f = fopen(p, "r");
    if (!f) { fprintf(stderr, "certgen: no key %s\n", p); exit(2); }
    k = PEM_read_PrivateKey(f, NULL, NULL, NULL);
    fclose(f);
    if (!k) { fprintf(stderr, "certgen: bad key %s\n", p); exit(2); }
    return k;
}

static X509 *load_cert(const char *name)
{
    char p[512]; FILE *f; X509 *x;
    snprintf(p, sizeof(p), "%s/%s.pem", g_dir, name);
    f = fopen(p, "r");
    if (!f) { fprintf(stderr, "certgen: no cert %s\n", p); exit(2); }
    x = PEM_read_X509(f, NULL, NULL, NULL);
    fclose(f);
    return x;
}

static void do_key(char **tok, int n)
{
    char p[512]; FILE *f; EVP_PKEY *k = NULL;
    snprintf(p, sizeof(p), "%s/%s.key.pem", g_dir, tok[1]);
    if ((f = fopen(p, "r"))) { fclose(f); return; }       /* cached */
    if (n > 2 && !strcmp(tok[2], "rsa")) k = EVP_RSA_gen(2048);
    else if (n > 2 && !strcmp(tok[2], "rsa1024")) k = EVP_RSA_gen(1024);
    else if (n > 2 && !strcmp(tok[2], "ed")) k = EVP_PKEY_Q_keygen(NULL, NULL, "ED25519");
    else if (n > 2 && !strcmp(tok[2], "ec384")) k = EVP_EC_gen("P-384");
    else if (n > 2 && !strcmp(tok[2], "ec521")) k = EVP_EC_gen("P-521");
    else if (n > 2 && !strcmp(tok[2], "rsa3072")) k = EVP_RSA_gen(3072);
    else if (n > 2 && !strcmp(tok[2], "rsa4096")) k = EVP_RSA_gen(4096);
    else k = EVP_EC_gen("P-256");
    if (!k) { ERR_print_errors_fp(stderr); exit(2); }
    f = fopen(p, "w");
    {
        BIO *b = BIO_new_fp(f, BIO_NOCLOSE);
        /* traditional encodings (SEC1 "EC PRIVATE KEY", PKCS#1 "RSA PRIVATE KEY") for EC and RSA */
        if (EVP_PKEY_id(k) == EVP_PKEY_ED25519) PEM_write_bio_PrivateKey(b, k, NULL, NULL, 0, NULL, NULL);
        else PEM_write_bio_PrivateKey_traditional(b, k, NULL, NULL, 0, NULL, NULL);
        BIO_free(b);
    }
    fclose(f);
    EVP_PKEY_free(k);
}

static X509_NAME *mkname(const char *cn, int nocn)
{
    X509_NAME *nm = X509_NAME_new();
    X509_NAME_add_entry_by_txt(nm, "C", MBSTRING_ASC, (const unsigned char *) "FI", -1, -1, 0);
    X509_NAME_add_entry_by_txt(nm, "O", MBSTRING_ASC, (const unsigned char *) "mxverif", -1, -1, 0);
    if (!nocn) X509_NAME_add_entry_by_txt(nm, "CN", MBSTRING_ASC, (const unsigned char *) cn, -1, -1, 0);
    else X509_NAME_add_entry_by_txt(nm, "OU", MBSTRING_ASC, (const unsigned char *) cn, -1, -1, 0);
    return nm;
}

static void add_ext(X509 *x, X509 *issuer, int nid, const char *val)
{
    X509V3_CTX ctx;
    X509_EXTENSION *e;
    X509V3_set_ctx_nodb(&ctx);
    X509V3_set_ctx(&ctx, issuer ? issuer : x, x, NULL, NULL, 0);
    e = X509V3_EXT_conf_nid(NULL, &ctx, nid, val);
    if (!e) { fprintf(stderr, "certgen: bad ext %d %s\n", nid, val); ERR_print_errors_fp(stderr); exit(2); }
    X509_add_ext(x, e, -1);
    X509_EXTENSION_free(e);
}

/* crl <out> iss=<cn> signkey=<k> [revoked=<serial>,<serial>..] [last=<days>] [next=<days>] [akicert=<cert>] [md=sha256|sha1]
   writes <dir>/<out>.crl (DER) - lastUpdate / nextUpdate relative to BASE */
static void do_crl(char **tok, int n)
{
    X509_CRL *c = X509_CRL_new();
    EVP_PKEY *sk = load_key(opt(tok, n, "signkey"));
    const EVP_MD *md = EVP_sha256();
    const char *v;
    long last = -10, next = 30;
    char p[512]; FILE *f;
    ASN1_TIME *t;
    X509_NAME *in = mkname(opt(tok, n, "iss"), 0);
    if ((v = opt(tok, n, "md")) && !strcmp(v, "sha1")) md = EVP_sha1();
    if ((v = opt(tok, n, "last"))) last = atol(v);
    if ((v = opt(tok, n, "next"))) next = atol(v);
    X509_CRL_set_version(c, 1);
    X509_CRL_set_issuer_name(c, in);
    t = ASN1_TIME_adj(NULL, BASE, (int) last, 0); X509_CRL_set1_lastUpdate(c, t); ASN1_TIME_free(t);
    t = ASN1_TIME_adj(NULL, BASE, (int) next, 0); X509_CRL_set1_nextUpdate(c, t); ASN1_TIME_free(t);
    if ((v = opt(tok, n, "revoked")) && *v)
    {
        char tmp[512], *q;
        snprintf(tmp, sizeof(tmp), "%s", v);
        for (q = strtok(tmp, ","); q; q = strtok(NULL, ","))
        {
            X509_REVOKED *r = X509_REVOKED_new();
            ASN1_INTEGER *si = ASN1_INTEGER_new();
            ASN1_INTEGER_set(si, atol(q));
            X509_REVOKED_set_serialNumber(r, si);
            t = ASN1_TIME_adj(NULL, BASE, -5, 0); X509_REVOKED_set_revocationDate(r, t); ASN1_TIME_free(t);
            X509_CRL_add0_revoked(c, r);
            ASN1_INTEGER_free(si);
        }
    }
    if ((v = opt(tok, n, "akicert")))
    {
        X509 *ic = load_cert(v);
        X509V3_CTX ctx;
        X509_EXTENSION *e;
        X509V3_set_ctx_nodb(&ctx);
        X509V3_set_ctx(&ctx, ic, NULL, NULL, c, 0);
        e = X509V3_EXT_conf_nid(NULL, &ctx, NID_authority_key_identifier, "keyid:always");
        if (e) { X509_CRL_add_ext(c, e, -1); X509_EXTENSION_free(e); }
        X509_free(ic);
    }
    X509_CRL_sort(c);
    if (!X509_CRL_sign(c, sk, EVP_PKEY_id(sk) == EVP_PKEY_ED25519 ? NULL : md)) { ERR_print_errors_fp(stderr); exit(2); }
    snprintf(p, sizeof(p), "%s/%s.crl", g_dir, tok[1]);
    f = fopen(p, "wb");
    if (!f) { perror(p); exit(2); }
    i2d_X509_CRL_fp(f, c);
    fclose(f);
    X509_CRL_free(c); X509_NAME_free(in); EVP_PKEY_free(sk);
}

static void do_cert(char **tok, int n)
{
    const char *out = tok[1], *v;
    X509 *x = X509_new();
    EVP_PKEY *pk = load_key(opt(tok, n, "key")), *sk = load_key(opt(tok, n, "signkey"));
    const EVP_MD *md = EVP_sha256();
    char p[512]; FILE *f;
    long nb = -365, na = 365;
    static long serial = 1000;
    int ver = 3;
    X509_NAME *sn, *in;

    if ((v = opt(tok, n, "ver"))) ver = atoi(v);
    X509_set_version(x, ver == 1 ? 0 : 2);
    ASN1_INTEGER_set(X509_get_serialNumber(x), (v = opt(tok, n, "serial")) ? atol(v) : serial++);
    sn = mkname(opt(tok, n, "subj"), opt(tok, n, "nocn") != NULL);
    if ((v = opt(tok, n, "cnhex")))
    {
        /* replace the common name by arbitrary octets */
        unsigned char raw[512]; int rl = 0; const char *h;
        int idx = X509_NAME_get_index_by_NID(sn, NID_commonName, -1);
        if (idx >= 0) { X509_NAME_ENTRY *ne = X509_NAME_delete_entry(sn, idx); X509_NAME_ENTRY_free(ne); }
        for (h = v; h[0] && h[1] && rl < 500; h += 2) { unsigned xx; sscanf(h, "%2x", &xx); raw[rl++] = (unsigned char) xx; }
        X509_NAME_add_entry_by_NID(sn, NID_commonName, V_ASN1_UTF8STRING, raw, rl, -1, 0);
    }
    in = mkname(opt(tok, n, "iss"), 0);
    X509_set_subject_name(x, sn);
    X509_set_issuer_name(x, in);
    if ((v = opt(tok, n, "nb"))) nb = atol(v);
    if ((v = opt(tok, n, "na"))) na = atol(v);
    {
        time_t t0 = BASE;
        ASN1_TIME *a = ASN1_TIME_adj(NULL, t0, (int) nb, 0), *b = ASN1_TIME_adj(NULL, t0, (int) na, 0);
        X509_set1_notBefore(x, a); X509_set1_notAfter(x, b);
        ASN1_TIME_free(a); ASN1_TIME_free(b);
    }
    X509_set_pubkey(x, pk);
    if (ver != 1)
    {
        char buf[256];
        v = opt(tok, n, "ca");
        if (v && strcmp(v, "-"))
        {
            const char *pl = opt(tok, n, "pathlen");
            if (atoi(v)) { if (pl && strcmp(pl, "none")) snprintf(buf, sizeof(buf), "critical,CA:TRUE,pathlen:%s", pl); else snprintf(buf, sizeof(buf), "critical,CA:TRUE"); }
            else snprintf(buf, sizeof(buf), "critical,CA:FALSE");
            add_ext(x, NULL, NID_basic_constraints, buf);
        }
        v = opt(tok, n, "ku");
        if (v && strcmp(v, "-"))
        {
            const char *crit = (opt(tok, n, "kucrit") && !atoi(opt(tok, n, "kucrit"))) ? "" : "critical,";
            if (!strcmp(v, "certSign")) snprintf(buf, sizeof(buf), "%skeyCertSign,cRLSign", crit);
            else if (!strcmp(v, "digSig")) snprintf(buf, sizeof(buf), "%sdigitalSignature,keyEncipherment", crit);
            else if (!strcmp(v, "keyAgree")) snprintf(buf, sizeof(buf), "%sdigitalSignature,keyAgreement", crit);
            else snprintf(buf, sizeof(buf), "%sdigitalSignature,keyEncipherment,keyCertSign,cRLSign", crit);
            add_ext(x, NULL, NID_key_usage, buf);
        }
        v = opt(tok, n, "eku");
        if (v && strcmp(v, "-"))
        {
            const char *crit = opt(tok, n, "ekucrit") ? "critical," : "";
            snprintf(buf, sizeof(buf), "%s%s", crit, !strcmp(v, "server") ? "serverAuth" : !strcmp(v, "client") ? "clientAuth" : "codeSigning");
            add_ext(x, NULL, NID_ext_key_usage, buf);
        }
        v = opt(tok, n, "san");
        if (v && *v)
        {
            char tmp[1024];
            snprintf(tmp, sizeof(tmp), "%s%s", opt(tok, n, "sancrit") ? "critical," : "", v);
            add_ext(x, NULL, NID_subject_alt_name, tmp);
        }
        v = opt(tok, n, "sanraw");
        if (v && *v)
        {
            /* entries with arbitrary octets (NUL, control characters): type:<hex>[,type:<hex>...] */
            GENERAL_NAMES *gens = sk_GENERAL_NAME_new_null();
            char tmp[2048], *q2, *save = NULL;
            snprintf(tmp, sizeof(tmp), "%s", v);
            for (q2 = strtok_r(tmp, ",", &save); q2; q2 = strtok_r(NULL, ",", &save))
            {
                GENERAL_NAME *g = GENERAL_NAME_new();
                char *colon = strchr(q2, ':');
                unsigned char raw[512]; int rl = 0; const char *h;
                if (!colon) continue;
                *colon = 0;
                for (h = colon + 1; h[0] && h[1] && rl < 500; h += 2) { unsigned x; sscanf(h, "%2x", &x); raw[rl++] = (unsigned char) x; }
                if (!strcmp(q2, "ip"))
                {
                    ASN1_OCTET_STRING *os = ASN1_OCTET_STRING_new();
                    ASN1_OCTET_STRING_set(os, raw, rl);
                    GENERAL_NAME_set0_value(g, GEN_IPADD, os);
                }
                else
                {
                    ASN1_IA5STRING *ia = ASN1_IA5STRING_new();
                    ASN1_STRING_set(ia, raw, rl);
                    GENERAL_NAME_set0_value(g, !strcmp(q2, "email") ? GEN_EMAIL : !strcmp(q2, "uri") ? GEN_URI : GEN_DNS, ia);
                }
                sk_GENERAL_NAME_push(gens, g);
            }
            X509_add1_ext_i2d(x, NID_subject_alt_name, gens, 0, X509V3_ADD_DEFAULT);
            sk_GENERAL_NAME_pop_free(gens, GENERAL_NAME_free);
        }
        v = opt(tok, n, "ski");
        if (v && atoi(v)) add_ext(x, NULL, NID_subject_key_identifier, "hash");
        v = opt(tok, n, "aki");
        if (v && strcmp(v, "-"))
        {
            /* authority key identifier = hash of the signing key (match) or of the subject's own key (mismatch) */
            X509 *tmpi = X509_new();
            X509_set_pubkey(tmpi, !strcmp(v, "match") ? sk : pk);
            add_ext(tmpi, NULL, NID_subject_key_identifier, "hash");
            add_ext(x, tmpi, NID_authority_key_identifier, "keyid:always");
            X509_free(tmpi);
        }
        if (opt(tok, n, "critunk"))
        {
            /* an extension nobody knows, marked critical */
            ASN1_OBJECT *o = OBJ_txt2obj("1.3.6.1.4.1.99999.1.1", 1);
            ASN1_OCTET_STRING *os = ASN1_OCTET_STRING_new();
            X509_EXTENSION *e;
            ASN1_OCTET_STRING_set(os, (const unsigned char *) "\x04\x02hi", 4);
            e = X509_EXTENSION_create_by_OBJ(NULL, o, 1, os);
            X509_add_ext(x, e, -1);
            X509_EXTENSION_free(e); ASN1_OCTET_STRING_free(os); ASN1_OBJECT_free(o);
        }
    }
    if ((v = opt(tok, n, "md")))
    {
        if (!strcmp(v, "sha1")) md = EVP_sha1();
        else if (!strcmp(v, "md5")) md = EVP_md5();
        else if (!strcmp(v, "sha384")) md = EVP_sha384();
        else if (!strcmp(v, "sha512")) md = EVP_sha512();
    }
    if (EVP_PKEY_id(sk) == EVP_PKEY_ED25519) md = NULL;
    if ((v = opt(tok, n, "pad")) && !strcmp(v, "pss") && EVP_PKEY_id(sk) == EVP_PKEY_RSA)
    {
        /* RSASSA-PSS signature (salt length = digest length) by an rsaEncryption key */
        EVP_MD_CTX *mc = EVP_MD_CTX_new();
        EVP_PKEY_CTX *pc = NULL;
        if (!mc || EVP_DigestSignInit(mc, &pc, md, NULL, sk) != 1 || EVP_PKEY_CTX_set_rsa_padding(pc, RSA_PKCS1_PSS_PADDING) != 1
            || EVP_PKEY_CTX_set_rsa_pss_saltlen(pc, RSA_PSS_SALTLEN_DIGEST) != 1 || !X509_sign_ctx(x, mc)) { ERR_print_errors_fp(stderr); exit(2); }
        EVP_MD_CTX_free(mc);
    }
    else
    if (!X509_sign(x, sk, md)) { ERR_print_errors_fp(stderr); exit(2); }
    v = opt(tok, n, "sig");
    if (v && strcmp(v, "ok"))
    {
        const ASN1_BIT_STRING *cs; const X509_ALGOR *ca;
        ASN1_BIT_STRING *s;
        X509_get0_signature(&cs, &ca, x);
        s = (ASN1_BIT_STRING *) cs;
        if (!strcmp(v, "corrupt")) { s->data[s->length / 2] ^= 0x20; }
        else if (!strncmp(v, "copy:", 5))
        {
            X509 *o = load_cert(v + 5);
            const ASN1_BIT_STRING *os2; const X509_ALGOR *oa;
            X509_get0_signature(&os2, &oa, o);
            ASN1_STRING_set(s, os2->data, os2->length);
            X509_free(o);
        }
    }
    snprintf(p, sizeof(p), "%s/%s.pem", g_dir, out);
    f = fopen(p, "w");
    PEM_write_X509(f, x);
    fclose(f);
    X509_free(x); EVP_PKEY_free(pk); EVP_PKEY_free(sk); X509_NAME_free(sn); X509_NAME_free(in);
}

int main(int argc, char **argv)
{
    char *line = NULL; size_t cap = 0;
    if (argc > 1) g_dir = argv[1];
    while (getline(&line, &cap, stdin) >= 0)
    {
        char *tok[64]; int n = 0; char *q = strtok(line, " \t\r\n");
        while (q && n < 64) { tok[n++] = q; q = strtok(NULL, " \t\r\n"); }
        if (!n || tok[0][0] == '#') continue;
        if (!strcmp(tok[0], "key")) do_key(tok, n);
        else if (!strcmp(tok[0], "crl")) do_crl(tok, n);
        else if (!strcmp(tok[0], "cert")) do_cert(tok, n);
        else { fprintf(stderr, "certgen: unknown %s\n", tok[0]); return 2; }
    }
    return 0;
}
