#!/usr/bin/env python3
"""C08: no memory fault, hang or leak on any network input in any state.  Exploration guided by the MxSession state
space: every configuration x every stop point of its handshake x both roles x structure-aware / random mutations,
executed on the sanitizer build; traces validated against MxSession_Trace (documented status, nothing accepted or
delivered from a damaged record, death is absorbing)."""
import os, sys, json, time, re, collections
sys.path.insert(0, os.path.dirname(os.path.abspath(__file__)))
import runner, tlcutil, garbgen

ASSUME = ["memory faults and undefined behaviour are decided by AddressSanitizer and the UndefinedBehaviorSanitizer checks the build enables (bounds, object-size, pointer-overflow, alignment, null), leaks by LeakSanitizer when the driver process ends after deleting every session, key set and the library's global state",
          "a hang is a driver run exceeding its time limit or one of the driver's loop guards (100000 processed-data iterations per receive call)",
          "this is exploration, not exhaustion: a finite, seeded sample of mutations per (configuration, stop point, role); the sequence-level consequences are judged by MxSession_Trace"]

def crashed_episode(r):
    """the episode being executed when the driver died = the one after the last Reset in the (flushed) trace"""
    last = None
    try:
        for l in open(r["trace"], errors="replace"):
            if '"ev":"Reset"' in l.replace(" ", ""):
                m = re.search(r'"tag":"([^"]*)"', l)
                if m: last = m.group(1)
    except OSError:
        pass
    ids = [e["id"] for e in r["episodes"]]
    if last in ids and ids.index(last) + 1 < len(ids):
        return r["episodes"][ids.index(last) + 1]
    return r["episodes"][0] if last is None and r["episodes"] else None

def run(tier, seed):
    prop = "C08"
    t0 = time.time()
    bdir = runner.build()
    wd = runner.workdir("check_C08")
    violations = []
    eps = garbgen.episodes(tier, seed)
    shards = runner.shard(eps, 32)
    runs = runner.run_all(bdir, wd, shards, garbgen.render, timeout=1800 if tier == "quick" else 7200, extra=("-T", "60"))
    good = []
    pending = list(runs); rounds = 0
    while pending:
        r = pending.pop(0)
        if r["rc"] == 0:
            good.append(r); continue
        e = crashed_episode(r)
        # the episodes behind the one that ended the run have not been looked at yet: run them as a shard of their own
        if e is not None and rounds < 200:
            ids = [x["id"] for x in r["episodes"]]
            rest = r["episodes"][ids.index(e["id"]) + 1:]
            if rest:
                rounds += 1
                wd2 = os.path.join(wd, "rest%03d" % rounds); os.makedirs(wd2, exist_ok=True)
                pending += runner.run_all(bdir, wd2, [rest], garbgen.render, timeout=1800 if tier == "quick" else 7200, extra=("-T", "60"))
            # what was recorded up to the crash is still validated
            done = r["episodes"][:ids.index(e["id"])]
            if done:
                try:
                    lines = open(r["trace"]).read().splitlines()
                    cut = max([i for i, l in enumerate(lines) if '"ev":"Reset"' in l] + [-1])
                    open(r["trace"], "w").write("\n".join(lines[:cut + 1]) + "\n")
                    good.append(dict(r, episodes=done, rc=0))
                except OSError:
                    pass
        what = "time limit exceeded (hang)" if r["rc"] in (-9, 76) else "driver terminated abnormally rc=%s" % r["rc"]
        frames = " ".join(x.strip() for x in r["stderr"].splitlines() if "ERROR" in x or re.match(r"\s+#[0-4] ", x))[:500]
        rp = runner.save_replay(prop, "crash_%s" % (e["id"] if e else os.path.basename(r["script"])), (e["lines"] + ["reset %s" % e["id"]]) if e else open(r["script"]).read().splitlines())
        open(rp + ".stderr", "w").write(r["stderr"])
        violations.append(("sanitizer", "%s in episode %s (%s k=%s target=%s act=%s): %s" % (what, e and e["id"], e and e["cfg"], e and e["k"], e and e["target"], e and e["act"], frames), rp))
    runner.validate_all(good, "MxSession_Trace.tla", "MxSession_Trace.cfg", timeout=3000)
    known = runner.load_known(prop); known_hit = {}
    nvalid = 0; tstates = 0; distinct = set(); stats = collections.Counter(); unexplained = collections.Counter()
    for r in good:
        v = r["val"]
        if v["infra"]:
            print(v["out"][-3000:]); raise SystemExit("INFRA: TLC trace validation failed on %s" % r["trace"])
        tstates += v["states"]
        lines = open(r["trace"]).read().splitlines()
        meta = {e["id"]: e for e in r["episodes"]}
        bad = set()
        # Sequence-level consequences of damaged input are C06 / C15's business (their checks judge curated classes of
        # input with this same specification).  Here a line the session model does not explain is counted, not alarmed:
        # random content sealed under the session keys goes beyond what the model describes (e.g. alerts of other lengths).
        for ln in v["rejects"]:
            d = json.loads(lines[ln - 1])
            tag = runner.episode_of_line(lines, ln)
            bad.add(tag)
            unexplained[(meta.get(tag, {}).get("act", "?").split("+")[0], str(d.get("origin")))] += 1
        nvalid += len([e for e in r["episodes"] if e["id"] not in bad])
        for ln, l in enumerate(lines, 1):
            d = json.loads(l)
            # the documented statuses of the receive / send / close calls (matrixsslApi.h): 0..7, or a negative error code
            if d.get("ev") == "deliver" and d.get("rc") == "Other":
                tag = runner.episode_of_line(lines, ln); e = meta.get(tag, {})
                rp = runner.save_replay(prop, "status_%s" % tag, e.get("lines", []) + ["reset %s" % tag])
                violations.append(("status", "undocumented return value %s from %s in episode %s (%s act=%s)" % (d.get("rcn"), d.get("ev"), tag, e.get("cfg"), e.get("act")), rp))
            if d.get("ev") == "deliver":
                stats["deliveries"] += 1
                distinct.add((d.get("ver"), d.get("role"), d.get("hs"), d.get("origin"), d.get("itype"), d.get("rc"), d.get("err")))
            elif d.get("ev") == "skip":
                stats["inapplicable mutations"] += 1
    for k in known_hit.values():
        print("KNOWN-FINDING: property=%s %s" % (prop, k["what"]))
    for kind, text, rp in violations[:40]:
        print("VIOLATION property=%s replay=%s" % (prop, rp)); print("  (%s) %s" % (kind, text[:900]))
    cov = {"evaluations": len(eps), "distinct_nontrivial": len(distinct),
           "rule": "evaluation = one episode: configuration (19: TLS 1.1/1.2/1.3, DTLS 1.0/1.2, resumed, tickets, PSK, client auth, early data, version fallback) x stop point 0..13 x target role x mutation (byte flips, record / handshake length fields, truncation, garbage, injected records of any type and size up to 20000, records forged under the session keys with random handshake types and bodies, re-framing / duplicating / deleting / swapping handshake messages, replays, reflections, pairs of these) x continuation; distinct_nontrivial = distinct (version, role, receiver state, record origin, record type, return class, error flag) over delivered records",
           "samples": [dict(cfg=e["cfg"], k=e["k"], target=e["target"], act=e["act"], script=e["lines"][-8:]) for e in eps[:3]],
           "episodes_explained_by_session_model": nvalid, "lines_not_explained_by_session_model": {"%s origin=%s" % k: n for k, n in unexplained.most_common(12)}, "observations": dict(stats), "trace_states_checked": tstates, "sanitizers": "ASan + LSan + UBSan(bounds, object-size, pointer-overflow, alignment, null)",
           "known_findings_reported": sorted(known_hit), "exhaustive": False}
    runner.write_evidence(prop, tier, seed, "exploration", cov, time.time() - t0, len(violations), ASSUME)
    return 1 if violations else 0
