#!/usr/bin/env python3
"""Scenarios for C02 (stream integrity under edit scripts) and C17 (nonce/sequence/IV freshness)."""
import random
from sessgen import RSA, EC, TK

def suites():
    S = []
    srv = "keys ks id=%s ca=%s tickets=1 psk=1 psk13=1" % (RSA[0], RSA[1])
    cli = "keys kc ca=%s psk=1 psk13=1" % RSA[1]
    srv_ec = "keys ks id=%s ca=%s tickets=1" % (EC[0], EC[1])
    cli_ec = "keys kc ca=%s" % EC[1]
    def add(name, so, co, ks=srv, kc=cli, fam="gcm", dtls=False, resume=False, post=()):
        S.append(dict(name=name, so=so, co=co, ks=ks, kc=kc, fam=fam, dtls=dtls, resume=resume, post=list(post)))
    add("T12-AES128-GCM", "ver=T12", "ver=T12 suites=0xc02f")
    add("T12-AES256-GCM", "ver=T12", "ver=T12 suites=0xc030")
    add("T12-RSA-AES128-GCM", "ver=T12", "ver=T12 suites=0x9c")
    add("T12-AES128-CBC-SHA", "ver=T12", "ver=T12 suites=0x2f", fam="cbc")
    add("T12-AES256-CBC-SHA256", "ver=T12", "ver=T12 suites=0x3d", fam="cbc")
    add("T12-AES128-CBC-SHA256", "ver=T12", "ver=T12 suites=0x3c", fam="cbc")
    add("T12-ECDHE-ECDSA-AES256-CBC-SHA384", "ver=T12", "ver=T12 suites=0xc024", ks=srv_ec, kc=cli_ec, fam="cbc")
    add("T12-PSK-AES128-CBC-SHA256", "ver=T12", "ver=T12 suites=0xae", fam="cbc")
    add("T12-PSK-AES256-CBC-SHA384", "ver=T12", "ver=T12 suites=0xaf", fam="cbc")
    add("T11-AES128-CBC-SHA", "ver=T11", "ver=T11 suites=0x2f", fam="cbc")
    add("T11-PSK-AES256-CBC-SHA", "ver=T11", "ver=T11 suites=0x8d", fam="cbc")
    add("T13-AES128-GCM", "ver=T13", "ver=T13 suites=0x1301")
    add("T13-AES256-GCM", "ver=T13", "ver=T13 suites=0x1302")
    add("T13-CHACHA20", "ver=T13", "ver=T13 suites=0x1303", fam="chacha")
    add("T13-AES128-GCM-resumed", "ver=T13", "ver=T13 suites=0x1301 sid=R", resume=True)
    # RFC 8446 5.4 record padding: to a block size from the first record on (handshake records are padded too), a fixed
    # amount per record, and block padding switched on for a live session - more than 255 zero bytes in most records
    add("T13-AES128-GCM-padblock", "ver=T13 padblock=512", "ver=T13 suites=0x1301 padblock=1024")
    add("T13-CHACHA20-padlen", "ver=T13 padlen=300", "ver=T13 suites=0x1303 padlen=700", fam="chacha")
    add("T13-AES256-GCM-padlate", "ver=T13", "ver=T13 suites=0x1302", post=["pad c0 4096", "pad s0 2048"])
    add("T12-AES128-GCM-ticket", "ver=T12", "ver=T12 suites=0xc02f sid=R tick=1", resume=True)
    # RFC 6066 max_fragment_length: large writes go out as many small records, each with its own sequence number / nonce.
    # PSK key exchange, so that no handshake message is larger than the fragment size (MxSession describes handshake
    # messages record by record; a Certificate spread over several TLS records is outside what it models)
    add("T12-PSK-AES128-CBC-SHA256-maxfrag512", "ver=T12", "ver=T12 suites=0xae maxfrag=512", fam="cbc")
    add("T12-PSK-AES256-CBC-SHA384-maxfrag1024", "ver=T12", "ver=T12 suites=0xaf maxfrag=1024", fam="cbc")
    add("T13-extpsk-AES128-GCM-maxfrag1024", "ver=T13", "ver=T13 suites=0x1301 maxfrag=1024")
    add("D12-AES128-GCM", "ver=D12", "ver=D12 suites=0xc02f", dtls=True)
    add("D12-AES128-CBC-SHA256", "ver=D12", "ver=D12 suites=0x3c", fam="cbc", dtls=True)
    add("D10-AES128-CBC-SHA", "ver=D10", "ver=D10 suites=0x2f", fam="cbc", dtls=True)
    return S

LENS = [1, 15, 16, 17, 31, 32, 100, 1000, 16383, 16384, 16385, 20000]

def prelude(s):
    L = [s["ks"], s["kc"]]
    if s["resume"]:
        L += ["new s9 server keys=ks %s" % s["so"], "new c9 client keys=kc %s" % s["co"], "link c9 s9", "pump c9 s9 max=60",
              "send c9 3", "pump c9 s9 max=5", "close c9", "pump c9 s9 max=5", "del c9", "del s9"]
    L += ["new s0 server keys=ks %s" % s["so"], "new c0 client keys=kc %s" % s["co"], "link c0 s0", "pump c0 s0 max=60"]
    L += s.get("post", [])
    return L

def edit_ops(rnd, nq, hist, tier):
    """one edit operation on X's queue of nq records"""
    ops = []
    for i in range(nq):
        ops += [["drop {X} %d" % i], ["dup {X} %d" % i]]
        for off in (0, 1, 2, 3, 4, 5, 6, 12, 13, 14, 20, 21, 22, -1, -2, -16, -17, -18, -33):
            ops.append(["mod {X} %d %d 0x%02x" % (i, off, 1 << rnd.randrange(8))])
        ops.append(["trunc {X} %d -1 fix=1" % i]); ops.append(["trunc {X} %d -16 fix=1" % i]); ops.append(["trunc {X} %d -3" % i])
        for j in range(i + 1, nq):
            ops.append(["swap {X} %d %d" % (i, j)])
    for h in (0, 1, 2, -1, -2, -3):
        ops.append(["replay {X} 0 %d" % h]); ops.append(["replay {X} 1 %d" % h]); ops.append(["reflect {T} %d" % h])
    ops.append(["injectrec {X} 0 23 32"]); ops.append(["injectrec {X} 1 23 5"]); ops.append(["injectrec {X} 0 21 2 body=0100"])
    ops.append(["inject {X} 0 1703030010aabbccddeeff00112233445566778899"])
    return ops

def episodes(tier, seed, purpose):
    rnd = random.Random(seed)
    E = []
    for s in suites():
        for direction in ("c0", "s0"):          # X = sender of the attacked direction
            X = direction; T = "s0" if X == "c0" else "c0"
            nscen = 6 if tier == "quick" else 40
            for n in range(nscen):
                lens = [rnd.choice(LENS[:8]) for _ in range(rnd.randrange(2, 4))]
                if n % 5 == 0:
                    lens[rnd.randrange(len(lens))] = rnd.choice(LENS[8:])
                if s["dtls"]:
                    lens = [min(x, 1000) for x in lens]
                if "padlen" in s["name"]:
                    lens = [min(x, 15000) for x in lens]    # a full-size fragment plus a fixed 700 bytes of padding is refused by the encoder
                L = prelude(s)
                L.append("autoflush %s 1" % X)
                pre = rnd.randrange(0, 3)
                for _ in range(pre):                          # some honest traffic first, both ways
                    L += ["send %s %d" % (X, rnd.choice(LENS[:7])), "send %s %d" % (T, rnd.choice(LENS[:7])), "pump c0 s0 max=8"]
                for ln in lens:
                    L.append("send %s %d" % (X, ln))
                nq = len(lens) + sum(1 for x in lens if x > 16384)
                ops = edit_ops(rnd, min(nq, 4), None, tier)
                k = 1 if rnd.random() < 0.6 else 2
                chosen = [rnd.choice(ops) for _ in range(k)]
                if k == 2 and chosen[0] == chosen[1] and chosen[0][0].startswith("mod "):
                    chosen = chosen[:1]          # the same xor twice is no change at all
                for op in chosen:
                    for o in op:
                        L.append(o.format(X=X, T=T))
                L += ["pump c0 s0 max=12", "send %s 9" % X, "send %s 11" % T, "pump c0 s0 max=8", "close %s" % X, "pump c0 s0 max=6"]
                E.append(dict(suite=s["name"], dir=X, ops=[" ".join(o) for o in chosen], lens=lens, lines=L, kind="edit"))
    return E

def bit_episodes(tier, seed):
    """every bit of a short record (thorough) / one bit per byte (quick)"""
    rnd = random.Random(seed + 7)
    E = []
    for s in suites():
        if s["resume"]:
            continue
        X, T = "c0", "s0"
        ln = 5
        # record length unknown here: offsets beyond the record are skipped by the driver (skip events)
        offs = range(0, 90)
        for off in offs:
            bits = range(8) if tier == "thorough" else [rnd.randrange(8)]
            if tier == "quick" and off % 3 != seed % 3:
                continue
            for b in bits:
                L = prelude(s) + ["send %s %d" % (X, ln), "mod %s 0 %d 0x%02x" % (X, off, 1 << b), "pump c0 s0 max=6",
                                  "send %s 7" % T, "send %s 8" % X, "pump c0 s0 max=6"]
                E.append(dict(suite=s["name"], dir=X, ops=["mod 0 %d bit%d" % (off, b)], lens=[ln], lines=L, kind="bit"))
    return E

def nonce_episodes(tier, seed):
    """C17: long and unusual sealing sequences: alerts, closure, tickets, early data, DTLS retransmission"""
    rnd = random.Random(seed + 13)
    E = []
    for s in suites():
        reps = 2 if tier == "quick" else 10
        for n in range(reps):
            L = prelude(s)
            for _ in range(rnd.randrange(3, 9)):
                who = rnd.choice(["c0", "s0"])
                L.append("send %s %d" % (who, rnd.choice(LENS)) if not s["dtls"] else "send %s %d" % (who, rnd.choice(LENS[:8])))
                if rnd.random() < 0.5:
                    L.append("pump c0 s0 max=10")
            if s["dtls"]:
                L2 = [s["ks"], s["kc"], "new s0 server keys=ks %s" % s["so"], "new c0 client keys=kc %s" % s["co"], "link c0 s0"]
                # lossy handshake: drop whole flights and fire timers
                for step in range(rnd.randrange(8, 16)):
                    r = rnd.random()
                    if r < 0.3: L2.append("dropall %s" % rnd.choice(["c0", "s0"]))
                    elif r < 0.55: L2.append("timeout %s" % rnd.choice(["c0", "s0"]))
                    else: L2.append("pump c0 s0 max=%d" % rnd.randrange(1, 5))
                L2 += ["timeout c0", "timeout s0", "pump c0 s0 max=40", "timeout c0", "timeout s0", "pump c0 s0 max=40", "send c0 5", "send s0 6", "pump c0 s0 max=10",
                       "timeout c0", "timeout s0", "pump c0 s0 max=10", "send c0 5", "send s0 6", "pump c0 s0 max=10"]
                E.append(dict(suite=s["name"], dir="-", ops=["dtls-loss"], lens=[], lines=L2, kind="nonce"))
                # the last flight of the handshake is lost; data is sent; the flight is retransmitted; more data
                for loser in ("s0", "c0"):
                    other = "c0" if loser == "s0" else "s0"
                    L3 = [s["ks"], s["kc"], "new s0 server keys=ks %s" % s["so"], "new c0 client keys=kc %s" % s["co"], "link c0 s0",
                          "pump c0 s0 until=%s:DONE max=60" % loser, "flush %s" % loser, "dropall %s" % loser,
                          "send %s %d" % (loser, rnd.randrange(1, 40)), "pump c0 s0 max=4",
                          "timeout %s" % other, "pump c0 s0 max=12", "timeout %s" % loser, "pump c0 s0 max=12",
                          "send %s %d" % (loser, rnd.randrange(1, 40)), "send %s 7" % other, "pump c0 s0 max=8",
                          "timeout %s" % other, "timeout %s" % loser, "pump c0 s0 max=8", "send %s 9" % loser, "pump c0 s0 max=8"]
                    E.append(dict(suite=s["name"], dir="-", ops=["dtls-lost-final-flight-" + loser], lens=[], lines=L3, kind="nonce"))
            L += ["close %s" % rnd.choice(["c0", "s0"]), "pump c0 s0 max=6", "send c0 3", "send s0 3", "pump c0 s0 max=6"]
            E.append(dict(suite=s["name"], dir="-", ops=["mixed-sends"], lens=[], lines=L, kind="nonce"))
    # TLS 1.3 early data around a HelloRetryRequest: the client writes application data before ClientHello1 leaves, and again after
    # each further step of the handshake - whatever is sealed, no (key, nonce) pair may repeat
    srv = "keys ks id=%s ca=%s tickets=1 psk=1 psk13=1 early=16384" % (RSA[0], RSA[1])
    cli = "keys kc ca=%s psk=1 psk13=1 early=16384" % RSA[1]
    for mode, so, co, first in (("ticket", "ver=T13 early=16384", "ver=T13 sid=R", True), ("extpsk", "ver=T13 early=16384", "ver=T13 early=16384", False)):
        for hrr in (True, False):
            g_s, g_c = (" groups=24", " groups=23,24 shares=1") if hrr else ("", "")
            for w in range(0, 7):
                L = [srv, cli]
                if first:
                    L += ["new s9 server keys=ks %s" % so, "new c9 client keys=kc %s" % co, "link c9 s9", "pump c9 s9 max=40", "send c9 3", "pump c9 s9 max=5",
                          "close c9", "pump c9 s9 max=5", "del c9", "del s9"]
                L += ["new s0 server keys=ks %s%s" % (so, g_s), "new c0 client keys=kc %s%s" % (co, g_c), "link c0 s0", "send c0 12", "send c0 30"]
                if w: L.append("pump c0 s0 max=%d" % w)
                L += ["send c0 7", "pump c0 s0 max=1", "send c0 9", "send s0 4", "pump c0 s0 max=40", "send c0 5", "send s0 6", "pump c0 s0 max=10"]
                E.append(dict(suite="T13-early-%s%s" % (mode, "-hrr" if hrr else ""), dir="-", ops=["early-write-at-%d" % w], lens=[], lines=L, kind="nonce"))
    return E

def render(eps, start_id=0):
    out = []
    for i, e in enumerate(eps):
        e["id"] = "E%d" % (start_id + i)
        out += e["lines"] + ["reset %s" % e["id"]]
    return out
