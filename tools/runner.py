#!/usr/bin/env python3
"""Common machinery of the checks: build, run the driver on script shards in parallel, validate the
traces with TLC in parallel, attribute rejections to episodes, apply known findings, write evidence."""
import os, sys, json, subprocess, time, shutil, hashlib, re
from concurrent.futures import ThreadPoolExecutor

ROOT = os.path.dirname(os.path.dirname(os.path.abspath(__file__)))
sys.path.insert(0, os.path.join(ROOT, "tools"))
import tlcutil

WORK = os.path.join(ROOT, "work")
REPLAY = os.path.join(ROOT, "replay")     # violating scripts are kept here (small)
NCPU = 16

def build(variant="asan"):
    p = subprocess.run([sys.executable, os.path.join(ROOT, "tools/mkbuild.py"), variant], capture_output=True, text=True)
    if p.returncode != 0:
        print(p.stdout[-2000:], p.stderr[-4000:])
        raise SystemExit("INFRA: library build failed")
    b = p.stdout.strip().splitlines()[-1]
    p = subprocess.run(["make", "-s", "-f", os.path.join(ROOT, "harness/Makefile"), "B=" + b], cwd=ROOT, capture_output=True, text=True)
    if p.returncode != 0:
        print(p.stdout[-2000:], p.stderr[-4000:])
        raise SystemExit("INFRA: harness build failed")
    return b

def workdir(tag):
    d = os.path.join(WORK, tag)
    shutil.rmtree(d, ignore_errors=True)
    os.makedirs(d, exist_ok=True)
    return d

def run_driver(bdir, script_path, trace_path, timeout=600, binary="mxdrive", extra=()):
    env = dict(os.environ)
    env["ASAN_OPTIONS"] = "detect_leaks=1:abort_on_error=0:exitcode=77:allocator_may_return_null=1"
    env["UBSAN_OPTIONS"] = "halt_on_error=1:exitcode=78"
    t0 = time.time()
    try:
        p = subprocess.run([os.path.join(bdir, binary), "-s", script_path, "-t", trace_path] + list(extra),
                           capture_output=True, text=True, timeout=timeout, env=env)
        rc, err = p.returncode, p.stderr
    except subprocess.TimeoutExpired as e:
        rc, err = -9, "TIMEOUT after %ds" % timeout
    return dict(script=script_path, trace=trace_path, rc=rc, stderr=err[-6000:], wall=time.time() - t0)

def shard(lines_per_episode, nshards):
    """lines_per_episode: list of (episode, [lines]); returns list of shards (list of episodes)"""
    sh = [[] for _ in range(nshards)]
    for i, e in enumerate(lines_per_episode):
        sh[i % nshards].append(e)
    return [s for s in sh if s]

def run_all(bdir, wd, shards, render, timeout=900, nproc=NCPU, allow_nosession=False, extra=()):
    """shards: list of lists of episodes; render(episodes, start_id)->lines. returns list of run dicts"""
    jobs = []
    start = 0
    for i, eps in enumerate(shards):
        lines = render(eps, start)
        start += len(eps)
        sp = os.path.join(wd, "s%03d.mx" % i)
        with open(sp, "w") as f:
            f.write("\n".join(lines) + "\n")
        jobs.append((sp, os.path.join(wd, "s%03d.nd" % i), eps))
    with ThreadPoolExecutor(max_workers=nproc) as ex:
        futs = [ex.submit(run_driver, bdir, sp, tp, timeout, "mxdrive", extra) for sp, tp, _ in jobs]
        res = [f.result() for f in futs]
    for r, (_, _, eps) in zip(res, jobs):
        r["episodes"] = eps
        # a scenario whose sessions could not even be created tests nothing: treat as an infrastructure error
        try:
            bad = sum(1 for l in open(r["trace"]) if '"hs":"NOSESSION"' in l)
        except OSError:
            bad = 0
        if bad and not allow_nosession:
            raise SystemExit("INFRA: %d session creations failed in %s" % (bad, r["script"]))
    return res

def validate_all(runs, module="MxSession_Trace.tla", cfg="MxSession_Trace.cfg", nproc=NCPU, timeout=1500):
    with ThreadPoolExecutor(max_workers=nproc) as ex:
        futs = [ex.submit(tlcutil.validate_trace, r["trace"], module, cfg, timeout) for r in runs]
        for r, f in zip(runs, futs):
            r["val"] = f.result()
    return runs

def episode_of_line(trace_lines, ln):
    """tag of the episode containing 1-based line ln (= tag of the next Reset line at or after it)"""
    for j in range(ln - 1, len(trace_lines)):
        try:
            d = json.loads(trace_lines[j])
        except Exception:
            continue
        if d.get("ev") == "Reset":
            return d.get("tag")
    return None

def prior_state(trace_lines, ln, ep):
    """the most recent logged state of endpoint ep before line ln within the episode"""
    for j in range(ln - 2, -1, -1):
        try:
            d = json.loads(trace_lines[j])
        except Exception:
            continue
        if d.get("ev") == "Reset":
            break
        if d.get("ep") == ep and "hs" in d:
            return d
    return {}

def load_known(prop):
    p = os.path.join(ROOT, "known_findings.json")
    if not os.path.exists(p):
        return []
    return [k for k in json.load(open(p)).get("findings", []) if prop in k.get("properties", []) and k.get("status") == "open"]

def match_known(sig, known):
    for k in known:
        m = k.get("match", {})
        if all(re.fullmatch(str(v), str(sig.get(f, ""))) for f, v in m.items()):
            return k
    return None

def save_replay(prop, name, script_lines):
    os.makedirs(REPLAY, exist_ok=True)
    p = os.path.join(REPLAY, "%s_%s.mx" % (prop, name))
    with open(p, "w") as f:
        f.write("\n".join(script_lines) + "\n")
    return p

def write_evidence(prop, tier, seed, level, coverage, wall, violations, assumptions):
    os.makedirs(os.path.join(ROOT, "evidence"), exist_ok=True)
    ev = dict(property_id=prop, tier=tier, seed=seed, level=level, coverage=coverage,
              assumptions=assumptions, wall_s=round(wall, 1), violations=violations)
    with open(os.path.join(ROOT, "evidence", prop + ".json"), "w") as f:
        json.dump(ev, f, indent=1)
