#!/usr/bin/env python3
"""C05: expected-name matching. MxName_MC tabulates Match and checks the statement's meta-properties; generated
certificates x expected names run through matrixValidateCertsExt; answers validated against MxName_Trace."""
import os, sys, json, time, subprocess
sys.path.insert(0, os.path.dirname(os.path.abspath(__file__)))
import runner, tlcutil, namegen
from concurrent.futures import ThreadPoolExecutor

ASSUME = ["the abstract view of a name (labels, wildcard kind per label, control characters, trailing dot) is computed by the generator from the very string put into the certificate / passed as expected name",
          "soundness uses the case-insensitive reading for e-mail local parts, completeness the verbatim one (the library follows RFC 5280: local part case-sensitive); names with a trailing dot are excluded from completeness",
          "expected hostnames are passed with nameType HOSTNAME, e-mail addresses with SAN_EMAIL, IPv4 literals with SAN_IP_ADDRESS; further calls and all session scenarios use every name type and flag combination, read as documented in matrixsslApiTypes.h: ALWAYS_CHECK_SUBJECT_CN is a documented override of the common-name rule, SKIP_EXPECTED_NAME_VALIDATION a documented opt-out (no soundness claim under it), an illegal combination must authenticate nobody",
          "session layer: 'accepted' = the client reports handshake complete; completeness is demanded only when session creation accepted the expected name"]

def run(tier, seed):
    prop = "C05"
    t0 = time.time()
    bdir = runner.build()
    subprocess.run(["gcc", "-O1", "-w", "-o", os.path.join(runner.ROOT, "build/certgen"), os.path.join(runner.ROOT, "harness/certgen.c"), "-lcrypto"], check=True)
    wd = runner.workdir("check_C05")
    violations = []
    mc = tlcutil.run_tlc("MxName_MC.tla", "MxName_MC.cfg", workers=16, timeout=900, tag="mcC05")
    if mc["violation"] or "violated by the initial state" in mc["out"]:
        p = os.path.join(wd, "model_violation.txt"); open(p, "w").write(mc["out"][-20000:])
        violations.append(("model", "Match violates a meta-property of the statement", p))
    elif not mc["ok"]:
        print(mc["out"][-3000:]); raise SystemExit("INFRA: TLC failed on MxName_MC")
    csets = namegen.cert_sets(tier, seed)
    pkidir = os.path.join(runner.WORK, "pki_C05")
    namegen.materialise(csets, pkidir, os.path.join(runner.ROOT, "build/certgen"))
    lines, meta = namegen.scripts(csets, pkidir, seed)
    nsh = 16
    jobs = []
    for i in range(nsh):
        sp = os.path.join(wd, "n%02d.mx" % i); open(sp, "w").write("\n".join(lines[i::nsh]) + "\n")
        jobs.append((sp, os.path.join(wd, "n%02d.nd" % i)))
    # the session layer: the same question through matrixSslNewClientSession(expectedName, validateCertsOpts)
    seps = namegen.session_scripts(csets, pkidir, tier, seed)
    smeta = {}
    for i in range(nsh):
        mine = seps[i::nsh]
        if not mine:
            continue
        sp = os.path.join(wd, "h%02d.mx" % i); open(sp, "w").write("\n".join(l for ls, _ in mine for l in ls) + "\n")
        jobs.append((sp, os.path.join(wd, "h%02d.nd" % i)))
        smeta[sp] = [m for _, ms in mine for m in ms]
        for k, m in enumerate(smeta[sp]):
            m["tag"] = "H%02d_%d" % (i, k)
            meta[m["tag"]] = m
    with ThreadPoolExecutor(max_workers=16) as ex:
        res = list(ex.map(lambda j: runner.run_driver(bdir, j[0], j[1], 1800), jobs))
    distinct = set(); nmatch = 0; nsess = 0; nsessok = 0
    good = []
    for r in res:
        if r["rc"] != 0:
            rp = runner.save_replay(prop, "crash_" + os.path.basename(r["script"]), open(r["script"]).read().splitlines())
            open(rp + ".stderr", "w").write(r["stderr"])
            violations.append(("sanitizer", "driver terminated abnormally rc=%s: %s" % (r["rc"], r["stderr"][-300:].replace("\n", " ")), rp))
            continue
        out = []
        FLD = ("v", "sans", "cn", "nt", "cnalways", "ci", "gnv", "skip", "layer")
        sm = smeta.get(r["script"]); k = 0; newok = {}
        for l in open(r["trace"]):
            d = json.loads(l)
            if d.get("ev") == "validate":
                m = meta[d["tag"]]
                d.update({f: m[f] for f in FLD})
                ok = d["prc"] == 0 and d["rcn"] >= 0 and all(x == 1 for x in d["st"])
                nmatch += ok
                distinct.add((m["xs"], tuple(tuple(s) for s in m["sansrc"]), m["cnsrc"], m["nt"], m["mflags"], m["vflags"], ok))
            elif sm is not None and d.get("ev") == "new" and d.get("role") == "C":
                newok[d["ep"]] = 0 if d.get("rcn", 0) < 0 else 1
            elif sm is not None and d.get("ev") == "state" and d.get("role", "C") == "C":
                # one line per client session: did the handshake complete?
                m = sm[k]; k += 1
                d = dict(i=d["i"], ev="validate", tag=m["tag"], ep=d["ep"], hc=int(d.get("hc", 0) == 1), newok=newok.get(d["ep"], 0), ver=m["ver"], cb=m["cb"],
                         **{f: m[f] for f in FLD})
                nsess += 1; nsessok += d["hc"]
                distinct.add((m["xs"], tuple(tuple(s) for s in m["sansrc"]), m["cnsrc"], m["nt"], m["mflags"], m["vflags"], m["ver"], m["cb"], d["hc"]))
            out.append(json.dumps(d))
        if sm is not None and k != len(sm):
            raise SystemExit("INFRA: %s: %d client state lines for %d session scenarios" % (r["trace"], k, len(sm)))
        open(r["trace"], "w").write("\n".join(out) + "\n")
        good.append(r)
    with ThreadPoolExecutor(max_workers=16) as ex:
        vals = list(ex.map(lambda r: tlcutil.validate_trace(r["trace"], "MxName_Trace.tla", "MxName_Trace.cfg", 1800), good))
    known = runner.load_known(prop); known_hit = {}
    nvalid = 0
    for r, v in zip(good, vals):
        if v["infra"]:
            print(v["out"][-3000:]); raise SystemExit("INFRA: TLC failed on %s" % r["trace"])
        tl = open(r["trace"]).read().splitlines()
        nvalid += sum(1 for x in tl if '"ev":"validate"' in x.replace(' ', '')) - len(v["rejects"])
        for ln in v["rejects"]:
            d = json.loads(tl[ln - 1]); m = meta[d["tag"]]
            if m["layer"] == "session":
                obs = "match" if d["hc"] == 1 else "nomatch"
            else:
                obs = "match" if (d["prc"] == 0 and d["rcn"] >= 0 and all(x == 1 for x in d["st"])) else "nomatch"
            sig = {"expected": m["xs"], "sans": ";".join("%s:%s" % (k, bytes.fromhex(h).decode("latin1")) for k, h in m["sansrc"]), "cn": str(m["cnsrc"]),
                   "obs": obs}
            sig["opts"] = "%s/%d/%d" % (m["nt"], m["mflags"], m["vflags"]); sig["layer"] = m["layer"]
            k = runner.match_known(sig, known)
            if k:
                known_hit[k["id"]] = k; continue
            if m["layer"] == "session":
                # the whole episode of that certificate, cut after the session in question
                src = open(r["script"]).read().splitlines()
                at = [n for n, l in enumerate(src) if l.startswith("new %s client" % d["ep"])]
                ntha = [n for n in at if sum(1 for l in src[:n] if l.startswith("state ")) == int(d["tag"].split("_")[1])]
                n0 = ntha[0] if ntha else 0
                b = max([n for n in range(n0) if src[n].startswith("keys ks")] or [0])
                sl = src[b:b + 2] + src[n0 - 1:n0 + 5]
            else:
                sl = [l for l in open(r["script"]).read().splitlines() if l.endswith("tag=" + d["tag"])]
            rp = runner.save_replay(prop, d["tag"], sl)
            violations.append(("trace", "%s: library says %s for expected %r (name type %s, mFlags %d, flags %d%s) against SAN [%s] CN %s" % (
                m["layer"] + (" " + m.get("ver", "") + " " + m.get("cb", "") if m["layer"] == "session" else ""), sig["obs"], sig["expected"], m["nt"], m["mflags"], m["vflags"], "",
                sig["sans"], sig["cn"]), rp))
    for k in known_hit.values():
        print("KNOWN-FINDING: property=%s %s" % (prop, k["what"]))
    for kind, text, rp in violations[:40]:
        print("VIOLATION property=%s replay=%s" % (prop, rp)); print("  (%s) %s" % (kind, text[:500].encode("ascii", "backslashreplace").decode()))
    cov = {"states": mc.get("states", 0), "transitions": mc.get("transitions", 0), "traces_validated_against_impl": nvalid,
           "samples": [{"expected": m["xs"], "sans": m["sansrc"], "cn": m["cnsrc"]} for m in list(meta.values())[:3]],
           "evaluations": len(lines) + nsess, "distinct_nontrivial": len(distinct), "session_handshakes": nsess, "session_handshakes_completed": nsessok,
           "rule": "pair = (expected name, certificate name set); name sets = SAN lists of 0..3 entries from a pool of %d (" % len(namegen.SAN_POOL) + "dNSName incl. wildcards/partial/multi/non-leftmost wildcards, case variants, trailing dot, control character, one trailing NUL, two trailing NULs, embedded NUL; rfc822Name; iPAddress; URI) in several orders x 5 CN choices; each pair with the name type of its kind, plus random (nameType, mFlags, flags) settings; session layer: client sessions created with expectedName and validateCertsOpts (TLS 1.2 / TLS 1.3, with and without a pass-through certificate callback) against a server presenting the generated leaf; distinct_nontrivial = distinct (expected, SAN list, CN, options, answer)",
           "certificates_generated": len(csets), "matches_reported_by_library": nmatch, "known_findings_reported": sorted(known_hit), "exhaustive": False}
    runner.write_evidence(prop, tier, seed, "model_checking", cov, time.time() - t0, len(violations), ASSUME)
    return 1 if violations else 0
