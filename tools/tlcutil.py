#!/usr/bin/env python3
"""Helpers shared by the checks: run TLC (model checking / trace validation), parse its output."""
import os, re, subprocess, sys, json, time, shutil, tempfile

ROOT = os.path.dirname(os.path.dirname(os.path.abspath(__file__)))
SPEC = os.path.join(ROOT, "spec")
STATES = os.path.join(ROOT, "states")
JAR = "/opt/veriftools/tla/tla2tools.jar"

import uuid
def _metadir(tag):
    d = os.path.join(STATES, "%s_%d_%s" % (tag, os.getpid(), uuid.uuid4().hex[:12]))
    os.makedirs(d, exist_ok=True)
    return d

def run_tlc(module, cfg, workers=8, env=None, timeout=1500, extra=(), tag="tlc", java_opts=None):
    """returns dict(rc, out, states, distinct, depth, ok, violation)"""
    md = _metadir(tag)
    e = dict(os.environ)
    if env:
        e.update(env)
    # deep recursion over long record lists (a 20 000-byte write under max_fragment_length 512 is 40 records): give TLC's
    # worker threads a stack that holds it
    e["JAVA_TOOL_OPTIONS"] = ("-Xss512m " + (java_opts or "")).strip()
    cmd = ["timeout", str(timeout), "tlc", "-workers", str(workers), "-metadir", md, "-config", cfg] + list(extra) + [module]
    t0 = time.time()
    p = subprocess.run(cmd, cwd=SPEC, env=e, capture_output=True, text=True)
    out = p.stdout + p.stderr
    shutil.rmtree(md, ignore_errors=True)
    for f in os.listdir(SPEC):
        if "_TTrace_" in f:
            try: os.remove(os.path.join(SPEC, f))
            except OSError: pass
    res = {"rc": p.returncode, "out": out, "wall": time.time() - t0}
    m = re.search(r"(\d+) states generated, (\d+) distinct states found", out)
    if m:
        res["states"] = int(m.group(2)); res["transitions"] = int(m.group(1))
    m = re.search(r"depth of the complete state graph search is (\d+)", out)
    if m:
        res["depth"] = int(m.group(1))
    res["ok"] = ("Model checking completed. No error has been found." in out) and p.returncode == 0
    res["violation"] = None
    m = re.search(r"Error: (Invariant (\S+) is violated|Action property (\S+) is violated|Temporal properties were violated)", out)
    if m:
        res["violation"] = m.group(1)
    return res

def validate_trace(trace_path, module="MxSession_Trace.tla", cfg="MxSession_Trace.cfg", timeout=1500, dfs=False):
    """Validate one ndjson trace (possibly many episodes separated by Reset lines).
    returns dict(accepted, rejects=[line numbers], reason, done, out, infra)"""
    jo = "-Dtlc2.tool.queue.IStateQueue=StateDeque" if dfs else None
    r = run_tlc(module, cfg, workers=1, env={"TRACE": os.path.abspath(trace_path)}, timeout=timeout, tag="tv", java_opts=jo)
    out = r["out"]
    rej = sorted(set(int(x) for x in re.findall(r'"TRACE_REJECT_LINE", (\d+)', out)))
    ctx = {}
    for m in re.finditer(r'"TRACE_REJECT_LINE", (\d+), <<"([^"]*)", "([^"]*)", "([^"]*)", (TRUE|FALSE), (TRUE|FALSE)>>', out):
        ctx[int(m.group(1))] = dict(dead=m.group(2), hs=m.group(3), rd=m.group(4), done=m.group(5) == "TRUE", desync=m.group(6) == "TRUE")
    done = "TRACE_DONE" in out
    res = {"accepted": False, "rejects": rej, "reason": None, "out": out, "states": r.get("states", 0),
           "transitions": r.get("transitions", 0), "wall": r["wall"], "done": done, "infra": False, "violation": r["violation"], "ctx": ctx}
    if r["violation"]:
        res["reason"] = r["violation"]
        m = re.findall(r"/\\ l = (\d+)", out)
        if m:
            res["rejects"] = sorted(set(rej + [int(m[-1]) - 1]))
        return res
    if not r["ok"] or not done:
        res["reason"] = "tlc-error"; res["infra"] = True
        return res
    res["accepted"] = not rej
    if rej:
        res["reason"] = "no spec action explains the line(s)"
    return res

if __name__ == "__main__":
    r = validate_trace(sys.argv[1], *(sys.argv[2:4]))
    print(json.dumps({k: v for k, v in r.items() if k != "out"}))
    if not r["accepted"]:
        with open(sys.argv[1]) as f:
            lines = f.readlines()
        for ln in r["rejects"][:5]:
            if 1 <= ln <= len(lines):
                print("rejected line %d:" % ln, lines[ln - 1][:1200])
        if r.get("infra"):
            print(r["out"][-3000:])
        sys.exit(1)
