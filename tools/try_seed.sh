#!/bin/bash
# try_seed.sh <seed id> <check id> [tier] : apply a seeded defect to /repo, run the check, undo.
S=$1; P=$2; T=${3:-quick}
cd /repo || exit 2
git diff --quiet || { echo "/repo has local changes"; exit 2; }
git apply /verif/seeded/$S/patch.diff || { echo "patch does not apply"; exit 2; }
cd /verif
./check $P --tier $T > /verif/work/seed_${S}_${P}.log 2>&1; rc=$?
git -C /repo checkout -- .
n=$(grep -c "^VIOLATION" /verif/work/seed_${S}_${P}.log)
echo "seed $S check $P tier $T: exit=$rc violations=$n"
grep -A1 "^VIOLATION" /verif/work/seed_${S}_${P}.log | head -4 | cut -c1-400
