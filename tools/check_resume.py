#!/usr/bin/env python3
"""C14: session resumption.  MxResume (transcribed cache + tickets under every history within the bounds) is
model-checked by TLC; random and directed histories are run on the real library and every completed resumed
handshake of a server is judged by MxResume_Trace with the same predicate (Justifies)."""
import os, sys, json, time, re, collections
sys.path.insert(0, os.path.dirname(os.path.abspath(__file__)))
import runner, tlcutil, resgen

ASSUME = ["secrets, identifiers, tickets and PSKs are compared through 32-bit FNV fingerprints logged by the driver (master secret, session id as held by the server, whole ticket, PSK id and key)",
          "what a server issued is read from the sessions themselves: a completed full handshake with a 32-byte session id issues a cache entry; a ticket / resumption PSK found in the client's handle after a connection, different from what it held before and never produced by an edit, was issued in that connection",
          "the clock is the driver's virtual clock (gettimeofday/time wrapped); lifetimes 86400 s (cache, tickets) and 360 s (TLS 1.3 tickets) are the build's constants",
          "one-directional: a resumption the library refuses is never an alarm (eviction and in-use accounting are free to be stricter)"]

def mc(cfg, tag):
    return tlcutil.run_tlc("MxResume_MC.tla", cfg, workers=16, timeout=3000, tag=tag)

def run(tier, seed):
    prop = "C14"
    t0 = time.time()
    bdir = runner.build()
    wd = runner.workdir("check_C14")
    violations = []
    states = trans = 0
    cfgs = ["MxResume_MC.cfg", "MxResume_MC_suite.cfg", "MxResume_MC_ems.cfg"] + (["MxResume_MC_thorough.cfg"] if tier == "thorough" else [])
    for cfg in cfgs:
        r = mc(cfg, "mcC14")
        if r["violation"]:
            p = os.path.join(wd, "model_violation_%s.txt" % cfg); open(p, "w").write(r["out"][-30000:])
            violations.append(("model", "%s: %s" % (cfg, r["violation"]), p))
        elif not r["ok"]:
            print(r["out"][-3000:]); raise SystemExit("INFRA: TLC failed on %s" % cfg)
        states += r.get("states", 0); trans += r.get("transitions", 0)
    for inv in ("NoIdResume", "NoTicketResume", "NoEviction"):
        cfgp = os.path.join(wd, "vac_%s.cfg" % inv)
        base = open(os.path.join(runner.ROOT, "spec/MxResume_MC_vac.cfg")).read()
        base = "\n".join(l for l in base.splitlines() if not l.startswith("INVARIANT")) + "\nINVARIANT %s\n" % inv
        open(os.path.join(runner.ROOT, "spec", "_vac_%s.cfg" % inv), "w").write(base)
        r = mc("_vac_%s.cfg" % inv, "mcC14v")
        os.remove(os.path.join(runner.ROOT, "spec", "_vac_%s.cfg" % inv))
        if not r["violation"]:
            raise SystemExit("INFRA: vacuity guard %s was not violated" % inv)
    eps = resgen.episodes(tier, seed)
    shards = runner.shard(eps, 16)
    runs = runner.run_all(bdir, wd, shards, resgen.render, timeout=3000)
    for r in runs:
        if r["rc"] in (77, 78) or r["rc"] < 0 or r["rc"] > 100:
            rp = runner.save_replay(prop, "crash_" + os.path.basename(r["script"]), open(r["script"]).read().splitlines())
            open(rp + ".stderr", "w").write(r["stderr"])
            violations.append(("sanitizer", "driver terminated abnormally rc=%s: %s" % (r["rc"], r["stderr"][-300:].replace("\n", " ")), rp))
        elif r["rc"] != 0:
            print(r["stderr"][-2000:]); raise SystemExit("INFRA: driver failed rc=%s on %s" % (r["rc"], r["script"]))
    runs = [r for r in runs if r["rc"] == 0]
    runner.validate_all(runs, "MxResume_Trace.tla", "MxResume_Trace.cfg", timeout=3000)
    vals1 = [r["val"] for r in runs]
    runner.validate_all(runs, "MxSession_Trace.tla", "MxSession_Trace.cfg", timeout=3000)
    vals2 = [r["val"] for r in runs]
    known = runner.load_known(prop); known_hit = {}
    nvalid = 0; judged = 0; tstates = 0
    stats = collections.Counter(); distinct = set()
    for r, v1, v2 in zip(runs, vals1, vals2):
        lines = open(r["trace"]).read().splitlines()
        meta = {e["id"]: e for e in r["episodes"]}
        bad = set()
        m = re.search(r'"RESUMED_JUDGED", (\d+)', v1["out"]); judged += int(m.group(1)) if m else 0
        for which, v in (("MxResume_Trace", v1), ("MxSession_Trace", v2)):
            if v["infra"]:
                print(v["out"][-3000:]); raise SystemExit("INFRA: TLC trace validation failed on %s (%s)" % (r["trace"], which))
            tstates += v["states"]
            for ln in v["rejects"]:
                d = json.loads(lines[ln - 1])
                tag = runner.episode_of_line(lines, ln)
                if (tag, which) in bad: continue
                bad.add((tag, which))
                e = meta.get(tag, {})
                sig = {"spec": which, "ev": d.get("ev"), "ver": d.get("ver"), "rmode": d.get("rmode"), "sidlen": str(d.get("sidlen")), "ems": str(d.get("ems")),
                       "resumed": str(d.get("resumed")), "kind": e.get("kind"), "ops": ";".join(e.get("ops", []))[-400:]}
                k = runner.match_known(sig, known)
                if k:
                    known_hit[k["id"]] = k; continue
                rp = runner.save_replay(prop, tag, e.get("lines", []) + ["reset %s" % tag])
                violations.append(("trace", "line %d of %s rejected by %s: %s" % (ln, os.path.basename(r["trace"]), which, json.dumps(sig)), rp))
        nvalid += len([e for e in r["episodes"] if not any(t == e["id"] for t, _ in bad)])
        for l in lines:
            d = json.loads(l)
            if d.get("ev") == "state" and d.get("role") == "S" and d.get("hc") == 1 and d.get("err") == 0:
                stats["server completions"] += 1
                if d.get("resumed") == 1: stats["resumed by " + str(d.get("rmode"))] += 1
                distinct.add((d.get("ver"), d.get("suite"), d.get("ems"), d.get("resumed"), d.get("rmode"), d.get("sidlen")))
            if d.get("ev") == "sidedit": stats["handle edits"] += 1
    for k in known_hit.values():
        print("KNOWN-FINDING: property=%s %s" % (prop, k["what"]))
    for kind, text, rp in violations[:40]:
        print("VIOLATION property=%s replay=%s" % (prop, rp)); print("  (%s) %s" % (kind, text[:900]))
    cov = {"states": states, "transitions": trans, "traces_validated_against_impl": nvalid,
           "samples": [dict(kind=e["kind"], ops=e["ops"]) for e in eps[:2] + eps[-2:]],
           "evaluations": len(eps), "distinct_nontrivial": len(distinct),
           "rule": "history = random or directed sequence of connections (full / resumed, by id, ticket or TLS 1.3 PSK, with parameter changes), handle edits, clock advances, fatal alerts, closes / drops, cache overflow and ticket key rotation over up to 3 named handles plus filler clients; distinct_nontrivial = distinct (version, suite, ems, resumed?, mode, session id length) over completed server handshakes; each half-completed connection is two observation points",
           "resumed_handshakes_judged": judged, "observations": dict(stats), "trace_states_checked": tstates,
           "model_configs": cfgs, "known_findings_reported": sorted(known_hit), "exhaustive": False}
    runner.write_evidence(prop, tier, seed, "model_checking", cov, time.time() - t0, len(violations), ASSUME)
    return 1 if violations else 0
