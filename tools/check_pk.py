#!/usr/bin/env python3
"""C11 (decision part): MxPk's decision tables are model-checked against the decode / range / compare pipeline; the
real verification, decryption, import and key-agreement functions are given inputs of every class, built by OpenSSL
with the private keys, and MxPk_Trace requires the verdict the tables prescribe and OpenSSL's results."""
import os, sys, json, time, collections, subprocess
from concurrent.futures import ThreadPoolExecutor
sys.path.insert(0, os.path.dirname(os.path.abspath(__file__)))
import runner, tlcutil, pkgen

ASSUME = ["OpenSSL's libcrypto is the independent implementation: it holds the private keys (the repository's test keys, fresh X25519 / Ed25519 / ECDH peer keys), performs the raw RSA operations on the crafted blocks, produces the genuine ECDSA / Ed25519 signatures that are then modified, and computes the expected shared secrets and signatures",
          "the class an input was built in is the ground truth; classes the property leaves open (DigestInfo without NULL parameters, BER liberties around a valid (r, s), compressed points, a superfluous leading zero octet) are accepted either way",
          "that a canonical input verifies for EVERY key and message, and that no other input does, is numeric (C11's universal claim) and is established on the generated cases only; the spec decides the accept / refuse structure"]

def run(tier, seed):
    prop = "C11"
    t0 = time.time()
    bdir = runner.build()
    p = subprocess.run(["make", "-s", "-f", os.path.join(runner.ROOT, "harness/Makefile"), "B=" + bdir, os.path.join(bdir, "mxpk")], cwd=runner.ROOT, capture_output=True, text=True)
    if p.returncode != 0:
        print(p.stderr[-3000:]); raise SystemExit("INFRA: mxpk build failed")
    wd = runner.workdir("check_C11")
    violations = []
    r = tlcutil.run_tlc("MxPk.tla", "MxPk_MC.cfg", workers=4, timeout=900, tag="mcC11")
    if r["violation"]:
        pth = os.path.join(wd, "model_violation.txt"); open(pth, "w").write(r["out"][-20000:])
        violations.append(("model", r["violation"], pth))
    elif not r["ok"]:
        print(r["out"][-3000:]); raise SystemExit("INFRA: TLC failed on MxPk")
    states, trans = r.get("states", 0), r.get("transitions", 0)
    vac = tlcutil.run_tlc("MxPk.tla", "MxPk_MC_vac.cfg", workers=4, timeout=900, tag="mcC11v")
    if not vac["violation"]: raise SystemExit("INFRA: vacuity guard NeverAccepts was not violated")
    C = pkgen.cases(tier, seed)
    nsh = 16
    jobs = []
    for i in range(nsh):
        part = C[i::nsh]
        if not part: continue
        sp = os.path.join(wd, "s%03d.pk" % i)
        open(sp, "w").write("\n".join(l for _, l in part) + "\n")
        jobs.append(dict(script=sp, trace=os.path.join(wd, "s%03d.nd" % i), cases=part))
    with ThreadPoolExecutor(max_workers=runner.NCPU) as ex:
        res = list(ex.map(lambda j: runner.run_driver(bdir, j["script"], j["trace"], timeout=3000, binary="mxpk"), jobs))
    good = []
    for j, rr in zip(jobs, res):
        j.update(rr)
        if rr["rc"] == 0:
            good.append(j); continue
        if rr["rc"] in (77, 78) or rr["rc"] < 0 or rr["rc"] > 100:
            done = 0
            try: done = sum(1 for _ in open(j["trace"]))
            except OSError: pass
            case = j["cases"][min(done, len(j["cases"]) - 1)]          # one trace line per case: the next one was running
            rp = runner.save_replay(prop, "crash_%s_%d" % (os.path.basename(j["script"]), done), [case[1]])
            open(rp + ".stderr", "w").write(rr["stderr"])
            frames = " ".join(x.strip() for x in rr["stderr"].splitlines() if "ERROR" in x or "runtime error" in x or x.strip().startswith(("#0 ", "#1 ", "#2 ", "#3 ")))[:500]
            violations.append(("sanitizer", "mxpk terminated abnormally (rc=%s) on case [%s]: %s" % (rr["rc"], case[1], frames), rp))
        else:
            print(rr["stderr"][-2000:]); raise SystemExit("INFRA: mxpk failed rc=%s on %s" % (rr["rc"], j["script"]))
    runner.validate_all(good, "MxPk_Trace.tla", "MxPk_Trace.cfg", timeout=3000)
    nvalid = 0; nlines = 0; verdicts = collections.Counter(); fam = collections.Counter(f for f, _ in C)
    for j in good:
        v = j["val"]
        if v["infra"]:
            print(v["out"][-3000:]); raise SystemExit("INFRA: TLC trace validation failed on %s" % j["trace"])
        lines = open(j["trace"]).read().splitlines(); nlines += len(lines)
        for l in lines:
            d = json.loads(l)
            cls = d.get("cls") or "/".join(str(d.get(k)) for k in ("r", "s", "der", "hashc", "keyc") if k in d) or "-"
            verdicts[(d.get("k"), cls, d.get("accepted", d.get("used", d.get("ok"))))] += 1
        bad = set(v["rejects"])
        for ln in sorted(bad):
            d = json.loads(lines[ln - 1])
            case = j["cases"][ln - 1][1] if ln - 1 < len(j["cases"]) else "?"
            rp = runner.save_replay(prop, "%s_%d" % (os.path.basename(j["script"]), ln), [case])
            violations.append(("trace", "line %d rejected by MxPk_Trace: %s  [case: %s]" % (ln, {k: x for k, x in d.items() if k != "i"}, case), rp))
        nvalid += len(lines) - len(bad)
    for kind, text, rp in violations[:30]:
        print("VIOLATION property=%s replay=%s" % (prop, rp)); print("  (%s) %s" % (kind, text[:700]))
    cov = {"states": states, "transitions": trans, "traces_validated_against_impl": nvalid, "trace_lines_checked": nlines,
           "evaluations": len(C), "distinct_nontrivial": len(verdicts),
           "rule": "evaluation = one input of a named class handed to the real function; distinct_nontrivial = distinct (function, class, answer) triples observed",
           "cases_by_family": dict(fam), "samples": [C[0][1], C[len(C) // 2][1], C[-1][1]], "exhaustive": False}
    runner.write_evidence(prop, tier, seed, "model_checking", cov, time.time() - t0, len(violations), ASSUME)
    return 1 if violations else 0

if __name__ == "__main__":
    import argparse
    ap = argparse.ArgumentParser(); ap.add_argument("--tier", default="quick"); ap.add_argument("--seed", type=int, default=int(os.environ.get("VERIF_SEED", "1")))
    a = ap.parse_args()
    sys.exit(run(a.tier, a.seed))
