#!/usr/bin/env python3
"""C07: negotiated parameters are ones both sides enabled; downgrades and hello rewrites refused.  MxNegotiate is
model-checked over every pair of configurations and every single edit; real handshakes between configured
endpoints (with and without an in-flight rewrite of a hello byte) are validated by MxNegotiate_Trace."""
import os, sys, json, time, collections
sys.path.insert(0, os.path.dirname(os.path.abspath(__file__)))
import runner, tlcutil, negogen

ASSUME = ["the configuration of each endpoint (enabled versions, suites, groups, SCSV) is the generator's, attached to its 'new' line; the server's enabled suites are the pool the generator uses minus those disabled with matrixSslSetCipherSuiteEnabledStatus",
          "an in-flight rewrite is a one-byte XOR on a ClientHello / ServerHello / HelloRetryRequest / second ClientHello record applied by the driver (origin 1 or 7 on the deliver line); TLS only (DTLS excludes the first ClientHello from the transcript)",
          "feasible offers are required to succeed (sanity), infeasible ones to fail; signature algorithms are observed (sig13) but not judged beyond completion"]

def annotate(trace_path, meta):
    lines = [json.loads(l) for l in open(trace_path)]
    out = []; i = 0
    while i < len(lines):
        j = i
        while j < len(lines) and lines[j].get("ev") != "Reset":
            j += 1
        tag = lines[j].get("tag") if j < len(lines) else None
        m = meta.get(tag)
        for d in lines[i:j + 1]:
            if m and d.get("ev") == "new" and d.get("ep") in ("c0", "s0"):
                d["ncfg"] = m["C" if d["ep"] == "c0" else "S"]
            out.append(d)
        i = j + 1
    p = trace_path + "p"
    with open(p, "w") as f:
        for d in out: f.write(json.dumps(d) + "\n")
    return p

def run(tier, seed):
    prop = "C07"
    t0 = time.time()
    bdir = runner.build()
    wd = runner.workdir("check_C07")
    violations = []
    # signature algorithms (MxSigNeg): the rule holds on the model, and the code as found (server signs from the client's list
    # alone) must break it - a sensitivity run
    sg = tlcutil.run_tlc("MxSigNeg.tla", "MxSigNeg.cfg", workers=4, timeout=600, tag="mcC07s")
    if sg["violation"] or not sg["ok"]:
        print(sg["out"][-2000:]); raise SystemExit("INFRA: TLC failed on MxSigNeg")
    sg2 = tlcutil.run_tlc("MxSigNeg.tla", "MxSigNeg_AsFound.cfg", workers=4, timeout=600, tag="mcC07s")
    if not sg2["violation"]:
        raise SystemExit("INFRA: sensitivity run MxSigNeg_AsFound was not violated")
    mc = tlcutil.run_tlc("MxNegotiate.tla", "MxNegotiate_MC.cfg", workers=16, timeout=3000, tag="mcC07")
    if mc["violation"]:
        p = os.path.join(wd, "model_violation.txt"); open(p, "w").write(mc["out"][-30000:])
        violations.append(("model", mc["violation"], p))
    elif not mc["ok"]:
        print(mc["out"][-3000:]); raise SystemExit("INFRA: TLC failed on MxNegotiate")
    eps = negogen.episodes(tier, seed)
    shards = runner.shard(eps, 16)
    runs = runner.run_all(bdir, wd, shards, negogen.render, timeout=3000, allow_nosession=True)
    for r in runs:
        if r["rc"] in (77, 78) or r["rc"] < 0 or r["rc"] > 100:
            rp = runner.save_replay(prop, "crash_" + os.path.basename(r["script"]), open(r["script"]).read().splitlines())
            open(rp + ".stderr", "w").write(r["stderr"])
            violations.append(("sanitizer", "driver terminated abnormally rc=%s: %s" % (r["rc"], r["stderr"][-300:].replace("\n", " ")), rp))
        elif r["rc"] != 0:
            print(r["stderr"][-2000:]); raise SystemExit("INFRA: driver failed rc=%s on %s" % (r["rc"], r["script"]))
    runs = [r for r in runs if r["rc"] == 0]
    for r in runs:
        r["orig"] = r["trace"]
        r["trace"] = annotate(r["trace"], {e["id"]: e["ncfg"] for e in r["episodes"]})
    runner.validate_all(runs, "MxNegotiate_Trace.tla", "MxNegotiate_Trace.cfg", timeout=3000)
    vals1 = [r["val"] for r in runs]
    for r in runs: r["trace"] = r["orig"]
    runner.validate_all(runs, "MxSession_Trace.tla", "MxSession_Trace.cfg", timeout=3000)
    vals2 = [r["val"] for r in runs]
    known = runner.load_known(prop); known_hit = {}
    nvalid = 0; tstates = 0; stats = collections.Counter(); distinct = set()
    for r, v1, v2 in zip(runs, vals1, vals2):
        lines = open(r["orig"]).read().splitlines()
        meta = {e["id"]: e for e in r["episodes"]}
        bad = set()
        for which, v in (("MxNegotiate_Trace", v1), ("MxSession_Trace", v2)):
            if v["infra"]:
                print(v["out"][-3000:]); raise SystemExit("INFRA: TLC trace validation failed on %s (%s)" % (r["orig"], which))
            tstates += v["states"]
            for ln in v["rejects"]:
                d = json.loads(lines[ln - 1])
                tag = runner.episode_of_line(lines, ln)
                if (tag, which) in bad: continue
                bad.add((tag, which))
                e = meta.get(tag, {})
                sig = {"spec": which, "ev": d.get("ev"), "ep": d.get("ep"), "kind": e.get("kind"), "desc": e.get("desc"), "edited": v["ctx"].get(ln, {}).get("dead"),
                       "hc": str(d.get("hc")), "err": str(d.get("err")), "ver": d.get("ver"), "suite": str(d.get("suite")), "grp": str(d.get("grp")), "hs": d.get("hs")}
                k = runner.match_known(sig, known)
                if k:
                    known_hit[k["id"]] = k; continue
                rp = runner.save_replay(prop, tag, e.get("lines", []) + ["reset %s" % tag])
                violations.append(("trace", "line %d of %s rejected by %s: %s" % (ln, os.path.basename(r["orig"]), which, json.dumps(sig)), rp))
        nvalid += len([e for e in r["episodes"] if not any(t == e["id"] for t, _ in bad)])
        cur = {}
        for l in lines:
            d = json.loads(l)
            if d.get("ev") == "state" and d.get("ep") == "c0":
                cur = d
            if d.get("ev") == "Reset" and cur:
                e = meta.get(d.get("tag"), {})
                stats[(e.get("kind"), "complete" if cur.get("hc") == 1 else "refused")] += 1
                distinct.add((e.get("kind"), cur.get("ver"), cur.get("suite"), cur.get("grp"), cur.get("hc")))
                cur = {}
    for k in known_hit.values():
        print("KNOWN-FINDING: property=%s %s" % (prop, k["what"]))
    for kind, text, rp in violations[:40]:
        print("VIOLATION property=%s replay=%s" % (prop, rp)); print("  (%s) %s" % (kind, text[:900]))
    cov = {"states": mc.get("states", 0), "transitions": mc.get("transitions", 0), "traces_validated_against_impl": nvalid,
           "samples": [dict(kind=e["kind"], desc=e["desc"], script=e["lines"][2:9]) for e in eps[:2] + eps[-2:]],
           "evaluations": len(eps), "distinct_nontrivial": len(distinct),
           "rule": "scenario = (client configuration, server configuration[, one-byte rewrite of CH / SH / HRR / CH2 at an offset]); all 49 pairs of non-empty version sets (with and without SCSV), suite and group restrictions, HelloRetryRequest flows; distinct_nontrivial = distinct (scenario kind, negotiated version, suite, group, completed?)",
           "outcomes": {"%s %s" % k: n for k, n in sorted(stats.items(), key=str)}, "trace_states_checked": tstates,
           "known_findings_reported": sorted(known_hit), "exhaustive": False}
    runner.write_evidence(prop, tier, seed, "model_checking", cov, time.time() - t0, len(violations), ASSUME)
    return 1 if violations else 0
