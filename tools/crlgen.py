#!/usr/bin/env python3
"""C03, revocation part: the universe of spec/MxCrl_MC.tla as real certificates and CRLs, and histories over it."""
import os, subprocess, random

CERTS = [  # id, subj, iss, key, signkey, serial, ca
    ("root", "R", "R", "kR", "kR", 100, 1), ("fakeroot", "R", "R", "kF", "kF", 101, 1), ("inter", "I", "R", "kI", "kR", 3, 1),
    ("leafA", "A", "R", "kA", "kR", 1, 0), ("leafB", "B", "R", "kB", "kR", 2, 0), ("fleaf", "X", "R", "kX", "kF", 1, 0), ("leafC", "C", "I", "kC", "kI", 1, 0)]
CRLS = [  # id, iss, signkey, revoked, next (days from now)
    ("r1", "R", "kR", "1", 30), ("r13", "R", "kR", "1,3", 30), ("r0", "R", "kR", "", 30), ("rx", "R", "kR", "1", -30),
    ("f2", "R", "kF", "2", 30), ("i1", "I", "kI", "1", 30)]
CHAINS = [["leafA"], ["leafB"], ["leafA", "root"], ["fleaf", "fakeroot"], ["leafA", "fakeroot"], ["leafC", "inter"], ["leafC", "inter", "root"], ["inter"],
          ["leafB", "fakeroot"], ["leafB", "root"], ["fleaf"]]

def materialise(pkidir, certgen):
    os.makedirs(pkidir, exist_ok=True)
    L = []
    for k in sorted(set(c[3] for c in CERTS)):
        L.append("key %s ec" % k)
    for cid, subj, iss, key, sk, serial, ca in CERTS:
        L.append("cert %s subj=%s iss=%s key=%s signkey=%s serial=%d ca=%d ku=%s" % (cid, subj, iss, key, sk, serial, ca, "certSign" if ca else "digSig"))
    for cid, iss, sk, rev, nxt in CRLS:
        L.append("crl %s iss=%s signkey=%s revoked=%s next=%d" % (cid, iss, sk, rev, nxt))
    p = subprocess.run([certgen, pkidir], input="\n".join(L) + "\n", capture_output=True, text=True)
    if p.returncode != 0:
        raise SystemExit("INFRA: certgen failed: " + p.stderr[-2000:])
    # chain files for the handshake steps (leaf first)
    for ch in CHAINS:
        open(os.path.join(pkidir, "chain_" + "_".join(ch) + ".pem"), "w").write("".join(open(os.path.join(pkidir, c + ".pem")).read() for c in ch))

KEYOF = {c[0]: c[3] for c in CERTS}

def directed():
    """histories written down on purpose: the revocation is honoured, survives an impostor chain, an unauthenticated forged
    CRL is not 'authenticated' by the impostor, a CRL of an intermediate is authenticated through the presented parent"""
    return [
        [("crl", "r1", "root"), ("val", ["leafA"]), ("val", ["leafB"]), ("val", ["fleaf", "fakeroot"]), ("val", ["leafA", "fakeroot"]), ("val", ["leafA"]), ("val", ["leafA", "root"])],
        [("hs", ["leafA"], "T12"), ("crl", "r1", "root"), ("hs", ["leafA"], "T12"), ("hs", ["leafA"], "T13"), ("hs", ["leafB"], "T13"), ("hs", ["fleaf", "fakeroot"], "T12"), ("hs", ["leafA", "root"], "T13")],
        [("crl", "i1", "none"), ("hs", ["leafC", "inter"], "T13"), ("hs", ["leafC", "inter", "root"], "T12"), ("crl", "r13", "root"), ("hs", ["leafC", "inter"], "T12")],
        [("crl", "f2", "none"), ("val", ["leafB"]), ("val", ["fleaf", "fakeroot"]), ("val", ["leafB", "fakeroot"]), ("val", ["leafB"]), ("val", ["leafB", "root"])],
        [("crl", "i1", "root"), ("val", ["leafC", "inter"]), ("val", ["leafC", "inter", "root"]), ("crl", "r13", "root"), ("val", ["leafC", "inter"]), ("val", ["inter"])],
        [("crl", "rx", "root"), ("val", ["leafA"]), ("crl", "r1", "root"), ("val", ["leafA"]), ("crl", "r0", "root"), ("val", ["leafA"]), ("crl", "r1", "none"), ("val", ["leafA"]), ("val", ["leafA", "root"]), ("val", ["leafA"])],
        [("crl", "f2", "root"), ("val", ["leafB"]), ("crl", "r1", "root"), ("val", ["leafB"]), ("val", ["leafA"])],
    ]

def histories(tier, seed):
    rnd = random.Random(seed * 31 + 7)
    H = directed()
    n = 400 if tier == "quick" else 6000
    for _ in range(n):
        h = []
        for _ in range(rnd.randrange(4, 11)):
            x = rnd.random()
            if x < 0.35:
                h.append(("crl", rnd.choice(CRLS)[0], rnd.choice(["root", "root", "none"])))
            elif x < 0.5:
                # the same chain presented by a TLS server to a client that trusts the anchor: the handshake consults the same cache
                h.append(("hs", rnd.choice(CHAINS), rnd.choice(["T12", "T13"])))
            else:
                h.append(("val", rnd.choice(CHAINS)))
        H.append(h)
    return H

def render(h, pkidir, tag):
    L, meta = [], []
    for step in h:
        if step[0] == "crl":
            L.append("crl file=%s%s" % (os.path.join(pkidir, step[1] + ".crl"), "" if step[2] == "none" else " ca=" + os.path.join(pkidir, step[2] + ".pem")))
            meta.append(dict(crl=step[1], ca=step[2]))
        elif step[0] == "hs":
            ch = step[1]
            # the server holds the leaf's key and presents the chain as given (swapcert: the loader itself would refuse an inconsistent one)
            L += ["keys kh id=%s,%s swapcert=%s" % (os.path.join(pkidir, ch[0] + ".pem"), os.path.join(pkidir, KEYOF[ch[0]] + ".key.pem"), os.path.join(pkidir, "chain_" + "_".join(ch) + ".pem")),
                  "keys kv ca=%s" % os.path.join(pkidir, "root.pem"),
                  "new s0 server keys=kh ver=%s" % step[2], "new c0 client keys=kv ver=%s%s" % (step[2], "" if step[2] == "T13" else " suites=0xc02b,0xc02f"),
                  "link c0 s0", "pump c0 s0 max=40", "state c0", "del c0", "del s0", "delkeys kh", "delkeys kv"]
            meta.append(dict(chain=ch, hsver=step[2]))
        else:
            L.append("validate chain=%s ca=%s" % (",".join(os.path.join(pkidir, c + ".pem") for c in step[1]), os.path.join(pkidir, "root.pem")))
            meta.append(dict(chain=step[1]))
    L.append("reset %s" % tag)
    meta.append(dict())
    return L, meta
