#!/usr/bin/env python3
"""C20: concurrent sessions sharing keys and caches are race-free and serializable.  MxConc (lock discipline, ticket
key rotation against resumptions, nested ECDHE-cache -> PRNG locking) is model-checked incl. progress; randomized
multi-threaded scripts run on the ThreadSanitizer build of the library; the merged, stamp-ordered log of every run is
validated against MxConc_Trace."""
import os, sys, json, time, random, subprocess, collections, re
sys.path.insert(0, os.path.dirname(os.path.abspath(__file__)))
import runner, tlcutil
from concurrent.futures import ThreadPoolExecutor

ASSUME = ["data races are decided by ThreadSanitizer (happens-before detector) on a build of the library's own sources with -fsanitize=thread; only the schedules that occur in the runs are examined (randomized by the scripts and by running many processes at once), not all interleavings",
          "the implementation is observed from outside: each operation carries two stamps of a global atomic counter, each mutex acquisition / release one stamp taken while the mutex is held (link-time wrappers of psLockMutex / psUnlockMutex); MxConc's Serializable rule says what such stamps allow one to conclude",
          "threads do not share client-side resumption handles (sslSessionId_t); CRL cache and TLS 1.3 external PSKs are not exercised"]

def script(rnd, nthreads, nops):
    """per-thread operation lists; thread 0 also rotates the session ticket keys.  Every handle has a fixed version
    and suite; the number of full handshakes stays below the size of the session cache (32), so that a session-id
    resumption is never refused because of eviction."""
    L = []
    nextkey = 1; live = [0]; fulls = 0
    for t in range(nthreads):
        kind = ["id", "ticket", "psk", "mixed"][t % 4]
        handles = []
        for j in range(2):
            k = kind if kind != "mixed" else rnd.choice(["id", "ticket", "psk"])
            ver = rnd.choice(["T13", "T13", "T13F"]) if k == "psk" else rnd.choice(["T12", "T12", "T11"])
            suite = {"T12": rnd.choice(["0xc02f", "0x3c", "0xc027"]), "T11": rnd.choice(["0x2f", "0xc013"]), "T13": "0", "T13F": "0"}[ver]
            handles.append(dict(name="%s%d_%d" % ("T" if k == "ticket" else "H", t, j), mode=k, ver=ver, suite=suite, used=False))
        for i in range(nops):
            h = rnd.choice(handles)
            if not h["used"] or (rnd.random() < 0.12 and fulls < 26):
                L.append((t, "conn %s %s %s full" % (h["name"], h["ver"], h["suite"]))); h["used"] = True; fulls += 1
            else:
                L.append((t, "conn %s %s %s %s" % (h["name"], h["ver"], h["suite"], h["mode"])))
            if t == 0 and rnd.random() < 0.45:
                if rnd.random() < 0.55 or len(live) <= 1:
                    L.append((t, "keyadd %d" % nextkey)); live.append(nextkey); nextkey += 1
                else:
                    d = live.pop(0); L.append((t, "keydel %d" % d))
    return ["%d %s" % (t, op) for t, op in L]

def run(tier, seed):
    prop = "C20"
    t0 = time.time()
    rnd = random.Random(seed * 97 + 13)
    bdir = runner.build("tsan")
    p = subprocess.run(["make", "-s", "-f", os.path.join(runner.ROOT, "harness/Makefile"), "B=" + bdir, os.path.join(bdir, "mxthreads")], cwd=runner.ROOT, capture_output=True, text=True)
    if p.returncode != 0:
        print(p.stderr[-3000:]); raise SystemExit("INFRA: mxthreads build failed")
    wd = runner.workdir("check_C20")
    violations = []
    states = trans = 0
    for cfg in ["MxConc_MC.cfg" if tier == "quick" else "MxConc_MC_thorough.cfg"]:
        r = tlcutil.run_tlc("MxConc_MC.tla", cfg, workers=16, timeout=3000, tag="mcC20")
        viol = r["violation"] or ("Temporal properties were violated" in r["out"])
        if viol:
            pth = os.path.join(wd, "model_violation.txt"); open(pth, "w").write(r["out"][-30000:])
            violations.append(("model", str(viol), pth))
        elif not r["ok"]:
            print(r["out"][-3000:]); raise SystemExit("INFRA: TLC failed on MxConc")
        states += r.get("states", 0); trans += r.get("transitions", 0)
    vac = tlcutil.run_tlc("MxConc_MC.tla", "MxConc_MC_vac.cfg", workers=8, timeout=900, tag="mcC20v")
    if not vac["violation"]:
        raise SystemExit("INFRA: vacuity guard NeverBothOutcomes was not violated")
    # the ticket-callback window (lookup + pin / callback without the lock / use + unpin)
    for cfg in ("MxConc_MC_cb.cfg", "MxConc_MC_cblive.cfg"):
        r = tlcutil.run_tlc("MxConc_MC.tla", cfg, workers=16, timeout=1500, tag="mcC20cb")
        viol = r["violation"] or ("Temporal properties were violated" in r["out"])
        if viol:
            pth = os.path.join(wd, "model_violation_cb.txt"); open(pth, "w").write(r["out"][-30000:])
            violations.append(("model", "%s: %s" % (cfg, viol), pth))
        elif not r["ok"]:
            print(r["out"][-3000:]); raise SystemExit("INFRA: TLC failed on MxConc (%s)" % cfg)
        states += r.get("states", 0); trans += r.get("transitions", 0)
    for cfg, what in (("MxConc_MC_flagpin.cfg", "a pin that is a flag instead of a count must let a key be deleted under a second resumption (NoUseOfDeletedKey)"),
                      ("MxConc_MC_cbvac.cfg", "a deletion must be refused somewhere (NeverRefused)")):
        g = tlcutil.run_tlc("MxConc_MC.tla", cfg, workers=8, timeout=900, tag="mcC20g")
        if not g["violation"]:
            raise SystemExit("INFRA: sensitivity / vacuity guard failed: " + what)
    nruns = 24 if tier == "quick" else 300
    jobs = []
    for i in range(nruns):
        nth = rnd.choice([2, 3, 4, 6, 8])
        sp = os.path.join(wd, "t%03d.txt" % i)
        open(sp, "w").write("\n".join(script(rnd, nth, rnd.choice([4, 6, 9]))) + "\n")
        jobs.append((i, sp, os.path.join(wd, "t%03d.nd" % i), nth))
    # overlapping lifetimes: a cache entry shared by the connection that created it and one that resumed it, the
    # table cycled by other connections meanwhile (thread 0), with and without concurrent traffic from other threads
    for extra in (0, 2, 3):
        L = ["0 open 0 HA T12 0xc02f full", "0 open 1 HA T12 0xc02f id", "0 shut 0"]
        L += ["0 open %d HF%d T12 0x3c full" % (2 + j, j) for j in range(31)]
        L += ["0 conn HD T12 0xc02f full", "0 shut 1", "0 conn HD T12 0xc02f id", "0 conn HD T12 0xc02f id"]
        L += ["0 shut %d" % (2 + j) for j in range(31)]
        L += ["0 conn HG T12 0xc02f full", "0 conn HG T12 0xc02f id"]
        for t in range(1, 1 + extra):
            L += ["%d conn TX%d T12 0x3c full" % (t, t)] + ["%d conn TX%d T12 0x3c ticket" % (t, t)] * 6
        i = len(jobs); sp = os.path.join(wd, "t%03d.txt" % i)
        open(sp, "w").write("\n".join(L) + "\n")
        jobs.append((i, sp, os.path.join(wd, "t%03d.nd" % i), 1 + extra))
    # a session ticket callback on the shared key set: resumptions of several threads inside their callbacks (no library lock held)
    # while another thread deletes and reloads the very keys they have found
    for j in range(3 if tier == "quick" else 24):
        nres = rnd.choice([2, 3, 4])
        L = ["0 ticketcb %d" % rnd.choice([200, 400, 800])]
        for t in range(nres):
            L.append("%d conn TA%d T12 0xc02f full" % (t, t))
            L += ["%d conn TA%d T12 %s ticket" % (t, t, "0xc02f")] * rnd.choice([40, 60])
        L.append("%d keyadd 1" % nres)
        for _ in range(60):
            a, b = rnd.choice([500, 1000, 2000, 3000]), rnd.choice([500, 1000, 2000])
            L += ["%d keydel 0" % nres, "%d nap %d" % (nres, a), "%d keyadd 0" % nres, "%d nap %d" % (nres, b),
                  "%d keydel 1" % nres, "%d nap %d" % (nres, a), "%d keyadd 1" % nres, "%d nap %d" % (nres, b)]
        i = len(jobs); sp = os.path.join(wd, "t%03d.txt" % i)
        open(sp, "w").write("\n".join(L) + "\n")
        jobs.append((i, sp, os.path.join(wd, "t%03d.nd" % i), nres + 1))
    # the callback supplies keys the library lacks (it loads them from inside the callback); the rotation thread adds a new key before
    # it deletes the oldest, so that the list is never empty (key ids stay below 13: the harness reads them back from one byte)
    for j in range(2 if tier == "quick" else 12):
        nres = rnd.choice([2, 3])
        L = ["0 ticketcb %d supply" % rnd.choice([200, 400])]
        for t in range(nres):
            L.append("%d conn TS%d T12 0xc02f full" % (t, t))
            L += ["%d conn TS%d T12 0xc02f ticket" % (t, t)] * 40
        L.append("%d keyadd 1" % nres)
        for i in range(40):
            L += ["%d keydel %d" % (nres, i % 13), "%d nap %d" % (nres, rnd.choice([1000, 3000])), "%d keyadd %d" % (nres, (i + 2) % 13), "%d nap 2000" % nres]
        i = len(jobs); sp = os.path.join(wd, "t%03d.txt" % i)
        open(sp, "w").write("\n".join(L) + "\n")
        jobs.append((i, sp, os.path.join(wd, "t%03d.nd" % i), nres + 1))
    # resumptions the server has to decline (extended master secret offered for a session made without it) next to ordinary
    # session-id traffic of other threads: the declining path takes and releases the session table lock like every other
    for j in range(2 if tier == "quick" else 12):
        nth = rnd.choice([2, 3, 4])
        L = []
        for t in range(nth):
            if t == 0:
                L += ["0 conn EA%d T12 0xc02f full" % j, "0 conn EA%d T12 0xc02f idems" % j, "0 conn EB%d T12 0x3c full" % j, "0 conn EB%d T12 0x3c idems" % j] * 3
            else:
                L += ["%d conn HZ%d_%d T12 0xc02f full" % (t, j, t)] + ["%d conn HZ%d_%d T12 0xc02f id" % (t, j, t)] * 6
        i = len(jobs); sp = os.path.join(wd, "t%03d.txt" % i)
        open(sp, "w").write("\n".join(L) + "\n")
        jobs.append((i, sp, os.path.join(wd, "t%03d.nd" % i), nth))
    nruns = len(jobs)
    env = dict(os.environ); env["TSAN_OPTIONS"] = "halt_on_error=0 exitcode=66 second_deadlock_stack=1"
    def one(j):
        i, sp, tp, nth = j
        try:
            q = subprocess.run([os.path.join(bdir, "mxthreads"), sp, tp], capture_output=True, text=True, timeout=600, env=env)
            return j, q.returncode, q.stderr
        except subprocess.TimeoutExpired:
            return j, -9, "TIMEOUT (deadlock?)"
    with ThreadPoolExecutor(max_workers=6) as ex:      # several multi-threaded processes at once perturb the schedules
        res = list(ex.map(one, jobs))
    races = collections.Counter(); nvalid = 0; tstates = 0; stats = collections.Counter(); distinct = set(); lockorders = set()
    for (i, sp, tp, nth), rc, err in res:
        if rc not in (0, 66):
            rp = runner.save_replay(prop, "run%03d" % i, open(sp).read().splitlines())
            violations.append(("crash", "mxthreads ended with rc=%s (%d threads): %s" % (rc, nth, " ".join(x.strip() for x in err.splitlines() if "ERROR" in x or "TIMEOUT" in x or "#0" in x)[:300]), rp)); continue
        for m in re.finditer(r"SUMMARY: ThreadSanitizer: ([a-z -]+) (?:\(.*?\) )?/repo/([^ :]+):(\d+) in ([A-Za-z0-9_]+)", err):
            races[(m.group(1).strip(), m.group(4), m.group(2))] += 1
        for m in re.finditer(r"SUMMARY: ThreadSanitizer: (lock-order-inversion[^\n]*)", err):
            races[("lock-order-inversion", m.group(1)[:80], "")] += 1
        if rc == 66 and not re.search(r"SUMMARY: ThreadSanitizer", err):
            races[("tsan", "unparsed report", "")] += 1
        L = [json.loads(x) for x in open(tp)]
        L.sort(key=lambda d: d["t0"])
        tps = tp + "s"; open(tps, "w").write("\n".join(json.dumps(d) for d in L) + "\n")
        v = tlcutil.validate_trace(tps, "MxConc_Trace.tla", "MxConc_Trace.cfg", 1800)
        if v["infra"]:
            print(v["out"][-3000:]); raise SystemExit("INFRA: TLC failed on %s" % tps)
        tstates += v["states"]
        m = re.search(r'"LOCK_ORDER", (\{.*?\})\s*>>', v["out"], re.S)
        if m: lockorders.add(re.sub(r"\s+", "", m.group(1))[:200])
        for ln in v["rejects"][:3]:
            d = L[ln - 1]
            rp = runner.save_replay(prop, "run%03d" % i, open(sp).read().splitlines())
            violations.append(("trace", "line %d of run %d (%d threads) rejected by MxConc_Trace: %s" % (ln, i, nth, json.dumps(d)[:400]), rp))
        if not v["rejects"]: nvalid += 1
        for d in L:
            if d["op"] == "conn":
                stats["connections"] += 1; stats["resumed" if d["ress"] else "not resumed"] += 1
                distinct.add((d["ver"], d["want"], d["ress"], d["hc"]))
            elif d["op"] in ("keyadd", "keydel"):
                stats["key rotations"] += 1
                if d["op"] == "keydel" and d["rcn"] < 0: stats["key deletions refused (key in use)"] += 1
            elif d["op"] == "cb": stats["ticket callback invocations"] += 1
            elif d["op"] == "lock": stats["mutex acquisitions"] += 1
    known = runner.load_known(prop); known_hit = {}
    for (kind, fn, fl), n in races.items():
        sig = {"kind": kind, "site": fn, "file": fl}
        k = runner.match_known(sig, known)
        if k:
            known_hit[k["id"]] = k; continue
        rp = os.path.join(wd, "tsan_%s.txt" % fn)
        violations.append(("tsan", "%s in %s (%s), reported %d times" % (kind, fn, fl, n), rp))
    for k in known_hit.values():
        print("KNOWN-FINDING: property=%s %s" % (prop, k["what"]))
    for kind, text, rp in violations[:40]:
        print("VIOLATION property=%s replay=%s" % (prop, rp)); print("  (%s) %s" % (kind, text[:700]))
    cov = {"states": states, "transitions": trans, "traces_validated_against_impl": nvalid,
           "samples": [open(jobs[0][1]).read().splitlines()[:12]], "evaluations": nruns, "distinct_nontrivial": len(distinct),
           "rule": "evaluation = one multi-threaded run (2-8 threads, 4-9 operations each: full handshakes, resumption by session id / ticket / TLS 1.3 PSK over TLS 1.1-1.3, data both ways, closure, deletion; thread 0 also adds / deletes session ticket keys of the shared key set; TLS 1.3 with ECDHE or ffdhe2048 key shares; runs with a session ticket callback registered, resumptions inside their callbacks while another thread deletes and reloads the keys they found) under ThreadSanitizer, 6 runs at a time; distinct_nontrivial = distinct (version, wanted mode, resumed?, completed?)",
           "observations": dict(stats), "lock_orders_seen": sorted(lockorders), "trace_states_checked": tstates, "known_findings_reported": sorted(known_hit), "exhaustive": False}
    runner.write_evidence(prop, tier, seed, "model_checking", cov, time.time() - t0, len(violations), ASSUME)
    return 1 if violations else 0
