#!/usr/bin/env python3
"""Mirror of MxX509_MC's scenario universe (Chains x AnchorSets x two deviations at any position) with a
concretisation of every abstract certificate through harness/certgen (OpenSSL)."""
import copy, hashlib, json, os, subprocess, itertools, random

def base(id_, n, i, k, s, ca):
    return dict(id=id_, n=n, i=i, k=k, s=s, sg=id_, bc="ca" if ca else "notca", pl=-1, ku="sign" if ca else "nosign",
                val="ok", cu=False, alg="sha256", aki="none", ski=False, eku="none")

ROOT = base("root", "R", "R", "kR", "kR", True)
INT1 = base("int1", "I1", "R", "kI1", "kR", True)
INT2 = base("int2", "I2", "I1", "kI2", "kI1", True)
EVIL = dict(base("evil", "E", "X", "kE", "kE", True), sg="root")
ROOT2 = base("root2", "R2", "R2", "kR2", "kR2", True)
def leaf(iss, sk): return base("leaf", "L", iss, "kL", sk, False)

CHAINS = [[leaf("R", "kR")], [leaf("I1", "kI1"), INT1], [leaf("I2", "kI2"), INT2, INT1], [leaf("I1", "kI1"), INT1, ROOT],
          [leaf("E", "kE"), EVIL], [INT1, leaf("I1", "kI1")], [leaf("I2", "kI2"), INT1]]
ANCHORS = [[ROOT], [ROOT2, ROOT], [INT1], [ROOT2], []]
DEVS = [("s", "0"), ("s", "kE"), ("sg", "root"), ("i", "Z"), ("bc", "notca"), ("bc", "none"), ("bc", "ca"), ("pl", 0), ("pl", 1),
        ("ku", "none"), ("ku", "nosign"), ("ku", "sign"), ("val", "exp"), ("val", "nyv"), ("cu", True), ("alg", "md5"), ("alg", "sha1"),
        ("aki", "match"), ("aki", "mismatch"), ("ski", True), ("eku", "othercrit"), ("eku", "tls"), ("none", 0)]

def mod(c, d):
    f, v = d
    c2 = dict(c)
    if f != "none":
        c2[f] = v
    if f not in ("none", "s", "sg"):
        c2["id"] = c["id"] + "'"
        c2["sg"] = c["id"] + "'" if c["sg"] == c["id"] else c["sg"]
    return c2

def apply_at(ch, an, p, d):
    ch, an = list(ch), list(an)
    if p <= len(ch):
        ch[p - 1] = mod(ch[p - 1], d)
    elif p - len(ch) <= len(an):
        an[p - len(ch) - 1] = mod(an[p - len(ch) - 1], d)
    return ch, an

def scenarios():
    seen = set()
    for ch in CHAINS:
        for an in ANCHORS:
            for p1 in range(1, 5):
                for d1 in DEVS:
                    c1, a1 = apply_at(ch, an, p1, d1)
                    for p2 in range(1, 5):
                        for d2 in DEVS:
                            c2, a2 = apply_at(c1, a1, p2, d2)
                            key = json.dumps([c2, a2], sort_keys=True)
                            if key not in seen:
                                seen.add(key)
                                yield c2, a2

# ---- concretisation -------------------------------------------------------------------------------
def cert_name(c):
    return "c" + hashlib.sha1(json.dumps(c, sort_keys=True).encode()).hexdigest()[:14]

def sig_source(c, universe):
    """the certificate whose signature octets c carries when sg is not its own id"""
    for u in universe:
        if u["id"] == c["sg"] and u["sg"] == u["id"]:
            return u
    return None

def certgen_line(c, universe):
    ktype = {}
    name = cert_name(c)
    signkey = c["s"] if c["s"] != "0" else c["k"]
    parts = ["cert", name, "subj=" + c["n"], "iss=" + c["i"], "key=" + c["k"], "signkey=" + signkey]
    parts.append("ca=" + {"ca": "1", "notca": "0", "none": "-"}[c["bc"]])
    if c["pl"] >= 0 and c["bc"] == "ca":
        parts.append("pathlen=%d" % c["pl"])
    parts.append("ku=" + {"none": "-", "sign": "certSign", "nosign": "digSig"}[c["ku"]])
    if c["val"] == "exp": parts += ["nb=-730", "na=-365"]
    elif c["val"] == "nyv": parts += ["nb=365", "na=730"]
    if c["cu"]: parts.append("critunk=1")
    if c["alg"] != "sha256": parts.append("md=" + c["alg"])
    if c["aki"] != "none": parts.append("aki=" + c["aki"])
    if c["ski"]: parts.append("ski=1")
    if c["eku"] == "othercrit": parts += ["eku=other", "ekucrit=1"]
    elif c["eku"] == "tls": parts.append("eku=server")
    pre = []
    if c["s"] == "0":
        parts.append("sig=corrupt")
    elif c["sg"] != c["id"]:
        src = sig_source(c, universe)
        if src is not None:
            pre += certgen_line(src, universe)[0] + [certgen_line(src, universe)[1]]
            parts.append("sig=copy:" + cert_name(src))
        else:
            parts.append("sig=corrupt")
    return pre, " ".join(parts)

KEYS = ["kR", "kI1", "kI2", "kE", "kR2", "kL"]

def materialise(scens, pkidir, certgen, fam="rsa"):
    """fam: the key family of every key pair of the universe - rsa (2048), ec (P-256) or ed (Ed25519)"""
    os.makedirs(pkidir, exist_ok=True)
    pss = fam == "pss"            # rsaEncryption keys, every certificate signed with RSASSA-PSS
    if pss: fam = "rsa"
    lines = ["key %s %s" % (k, fam) for k in KEYS]
    done = set()
    universe = [ROOT, INT1, INT2, EVIL, ROOT2]
    for ch, an in scens:
        for c in list(ch) + list(an):
            nm = cert_name(c)
            if nm in done:
                continue
            done.add(nm)
            pre, ln = certgen_line(c, universe + list(ch) + list(an))
            for p in pre:
                if p.split()[1] not in done:
                    done.add(p.split()[1]); lines.append(p + (" pad=pss" if pss else ""))
            lines.append(ln + (" pad=pss" if pss else ""))
    p = subprocess.run([certgen, pkidir], input="\n".join(lines) + "\n", capture_output=True, text=True)
    if p.returncode != 0:
        raise SystemExit("INFRA: certgen failed: " + p.stderr[-2000:])
    return len(done)

def script_lines(scens, pkidir, prefix="X"):
    out, meta = [], {}
    for idx, (ch, an) in enumerate(scens):
        tag = "%s%d" % (prefix, idx)
        chain = ",".join(os.path.join(pkidir, cert_name(c) + ".pem") for c in ch)
        ca = ",".join(os.path.join(pkidir, cert_name(c) + ".pem") for c in an)
        out.append("validate chain=%s ca=%s tag=%s" % (chain, ca, tag))
        meta[tag] = dict(chain=ch, anchors=an)
    return out, meta
