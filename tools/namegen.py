#!/usr/bin/env python3
"""C05 scenarios: leaf certificates with generated subjectAltName lists / common names, expected names, and the
abstract description (labels, wildcard kinds, flags) that MxName works on."""
import itertools, hashlib, os, subprocess, random

def absname(kind, s, san=False):
    """abstract view of a concrete name string (bytes allowed through \\x escapes in s)"""
    tnul = False
    if san and len(s) > 1 and s.endswith("\x00") and kind in ("dns", "email", "uri"):
        # CStringSan: the library deliberately reads an IA5String GeneralName that ends in ONE zero byte as the C string
        # before it (x509.c parseGeneralNames, "Allow single terminating zero byte"); any other NUL makes the name bad
        tnul = True
        s = s[:-1]
    bad = any(ord(c) < 0x20 or ord(c) == 0x7f for c in s)
    tdot = False
    loc = ""
    host = s
    if kind == "email":
        if "@" in s:
            loc, host = s.split("@", 1)
        else:
            bad = True
    if kind in ("dns", "email") and host.endswith(".") and len(host) > 1:
        tdot = True
        host = host[:-1]
    labs = host.lower().split(".") if kind in ("dns", "email", "ip") else [s]
    # "odd": a label of a host-kind name that is no DNS label (here: contains '@') - it can be compared literally, but a
    # wildcard, which stands for one DNS label, cannot stand for it
    lk = ["wild" if l == "*" else ("part" if "*" in l else ("odd" if (kind == "dns" and "@" in l) else "lit")) for l in labs]
    if kind == "none":
        labs, lk = [], []
    return dict(kind=kind, lab=labs, lk=lk, loc=loc, locl=loc.lower(), bad=bad, tdot=tdot, tnul=tnul)

def hx(s):
    return s.encode("latin1").hex()

SAN_POOL = [("dns", "www.a.t"), ("dns", "*.b.t"), ("dns", "a.t"), ("dns", "w*.a.t"), ("dns", "*.*.t"), ("dns", "a.*.t"),
            ("dns", "WWW.C.T"), ("dns", "*.t"), ("dns", "www.a.t."), ("dns", "ww\x01w.a.t"), ("dns", "a.t\x00"), ("dns", "a.t\x00\x00"), ("dns", "a\x00.t"),
            ("email", "u@a.t"), ("email", "U@B.T"), ("ip", "\x01\x02\x03\x04"), ("uri", "http://www.a.t/"),
            # an address whose dotted form has the full 15 characters, and a 16-octet (IPv6) address that starts like an IPv4 one
            ("ip", "\xc0\xa8\x64\xc8"), ("ip", "\x0a\x14\x1e\x28" + "\x00" * 11 + "\x01")]
CN_POOL = [None, "www.d.t", "*.d.t", "www.a.t", "x.b.t"]
EXPECTED = [("dns", "www.a.t"), ("dns", "WWW.A.T"), ("dns", "x.b.t"), ("dns", "x.y.b.t"), ("dns", "b.t"), ("dns", ".b.t"), ("dns", "a.t"),
            ("dns", "wx.a.t"), ("dns", "www.c.t"), ("dns", "www.d.t"), ("dns", "x.d.t"), ("dns", "x.y.t"), ("dns", "a.x.t"), ("dns", "x.t"),
            ("dns", "www.a.t."), ("dns", "t"), ("dns", "evil.t"), ("dns", "xwww.a.t"), ("dns", "www.a.tx"),
            # e-mail shaped names checked as host names: "u@x" is no DNS label a wildcard could stand for
            ("dns", "u@x.b.t"), ("dns", "u@b.t"), ("dns", "u@x.d.t"),
            ("email", "u@a.t"), ("email", "U@a.t"), ("email", "u@A.T"), ("email", "u@b.t"), ("email", "v@a.t"),
            ("ip", "1.2.3.4"), ("ip", "1.2.3.44"), ("ip", "1.2.3.5"),
            ("ip", "192.168.100.200"), ("ip", "192.168.100.20"), ("ip", "192.168.100.2"), ("ip", "10.20.30.40")]

def ip_abs(s):
    # SAN iPAddress octets -> dotted labels
    return dict(kind="ip", lab=[str(ord(c)) for c in s], lk=["lit"] * len(s), loc="", locl="", bad=False, tdot=False, tnul=False)

def san_abs(kind, s):
    return ip_abs(s) if kind == "ip" else absname(kind, s, san=True)

def cert_sets(tier, seed):
    rnd = random.Random(seed)
    lists = [[]] + [[a] for a in SAN_POOL]
    pairs = [list(p) for p in itertools.permutations(SAN_POOL, 2)]
    triples = [list(p) for p in itertools.permutations([e for e in SAN_POOL if e[1] not in ('www.a.t.', 'ww\x01w.a.t', 'a.t\x00\x00', 'a\x00.t', 'http://www.a.t/')], 3)]
    if tier == "quick":
        rnd.shuffle(pairs); rnd.shuffle(triples)
        # keep both orders of every sampled pair/triple so that order independence is exercised
        pp = []
        nulfirst = [p for p in pairs if p[0] == ("dns", "a.t\x00")][:8]
        for p in pairs[:40] + nulfirst:
            pp += [p, list(reversed(p))]
        tt = []
        for t in triples[:30]:
            tt += [t, [t[2], t[0], t[1]], list(reversed(t))]
        lists += pp + tt
        cns = CN_POOL
    else:
        lists += pairs + triples
        cns = CN_POOL
    out = []
    for sl in lists:
        for cn in cns:
            if sl and cn not in (None, "www.d.t", "www.a.t") and tier == "quick":
                continue
            out.append((sl, cn))
    return out

def cert_id(sl, cn):
    return "n" + hashlib.sha1(repr((sl, cn)).encode("latin1", "replace")).hexdigest()[:14]

def materialise(csets, pkidir, certgen):
    os.makedirs(pkidir, exist_ok=True)
    lines = ["key nR ec", "key nL ec", "cert nroot subj=NR iss=NR key=nR signkey=nR ca=1 ku=certSign"]
    for sl, cn in csets:
        parts = ["cert", cert_id(sl, cn), "subj=leaf", "iss=NR", "key=nL", "signkey=nR", "ca=0", "ku=digSig"]
        if sl:
            parts.append("sanraw=" + ",".join("%s:%s" % (k, hx(v)) for k, v in sl))
        if cn is None:
            parts.append("nocn=1")
        else:
            parts.append("cnhex=" + hx(cn))
        lines.append(" ".join(parts))
    p = subprocess.run([certgen, pkidir], input="\n".join(lines) + "\n", capture_output=True, text=True)
    if p.returncode != 0:
        raise SystemExit("INFRA: certgen failed: " + p.stderr[-2000:])

NAME_TYPES = ["any", "host", "cn", "dns", "email", "ip"]

def views(e):
    """the expected string read as a name of each kind (MxName.MatchOpt's v)"""
    return dict(dns=absname("dns", e), email=absname("email", e), ip=absname("ip", e))

def optfields(nt, mflags, vflags):
    return dict(nt=nt, cnalways=bool(mflags & 1), ci=bool(mflags & 2), gnv=bool(vflags & 1), skip=bool(vflags & 2), mflags=mflags, vflags=vflags)

def esc_name(e):
    return "".join(c if 0x21 <= ord(c) < 0x7f and c != "%" else "%%%02x" % ord(c) for c in e)

def rand_opts(rnd):
    nt = rnd.choice(NAME_TYPES)
    mflags = rnd.choice([0, 0, 1, 2, 3])
    vflags = rnd.choice([0, 0, 0, 0, 0, 1, 2])
    return nt, mflags, vflags

def name_meta(sl, cn, e, nt, mflags, vflags, layer):
    m = dict(v=views(e), sans=[san_abs(k, v) for k, v in sl], cn=absname("dns", cn) if cn is not None else absname("none", ""),
             xs=e, sansrc=[[k, v.encode("latin1").hex()] for k, v in sl], cnsrc=cn, layer=layer)
    m.update(optfields(nt, mflags, vflags))
    return m

def scripts(csets, pkidir, seed=0, extra_per_cert=6):
    """direct calls of matrixValidateCertsExt: every expected name with the name type that goes with its kind, plus
    extra_per_cert calls per certificate with a random name type / flag setting"""
    rnd = random.Random(seed * 7919 + 5)
    lines, meta = [], {}
    n = 0
    for sl, cn in csets:
        todo = [(e, {"dns": "host", "email": "email", "ip": "ip"}[kind], 0, 0) for kind, e in EXPECTED]
        for _ in range(extra_per_cert):
            todo.append((rnd.choice(EXPECTED)[1],) + rand_opts(rnd))
        for e, nt, mflags, vflags in todo:
            tag = "N%d" % n; n += 1
            lines.append("validate chain=%s ca=%s name=%s ntype=%s mflags=%d vflags=%d tag=%s" % (os.path.join(pkidir, cert_id(sl, cn) + ".pem"),
                         os.path.join(pkidir, "nroot.pem"), esc_name(e), nt, mflags, vflags, tag))
            meta[tag] = name_meta(sl, cn, e, nt, mflags, vflags, "api")
    return lines, meta

def session_scripts(csets, pkidir, tier, seed):
    """the same question asked through the session API: a server presenting the generated leaf, a client created with
    matrixSslNewClientSession(expectedName, options.validateCertsOpts) - TLS 1.2 and TLS 1.3, with and without a
    certificate callback that passes the library's verdict through.  One episode (up to `reset`) per certificate;
    returns [(lines, [meta per client state line])]"""
    rnd = random.Random(seed * 104729 + 11)
    ncert = 60 if tier == "quick" else 400
    per = 10 if tier == "quick" else 24
    # certificates whose parsing succeeds only (a leaf the server cannot load proves nothing): skip control characters / NUL forms
    usable = [(sl, cn) for sl, cn in csets if not any(any(ord(c) < 0x20 for c in v) and k != "ip" for k, v in sl)]
    rnd.shuffle(usable)
    # always: no SAN at all with each CN, single interesting entries
    first = [c for c in usable if not c[0]] + [c for c in usable if len(c[0]) == 1 and c[1] in (None, "www.a.t")]
    chosen = []
    for c in first + usable:
        if c not in chosen:
            chosen.append(c)
        if len(chosen) >= ncert:
            break
    eps = []
    for sl, cn in chosen:
        lines = ["keys ks id=%s,%s" % (os.path.join(pkidir, cert_id(sl, cn) + ".pem"), os.path.join(pkidir, "nL.key.pem")),
                 "keys kc ca=%s" % os.path.join(pkidir, "nroot.pem")]
        metas = []
        names = [v for k, v in sl if k in ("dns", "email") and all(0x20 < ord(c) < 0x7f for c in v) and "*" not in v]
        if cn and "*" not in cn:
            names.append(cn)
        for i in range(per):
            # half of the expected names are ones the certificate does carry (possibly only under some options)
            if names and i % 2 == 0:
                e = rnd.choice(names)
                if rnd.random() < 0.3:
                    e = e.swapcase()
            else:
                e = rnd.choice(EXPECTED)[1]
            if i < 3:
                nt, mflags, vflags = [("dns", 1, 0), ("any", 0, 0), ("host", 1, 0)][i]      # an illegal combination, the legacy default, CnAlways
            else:
                nt, mflags, vflags = rand_opts(rnd)
            ver = "T13" if (i + len(eps)) % 2 else "T12"
            cb = rnd.choice(["", "", " cb=strict"])
            lines += ["new s%d server keys=ks ver=%s" % (i, ver),
                      "new c%d client keys=kc ver=%s name=%s ntype=%s mflags=%d vflags=%d%s" % (i, ver, esc_name(e), nt, mflags, vflags, cb),
                      "link c%d s%d" % (i, i), "pump c%d s%d max=40" % (i, i), "state c%d" % i, "del c%d" % i, "del s%d" % i]
            m = name_meta(sl, cn, e, nt, mflags, vflags, "session")
            m["ver"] = ver; m["cb"] = cb.strip()
            metas.append(m)
        lines.append("reset S%d" % len(eps))
        eps.append((lines, metas))
    return eps
