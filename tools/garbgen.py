#!/usr/bin/env python3
"""C08 scenarios: structure-aware and random mutations of real transcripts at every stop point of every
configuration, for both roles: byte flips, length-field edits, truncations, garbage, injected records of every
type, records forged under the session keys with random content, re-framing / duplication / deletion / swapping of
handshake messages, combinations of these, each followed by further traffic, closure and deletion."""
import random
import sessgen

def rhex(rnd, n):
    return "".join("%02x" % rnd.randrange(256) for _ in range(n))

def mutation(rnd, dtls):
    """returns (name, [lines with {X} {T}])"""
    kind = rnd.choice(["flip", "flip", "flips", "lenfield", "hslen", "trunc", "garbage", "injectrec", "injectrec", "forge", "forge", "hsedit", "combo", "dupswap", "bigrec", "cut"]
                      + (["fraghdr", "fraghdr", "fraglie", "fraglie", "fraglie"] if dtls else []))
    hl = 13 if dtls else 5
    if kind == "fraglie":
        # a later fragment claims a longer message than the first one did, and a place beyond what was announced
        i = rnd.randrange(1, 5)
        return "fraglie", ["mod {X} %d %d %s" % (i, hl + rnd.choice([1, 2]), hex(rnd.choice([1, 2, 4, 0x10]))),
                           "mod {X} %d %d %s" % (i, hl + rnd.choice([7, 7, 6]), hex(rnd.choice([1, 2, 4, 8, 0x10, 0x20])))]
    if kind == "fraghdr":
        # DTLS handshake header of one of the queued fragments: length (3), message_seq (2), fragment_offset (3), fragment_length (3)
        return "fraghdr", ["mod {X} %d %d %s" % (rnd.randrange(0, 5), hl + 1 + rnd.randrange(11), hex(rnd.choice([1, 2, 4, 0x10, 0x80, 0xff]))) for _ in range(rnd.choice([1, 1, 2]))]
    if kind == "cut":
        # the sender writes application data (lengths that give every padding length), then whole 16- or 8-byte blocks are
        # cut out of the record so that its tail follows an earlier block: short records with well-formed endings
        d = rnd.choice([0, 1, 3, 11, 12, 13, 14, 15, 16, 27, 28, 29, 30, 31, 32, 40, 60, 100])
        blk = rnd.choice([16, 16, 16, 8])
        return "cut", ["send {X} %d" % d, "flush {X}", "cut {X} -1 %d %d fix=1" % (hl + blk * rnd.choice([0, 0, 1, 2]), blk * rnd.choice([1, 1, 2, 3, 4]))]
    if kind == "flip":
        return "flip", ["mod {X} 0 %d %s" % (rnd.choice([0, 1, 2, 3, 4, hl, hl + 1, hl + 2, hl + 3, hl + 4, hl + 5, rnd.randrange(0, 400), -1, -2, -16, -17]), hex(rnd.choice([1, 2, 0x80, 0xff, 0x40])))]
    if kind == "flips":
        return "flips", ["mod {X} 0 %d %s" % (rnd.randrange(0, 300), hex(rnd.randrange(1, 256))) for _ in range(rnd.choice([2, 3, 6]))]
    if kind == "lenfield":
        return "lenfield", ["mod {X} 0 %d %s" % (hl - 2 + rnd.randrange(2), hex(rnd.choice([1, 0x80, 0x40, 0xff, 3])))]
    if kind == "hslen":
        return "hslen", ["mod {X} 0 %d %s" % (hl + 1 + rnd.randrange(3), hex(rnd.choice([1, 0x80, 0xff, 2])))] + (["mod {X} 0 %d 0x1" % (hl + 9 + rnd.randrange(3))] if dtls else [])
    if kind == "trunc":
        return "trunc", ["trunc {X} 0 %d fix=%d" % (rnd.choice([1, 2, 4, 5, 6, 9, 10, 20, 40, -1, -2, -17]), rnd.randrange(2))]
    if kind == "garbage":
        return "garbage", ["inject {X} 0 %s" % rhex(rnd, rnd.choice([1, 2, 5, 13, 30, 100, 200]))]
    if kind == "injectrec":
        t = rnd.choice([20, 21, 22, 23, 24, 0, 99, 255])
        n = rnd.choice([0, 1, 2, 3, 4, 8, 16, 33, 100, 300])
        return "injectrec", ["injectrec {X} 0 %d %d body=%s" % (t, n, rhex(rnd, n))] if n else ["injectrec {X} 0 %d 0" % t]
    if kind == "bigrec":
        return "bigrec", ["injectrec {X} 0 %d %d" % (rnd.choice([22, 23, 21]), rnd.choice([16384, 16385, 17000, 18432, 18433, 20000]))]
    if kind == "forge":
        t = rnd.choice([22, 22, 22, 21, 20, 23])
        n = rnd.choice([0, 1, 2, 4, 5, 8, 12, 40, 64, 200])
        if t == 22:
            h = rnd.choice([0, 1, 2, 3, 4, 5, 8, 11, 12, 13, 14, 15, 16, 20, 22, 24, 67, 254])
            return "forge-hs", ["forge {X} 0 22 %d hs=%d body=%s" % (max(n, 4), h, "%02x" % h + rhex(rnd, max(n, 4) - 1))]
        return "forge", ["forge {X} 0 %d %d body=%s" % (t, n, rhex(rnd, n))] if n else ["forge {X} 0 %d 0" % t]
    if kind == "hsedit":
        return "hsedit", ["hsedit {X} %s %d %d" % (rnd.choice(["del", "dup", "swap", "split"]), rnd.randrange(4), rnd.randrange(4))]
    if kind == "dupswap":
        return "dupswap", [rnd.choice(["dup {X} 0", "swap {X} 0 1", "drop {X} 0", "replay {X} 0 %d" % rnd.randrange(-4, 6), "reflect {T} %d" % rnd.randrange(-3, 3)])]
    a = mutation(rnd, dtls); b = mutation(rnd, dtls)
    return "combo", a[1] + b[1]

CONTS = [["pump c0 s0 max=8"], ["send {T} 7", "send {X} 9", "pump c0 s0 max=8", "close {T}", "pump c0 s0 max=4"],
         ["pump c0 s0 max=3", "close {X}", "pump c0 s0 max=4", "send {T} 3"], ["del {T}"], ["timeout {T}", "timeout {X}", "pump c0 s0 max=8"]]

def episodes(tier, seed):
    rnd = random.Random(seed * 2654435761 % (2 ** 31))
    E = []
    n = {"quick": 9600, "thorough": 96000}[tier]
    C = sessgen.cfgs()
    # DTLS configurations again with a small path MTU, so that handshake messages travel as fragments
    for c in list(C):
        if c["name"].startswith("D"):
            for mtu in (300, 600):
                C.append(dict(c, name=c["name"] + "-pmtu%d" % mtu, ks="pmtu %d\n%s" % (mtu, c["ks"])))
    for i in range(n):
        cfg = C[i % len(C)]
        dtls = cfg["name"].startswith("D")
        k = rnd.randrange(0, 14)
        target = rnd.choice(["c0", "s0"])
        name, lines = mutation(rnd, dtls)
        nm2, l2 = ("", [])
        if rnd.random() < 0.3:
            nm2, l2 = mutation(rnd, dtls)
        cont = rnd.choice(CONTS)
        act = (name + ("+" + nm2 if nm2 else ""), lines)
        L = sessgen.episode_lines(cfg, k, target, act, ("c", cont), "G%d" % i, dtls)
        if l2:
            # a second mutation on whatever is queued after the first delivery
            X = "s0" if target == "c0" else "c0"
            idx = len(L) - 1 - len(cont)
            L = L[:idx] + ["flush %s" % X] + [x.format(X=X, T=target) for x in l2] + ["deliver %s 1" % X] + L[idx:]
        E.append(dict(id="G%d" % i, cfg=cfg["name"], k=k, target=target, act=act[0], lines=L[:-1]))
    # directed: every handshake message of every flight once more (a repeated message must be refused - and must not leave
    # allocations of the first copy behind), for every configuration, stop point and receiving role
    i = n
    for cfg in C:
        dtls = cfg["name"].startswith("D")
        for k in range(0, 6):
            for target in ("c0", "s0"):
                for idx in range(0, 6):
                    act = ("hsdup%d" % idx, ["hsedit {X} dup %d" % idx])
                    cont = CONTS[1] if idx % 2 else CONTS[3]
                    L = sessgen.episode_lines(cfg, k, target, act, ("c", cont), "G%d" % i, dtls)
                    E.append(dict(id="G%d" % i, cfg=cfg["name"], k=k, target=target, act=act[0], lines=L[:-1]))
                    i += 1
    return E

def render(eps, start):
    L = []
    for e in eps:
        L += e["lines"] + ["reset %s" % e["id"]]
    return L
