#!/usr/bin/env python3
"""C18 scenarios: the same TLS traffic under different partitions of both byte streams."""
import random

TK = "/repo/testkeys"
RSA = ("%s/RSA/2048_RSA.pem,%s/RSA/2048_RSA_KEY.pem" % (TK, TK), "%s/RSA/2048_RSA_CA.pem" % TK)
EC = ("%s/EC/256_EC.pem,%s/EC/256_EC_KEY.pem" % (TK, TK), "%s/EC/256_EC_CA.pem" % TK)

def scenarios():
    S = []
    srv = "keys ks id=%s ca=%s tickets=1 psk=1" % RSA
    cli = "keys kc ca=%s psk=1" % RSA[1]
    cli_id = "keys kc id=%s ca=%s" % RSA
    cli_badca = "keys kc ca=%s" % EC[1]
    def add(name, ks, kc, so, co, prelude=False, sends=((20000, 7),), fail=None, early=False):
        S.append(dict(name=name, ks=ks, kc=kc, so=so, co=co, prelude=prelude, sends=sends, fail=fail, early=early))
    add("T12-ecdhe-gcm", srv, cli, "ver=T12", "ver=T12 suites=0xc02f", sends=((20000, 7), (1, 16385)))
    add("T12-rsa-cbc", srv, cli, "ver=T12", "ver=T12 suites=0x3c", sends=((100, 40000),))
    add("T11-rsa-cbc", srv, cli, "ver=T11", "ver=T11 suites=0x2f", sends=((16384, 16384),))
    add("T13-full", srv, cli, "ver=T13", "ver=T13", sends=((20000, 7), (3, 3)))
    add("T13-chacha", "keys ks id=%s ca=%s" % EC, "keys kc ca=%s" % EC[1], "ver=T13", "ver=T13 suites=0x1303", sends=((5, 33000),))
    add("T12-resumed-id", "keys ks id=%s ca=%s" % RSA, cli, "ver=T12", "ver=T12 suites=0xc02f sid=R", prelude=True)
    add("T12-resumed-ticket", srv, cli, "ver=T12", "ver=T12 suites=0xc02f sid=R tick=1", prelude=True)
    add("T13-psk-resumed", srv, cli, "ver=T13", "ver=T13 sid=R", prelude=True)
    add("T12-cauth", srv, cli_id, "ver=T12 cb=strict", "ver=T12 suites=0xc02f")
    add("T13-cauth", srv, cli_id, "ver=T13 cb=strict", "ver=T13")
    add("T13cap-neg12", srv, cli, "ver=T12", "ver=T13,T12,T11")
    add("T12-fail-unknown-ca", srv, cli_badca, "ver=T12", "ver=T12 suites=0xc02f", sends=())
    add("T13-fail-unknown-ca", srv, cli_badca, "ver=T13", "ver=T13", sends=())
    add("T12-fail-no-suite", srv, cli, "ver=T12 nosuites=0xc02f", "ver=T12 suites=0xc02f", sends=())
    add("T12-fail-corrupt-finished", srv, cli, "ver=T12", "ver=T12 suites=0xc02f", sends=(), fail="corrupt")
    add("T12-psk", srv, cli, "ver=T12", "ver=T12 suites=0xae", sends=((300, 300),))
    add("T13-early-data", srv, cli, "ver=T13 early=16384", "ver=T13 sid=R", prelude=True, early=True)
    # middlebox-compatibility ChangeCipherSpec records (plaintext, to be ignored) in front of protected records, as other stacks send
    # them: one and two of them, behind the ClientHello, in front of the client's Finished flight and in front of application data
    for n in (1, 2):
        add("T13-ccs%d" % n, srv, cli, "ver=T13", "ver=T13", sends=((34, 20), (3, 3)))
        S[-1]["ccs"] = n
        add("T13-ccs%d-early-data" % n, srv, cli, "ver=T13 early=16384", "ver=T13 sid=R", prelude=True, early=True)
        S[-1]["ccs"] = n
    # the server application speaks first (its data travels right behind its Finished), then the session is resumed
    for nm, so, co in (("T12-server-first+resume", "ver=T12", "ver=T12 suites=0xc02f sid=Q"), ("T12-server-first+ticket-resume", "ver=T12", "ver=T12 suites=0x3c sid=Q tick=1"),
                       ("T13-server-first+resume", "ver=T13", "ver=T13 sid=Q"), ("T11-server-first+resume", "ver=T11", "ver=T11 suites=0x2f sid=Q")):
        add(nm, srv, cli, so, co, sends=((0, 10),))
        S[-1]["speakfirst"] = True
    return S

def run_lines(sc, pump):
    L = [sc["ks"], sc["kc"]]
    if sc.get("speakfirst"):
        L += ["new s0 server keys=ks %s" % sc["so"], "new c0 client keys=kc %s" % sc["co"], "link c0 s0",
              "pump c0 s0 max=40 until=s0:DONE", "send s0 10", pump, "send c0 4", pump, "close c0", pump, "state c0", "state s0", "del c0", "del s0",
              "new s1 server keys=ks %s" % sc["so"], "new c1 client keys=kc %s" % sc["co"], "link c1 s1", pump, "send c1 5", "send s1 6", pump, "state c1", "state s1"]
        return [x.replace("cpump c0 s0", "cpump c1 s1") if ("c1" in x or i > 13) and x.startswith("cpump") else x for i, x in enumerate(L)]
    if sc["prelude"]:
        L += ["new s9 server keys=ks %s" % sc["so"], "new c9 client keys=kc %s" % sc["co"], "link c9 s9", "cpump c9 s9", "send c9 3", "cpump c9 s9",
              "close c9", "cpump c9 s9", "del c9", "del s9"]
    L += ["new s0 server keys=ks %s" % sc["so"], "new c0 client keys=kc %s" % sc["co"], "link c0 s0"]
    if sc["early"]:
        L += ["send c0 12", "send c0 30"]
    if sc.get("ccs"):
        ccs = ["injectrec c0 %d 20 1 body=01"] * sc["ccs"]
        # behind the ClientHello (in front of early data, if any); then in front of the client's second flight; then in front of data
        L += ["flush c0"] + [x % 1 for x in ccs] + [pump.replace("cpump c0 s0", "cpump c0 s0 max=2") if "max=" not in pump else pump]
        L += ["flush c0"] + [x % 0 for x in ccs] + [pump]
        L += ["send c0 34", "flush c0"] + [x % 0 for x in ccs] + [pump]
    if sc["fail"] == "corrupt":
        # the client's Finished is damaged in flight (same damage in every run): the server must answer identically
        L += ["pump c0 s0 max=3", "flush c0", "mod c0 2 -1 0x01", pump]
    else:
        L.append(pump)
    for a, b in sc["sends"]:
        L += ["send c0 %d" % a, "send s0 %d" % b, pump]
    L += ["close c0", pump, "state c0", "state s0"]
    return L

PARTS = [(1, 0), (2, 0), (3, 1), (5, 0), (7, 3), (13, 0), (64, 17), (100, 1), (500, 0), (1000, 100), (1460, 0), (4096, 5), (16384, 0), (0, 1), (0, 7), (0, 1000)]

def episodes(tier, seed):
    rnd = random.Random(seed * 65537 + 9)
    E = []
    S = scenarios()
    for i, sc in enumerate(S):
        parts = list(PARTS)
        nrand = 4 if tier == "quick" else 40
        for k in range(nrand):
            parts.append((-rnd.choice([2, 9, 40, 300, 2000, 20000]), rnd.choice([0, 0, 1, 3, 50, 700])))
        if tier == "quick":
            rnd.shuffle(parts); parts = parts[:10]
        L = run_lines(sc, "cpump c0 s0") + ["reset K%d.ref" % i]
        variants = []
        for j, (chunk, sendmax) in enumerate(parts):
            pump = "cpump c0 s0 chunk=%d sendmax=%d cseed=%d" % (chunk, sendmax, j)
            L += run_lines(sc, pump) + ["reset K%d.v%d" % (i, j)]
            variants.append((chunk, sendmax))
        E.append(dict(id="K%d" % i, name=sc["name"], lines=L, variants=variants))
    return E

def render(eps, start):
    L = []
    for e in eps:
        L += e["lines"]
    return L
