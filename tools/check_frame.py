#!/usr/bin/env python3
"""C18: TLS behaviour is a function of the bytes, not of how they are chunked.  MxFrame is model-checked; every
scenario is run on the real library under many partitions of both byte streams (pinned random source and clock)
and MxFrame_Trace requires the final view of each endpoint to equal the one-piece reference run."""
import os, sys, json, time, collections
sys.path.insert(0, os.path.dirname(os.path.abspath(__file__)))
import runner, tlcutil, framegen

ASSUME = ["the random source (psGetEntropy wrapper) and the clock are pinned and re-initialised before every run, so two runs of a scenario differ only in where the byte streams are cut",
          "the view compared: handshake state, completion / error / closed flags, version, suite, resumed, alerts received, a digest and count over every byte returned by matrixSslGetOutdata, a digest and count over all plaintext delivered; the number of REQUEST_RECV / REQUEST_SEND round trips is not part of it",
          "partitions: fixed piece sizes 1..16384, pseudo-random piece sizes, partial sends of 1..1000 bytes; everything in flight is coalesced before it is cut, so record-straddling and record-coalescing receive calls occur in every variant"]

def annotate(path):
    out = []
    for l in open(path):
        d = json.loads(l)
        if d.get("ev") == "Reset" and "." in d.get("tag", ""):
            scn, v = d["tag"].split(".", 1)
            d["scn"] = scn; d["isref"] = 1 if v == "ref" else 0
        out.append(json.dumps(d))
    p = path + "p"
    open(p, "w").write("\n".join(out) + "\n")
    return p

def run(tier, seed):
    prop = "C18"
    t0 = time.time()
    bdir = runner.build()
    wd = runner.workdir("check_C18")
    violations = []
    states = trans = 0
    for cfg in ("MxFrame_MC.cfg", "MxFrame_MC_b.cfg"):
        r = tlcutil.run_tlc("MxFrame_MC.tla", cfg, workers=8, timeout=900, tag="mcC18")
        if r["violation"]:
            p = os.path.join(wd, "model_violation.txt"); open(p, "w").write(r["out"][-20000:])
            violations.append(("model", r["violation"], p))
        elif not r["ok"]:
            print(r["out"][-3000:]); raise SystemExit("INFRA: TLC failed on MxFrame")
        states += r.get("states", 0); trans += r.get("transitions", 0)
    vac = tlcutil.run_tlc("MxFrame_MC.tla", "MxFrame_MC_vac.cfg", workers=4, timeout=900, tag="mcC18v")
    if not vac["violation"]:
        raise SystemExit("INFRA: vacuity guard NeverAll was not violated")
    eps = framegen.episodes(tier, seed)
    shards = runner.shard(eps, 16)
    runs = runner.run_all(bdir, wd, shards, framegen.render, timeout=3000, allow_nosession=True)
    for r in runs:
        if r["rc"] in (77, 78) or r["rc"] < 0 or r["rc"] > 100:
            rp = runner.save_replay(prop, "crash_" + os.path.basename(r["script"]), open(r["script"]).read().splitlines())
            open(rp + ".stderr", "w").write(r["stderr"])
            violations.append(("sanitizer", "driver terminated abnormally rc=%s: %s" % (r["rc"], r["stderr"][-300:].replace("\n", " ")), rp))
        elif r["rc"] != 0:
            print(r["stderr"][-2000:]); raise SystemExit("INFRA: driver failed rc=%s on %s" % (r["rc"], r["script"]))
    runs = [r for r in runs if r["rc"] == 0]
    for r in runs:
        r["orig"] = r["trace"]; r["trace"] = annotate(r["trace"])
    runner.validate_all(runs, "MxFrame_Trace.tla", "MxFrame_Trace.cfg", timeout=3000)
    nvalid = 0; nvar = 0; views = set(); stats = collections.Counter()
    for r in runs:
        v = r["val"]
        if v["infra"]:
            print(v["out"][-3000:]); raise SystemExit("INFRA: TLC trace validation failed on %s" % r["orig"])
        lines = open(r["trace"]).read().splitlines()
        meta = {e["id"]: e for e in r["episodes"]}
        bad = set()
        for ln in v["rejects"]:
            d = json.loads(lines[ln - 1])
            scn = d.get("scn"); e = meta.get(scn, {})
            vi = d.get("tag", "").split(".v")[-1]
            var = e.get("variants", [])[int(vi)] if vi.isdigit() and int(vi) < len(e.get("variants", [])) else None
            bad.add(scn)
            # the variant's script: reference + this variant
            rp = runner.save_replay(prop, "%s_%s" % (e.get("name", "x"), d.get("tag")), e.get("lines", []))
            violations.append(("trace", "scenario %s: variant %s (chunk, sendmax = %s) ends in a different view than the one-piece run" % (e.get("name"), d.get("tag"), var), rp))
        nvalid += len([e for e in r["episodes"] if e["id"] not in bad])
        for l in lines:
            d = json.loads(l)
            if d.get("ev") == "Reset" and "scn" in d and not d["isref"]: nvar += 1
            if d.get("ev") == "state" and d.get("hs") != "NOSESSION":
                views.add((d.get("ver"), d.get("suite"), d.get("hc"), d.get("err"), d.get("outd"), d.get("dlvd")))
                stats["complete" if d.get("hc") == 1 else "failed"] += 1
    for kind, text, rp in violations[:40]:
        print("VIOLATION property=%s replay=%s" % (prop, rp)); print("  (%s) %s" % (kind, text[:700]))
    cov = {"states": states, "transitions": trans, "traces_validated_against_impl": nvalid,
           "samples": [dict(scenario=e["name"], variants=e["variants"][:5], script=e["lines"][:14]) for e in eps[:2]],
           "evaluations": nvar, "distinct_nontrivial": len(views),
           "rule": "evaluation = one run of a scenario (17 scenarios: full / resumed by id, ticket, PSK / client-auth / version fallback / PSK suite / early data / four failing handshakes, each with application data across record boundaries and closure) under one partition (piece size for receive calls, partial-send size); distinct_nontrivial = distinct final views (version, suite, completed, error, output digest, delivered digest)",
           "endpoint_views": dict(stats), "exhaustive": False}
    runner.write_evidence(prop, tier, seed, "model_checking", cov, time.time() - t0, len(violations), ASSUME)
    return 1 if violations else 0
