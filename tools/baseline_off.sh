#!/bin/bash
# Build /repo's current tree with the verification guard OFF (plain repository build) in a
# scratch copy and run the repository's baseline test binaries.
set -e
W=${VERIF_WORK:-/verif/work}/baseline_off
rm -rf "$W"; mkdir -p "$W"
rsync -a --exclude .git --exclude '*.o' --exclude '*.a' /repo/ "$W/repo/"
cd "$W/repo"
make -s -j16 >"$W/make.log" 2>&1 || { tail -50 "$W/make.log"; echo "BASELINE-OFF: build failed"; exit 1; }
rc=0
for t in algorithmTest rsaTest eccTest hmacTest; do
  ( cd crypto/test && timeout 900 ./$t >"$W/$t.log" 2>&1 ) || { echo "BASELINE-OFF: $t exit non-zero"; rc=1; }
  if grep -q "FAILED" "$W/$t.log"; then echo "BASELINE-OFF: $t reports FAILED"; grep FAILED "$W/$t.log" | head; rc=1; fi
  echo "$t: $(grep -c PASSED "$W/$t.log" || true) PASSED"
done
cd /; rm -rf "$W"
exit $rc
