#!/bin/bash
# runs the thorough tier of every registered check (except C19, which takes hours) one after the other; summary on stdout
cd "$(dirname "$0")/.."; mkdir -p work
for id in ${@:-C01 C02 C03 C04 C05 C06 C07 C08 C10 C11 C12 C14 C15 C16 C17 C18 C20}; do
  s=$(date +%s)
  timeout 14000 ./check $id --tier thorough > work/thorough_$id.log 2>&1; rc=$?
  echo "$id thorough exit=$rc viol=$(grep -a -c '^VIOLATION' work/thorough_$id.log) known=$(grep -a -c '^KNOWN-FINDING' work/thorough_$id.log) t=$(( $(date +%s)-s ))s"
  grep -a -A1 '^VIOLATION' work/thorough_$id.log | grep -a -v '^VIOLATION\|^--' | cut -c1-260 | sort | uniq -c | sort -rn | head -6
done
