#!/usr/bin/env python3
"""Vacuity guard shared by the session-level checks: every configuration a generator builds its episodes on must, left
alone, complete its handshake on both ends and carry application data both ways.  A configuration that does not exercises
nothing of a 'never ...' property, however many episodes are derived from it."""
import os, sys, json
sys.path.insert(0, os.path.dirname(os.path.abspath(__file__)))
import runner

def baseline_lines(cfg, tag):
    L = [cfg["ks"], cfg["kc"]]
    if cfg.get("resume"):
        L += ["new s9 server keys=ks %s" % cfg["so"], "new c9 client keys=kc %s" % cfg["co"], "link c9 s9",
              "pump c9 s9 max=60", "send c9 3", "pump c9 s9 max=5", "close c9", "pump c9 s9 max=5", "del c9", "del s9"]
    L += cfg.get("prelude", [])
    L += ["new s0 server keys=%s %s" % (cfg.get("srvkeys", "ks"), cfg["so"]), "new c0 client keys=kc %s" % cfg["co"], "link c0 s0"]
    if cfg.get("early"):
        L += ["send c0 12", "send c0 30"]
    L += ["pump c0 s0 max=80"] + list(cfg.get("post", [])) + ["send c0 7", "send s0 9", "pump c0 s0 max=12", "state c0", "state s0", "reset %s" % tag]
    return L

def check(bdir, wd, cfgs, label):
    """returns {name: ok}; raises SystemExit(INFRA) when a configuration does not work"""
    cfgs = [c for c in cfgs if c.get("honest", True)]
    sp = os.path.join(wd, "honest_%s.mx" % label); tp = os.path.join(wd, "honest_%s.nd" % label)
    lines = []
    for i, c in enumerate(cfgs):
        lines += baseline_lines(c, "H%d" % i)
    open(sp, "w").write("\n".join(lines) + "\n")
    r = runner.run_driver(bdir, sp, tp, 900)
    if r["rc"] != 0:
        raise SystemExit("INFRA: honest baseline run of %s failed rc=%s: %s" % (label, r["rc"], r["stderr"][-800:]))
    res = {}; cur = {}
    for l in open(tp):
        d = json.loads(l)
        if d.get("ev") == "state":
            cur[d["ep"]] = d
        if d.get("ev") == "Reset" and str(d.get("tag", "")).startswith("H"):
            i = int(d["tag"][1:])
            c0, s0 = cur.get("c0", {}), cur.get("s0", {})
            res[cfgs[i]["name"]] = (c0.get("hc") == 1 and s0.get("hc") == 1 and c0.get("dlvn", 0) >= 9 and s0.get("dlvn", 0) >= 7)
            cur = {}
    bad = sorted(n for n, ok in res.items() if not ok)
    if bad or len(res) != len(cfgs):
        raise SystemExit("INFRA: honest baseline of %s: configuration(s) %s do not complete a handshake and carry data: episodes built on them exercise nothing" % (label, ", ".join(bad) or "(missing)"))
    return res

if __name__ == "__main__":
    import sessgen, changen
    bdir = runner.build()
    wd = runner.workdir("honest")
    print(check(bdir, wd, sessgen.cfgs(), "sessgen"))
    print(check(bdir, wd, changen.suites(), "changen"))
