#!/usr/bin/env python3
"""C11 (decision part): cases for mxpk - every class of MxPk's decision tables, over key sizes, curves and hashes."""
import random, itertools

PK1 = ["canon", "lead", "bt00", "bt02", "padnonff", "padzero", "padshort", "padshort7", "sep01", "nosep", "di_noparams", "di_badparams", "di_otheroid",
       "di_berlen", "di_hashshort", "hashflip", "plusn", "sigflip", "sigshort", "siglong"]
PSS = ["canon", "hashflip", "saltshort", "saltlong", "salt0", "psnonzero", "sep02", "topbit", "trailer", "sigflip"]
EME = ["canon", "lead", "bt01", "bt00", "nosep", "padzero"]
ECR = ["ok", "zero", "n", "plusn", "neg", "flip"]
ECS = ["ok", "zero", "n", "plusn", "twin", "neg", "flip"]
ECDER = ["canon", "leadzero", "longlen", "trail", "trunc", "seqshort"]
POINT = ["valid", "offcurve", "offcurvex", "infinity", "zerozero", "trunc", "long", "badprefix", "compressed", "xplusp"]
DH = ["valid", "two", "pm2", "zero", "one", "pm1", "p", "pp1"]
ED = ["canon", "flipr", "flips", "flipmsg", "flippub", "splusl"]

def cases(tier, seed):
    rnd = random.Random(seed * 37 + 11)
    th = tier == "thorough"
    C = []
    reps = 6 if th else 2
    for key, hashes in ((1024, ["sha1", "sha256"]), (2048, ["sha1", "sha256", "sha384", "sha512"]), (4096, ["sha256", "sha512"])):
        if key == 4096 and not th: hashes = ["sha256"]
        for h in hashes:
            for cls in PK1:
                for _ in range(reps):
                    C.append(("rsa-pkcs1-verify", "rsav seed=%d key=%d hash=%s cls=%s" % (rnd.randrange(1000), key, h, cls)))
            for cls in ("canon", "lead", "bt02", "padnonff", "padshort", "sep01", "hashflip", "plusn", "sigflip"):
                C.append(("rsa-pkcs1-verify-raw", "rsav seed=%d key=%d hash=%s cls=%s api=raw" % (rnd.randrange(1000), key, h, cls)))
    for key in (2048,) + ((1024, 4096) if th else ()):
        for h in ("sha256", "sha384", "sha512"):
            if key == 1024 and h == "sha512": continue          # emLen too small for hash + salt
            for cls in PSS:
                for _ in range(reps):
                    C.append(("rsa-pss-verify", "pssv seed=%d key=%d hash=%s cls=%s" % (rnd.randrange(1000), key, h, cls)))
    for key in (1024, 2048) + ((4096,) if th else ()):
        for cls in EME:
            for mlen in (0, 1, 48, key // 8 - 11):
                C.append(("rsa-decrypt", "rsadec seed=%d key=%d cls=%s mlen=%d" % (rnd.randrange(1000), key, cls, mlen)))
        for mlen in (0, 1, 48, key // 8 - 11, key // 8 - 10):
            C.append(("rsa-encrypt", "rsaenc seed=%d key=%d mlen=%d" % (rnd.randrange(1000), key, mlen)))
        for h in ("sha256", "sha384", "sha512"):
            C.append(("rsa-sign", "rsasign seed=%d key=%d hash=%s" % (rnd.randrange(1000), key, h)))
    for curve, hashes in ((256, ["sha256", "sha384", "sha512"]), (384, ["sha256", "sha384", "sha512"]), (521, ["sha256", "sha512"])):
        for h in hashes:
            # one deviation at a time, plus all pairs of (r, s) deviations in the thorough tier
            combos = [(r, "ok", "canon", "match", "right") for r in ECR] + [("ok", s, "canon", "match", "right") for s in ECS] + \
                     [("ok", "ok", d, "match", "right") for d in ECDER] + [("ok", "twin", d, "match", "right") for d in ECDER] + \
                     [("ok", "ok", "canon", "other", "right"), ("ok", "ok", "canon", "match", "other"), ("ok", "twin", "canon", "other", "right"),
                      ("flip", "ok", "leadzero", "match", "right"), ("zero", "ok", "trail", "match", "right"), ("ok", "plusn", "longlen", "match", "right")]
            if th: combos += [(r, s, "canon", "match", "right") for r in ECR for s in ECS]
            for (r, s, d, hc, kc) in combos:
                for _ in range(reps):
                    C.append(("ecdsa-verify", "ecv seed=%d curve=%d hash=%s r=%s s=%s der=%s hashc=%s keyc=%s" % (rnd.randrange(1000), curve, h, r, s, d, hc, kc)))
            for _ in range(reps):
                C.append(("ecdsa-sign", "ecsign seed=%d curve=%d hash=%s" % (rnd.randrange(1000), curve, h)))
        for cls in POINT:
            for _ in range(reps * 2):
                C.append(("ec-point", "ecpoint seed=%d curve=%d cls=%s" % (rnd.randrange(1000), curve, cls)))
    for params in (1024, 2048):
        for cls in DH:
            for _ in range(reps if cls == "valid" else 1):
                C.append(("dh-public-value", "dh seed=%d params=%d cls=%s" % (rnd.randrange(1000), params, cls)))
    for _ in range(10 if th else 4):
        C.append(("x25519", "x25519 seed=%d" % rnd.randrange(1000)))
    for cls in ED:
        for mlen in (0, 1, 40, 200):
            for _ in range(reps):
                C.append(("ed25519-verify", "edv seed=%d cls=%s mlen=%d" % (rnd.randrange(1000), cls, mlen)))
    return C

if __name__ == "__main__":
    import sys, collections
    C = cases(sys.argv[1] if len(sys.argv) > 1 else "quick", 1)
    print(len(C), collections.Counter(f for f, _ in C))
