#!/usr/bin/env python3
"""C04 scenarios: real handshakes in which the PROVER (the peer of the endpoint under test) presents a defective
credential (one validation failure class per scenario) and/or a defective proof of possession, for every
version x key-exchange mode x verifier role x callback mode.  The scenario record is the ground truth the
trace specification MxAuth_Trace judges the recorded execution against."""
import os, subprocess, itertools, random

SOFT = ["badsig", "unknownca", "selfsigned", "expired", "notyet", "int_expired", "int_notca", "int_noku", "pathlen",
        "name", "eku", "int_badsig", "noca", "sigcopy"]
HARD = ["nocert"]      # (unknown critical extensions / unsupported algorithms are refused by the parser: C03/C09)

def pki_lines(fam):
    """fam: 'r' (RSA keys), 'e' (P-256 keys) or 'd' (Ed25519 keys).  Returns certgen lines."""
    kt = {"r": "rsa", "e": "ec", "d": "ed"}[fam]
    P = fam
    L = []
    for k in ["R", "X", "I", "L", "E", "W"]:
        L.append("key %sk%s %s" % (P, k, kt))
    def cert(name, subj, iss, key, sk, extra):
        L.append("cert %s%s subj=%s iss=%s key=%sk%s signkey=%sk%s %s" % (P, name, subj, iss, P, key, P, sk, extra))
    ca = "ca=1 ku=certSign"
    lf = "ca=0 ku=%s san=DNS:srv.t" % ("keyAgree" if fam == "e" else "digSig")
    cert("root", "%sR" % P, "%sR" % P, "R", "R", ca)
    cert("xroot", "%sX" % P, "%sX" % P, "X", "X", ca)
    cert("rootp", "%sRp" % P, "%sRp" % P, "R", "R", ca + " pathlen=0")
    cert("int", "%sI" % P, "%sR" % P, "I", "R", ca)
    cert("int_exp", "%sIe" % P, "%sR" % P, "I", "R", ca + " nb=-730 na=-365")
    cert("int_notca", "%sIn" % P, "%sR" % P, "I", "R", "ca=0 ku=certSign")
    cert("int_noku", "%sIk" % P, "%sR" % P, "I", "R", "ca=1 ku=digSig")
    cert("int_badsig", "%sIb" % P, "%sR" % P, "I", "R", ca + " sig=corrupt")
    cert("int_p", "%sIp" % P, "%sRp" % P, "I", "R", ca)
    cert("evil", "%sE" % P, "%sZ" % P, "E", "E", ca + " sig=copy:%sroot" % P)
    cert("leaf", "srv.t", "%sR" % P, "L", "R", lf)
    cert("leaf_i", "srv.t", "%sI" % P, "L", "I", lf)
    cert("leaf_badsig", "srv.t", "%sR" % P, "L", "R", lf + " sig=corrupt")
    cert("leaf_unk", "srv.t", "%sX" % P, "L", "X", lf)
    cert("leaf_self", "srv.t", "srv.t", "L", "L", lf)
    cert("leaf_exp", "srv.t", "%sR" % P, "L", "R", lf + " nb=-730 na=-365")
    cert("leaf_nyv", "srv.t", "%sR" % P, "L", "R", lf + " nb=365 na=730")
    cert("leaf_iexp", "srv.t", "%sIe" % P, "L", "I", lf)
    cert("leaf_inotca", "srv.t", "%sIn" % P, "L", "I", lf)
    cert("leaf_inoku", "srv.t", "%sIk" % P, "L", "I", lf)
    cert("leaf_ibadsig", "srv.t", "%sIb" % P, "L", "I", lf)
    cert("leaf_ip", "srv.t", "%sIp" % P, "L", "I", lf)
    cert("leaf_eku", "srv.t", "%sR" % P, "L", "R", lf + " eku=other ekucrit=1")
    cert("leaf_w", "srv.t", "%sR" % P, "W", "R", lf)
    cert("leaf_evil", "srv.t", "%sE" % P, "L", "E", lf)
    return L

# credential class -> (chain files leaf first, trust anchors of the verifier, expected name given by a client verifier)
def cred_files(fam, cls):
    P = fam
    f = lambda *a: [P + x for x in a]
    T = {
     "ok": (f("leaf"), f("root"), "srv.t"),
     "ok_chain": (f("leaf_i", "int"), f("root"), "srv.t"),
     "badsig": (f("leaf_badsig"), f("root"), "srv.t"),
     "unknownca": (f("leaf_unk"), f("root"), "srv.t"),
     "selfsigned": (f("leaf_self"), f("root"), "srv.t"),
     "expired": (f("leaf_exp"), f("root"), "srv.t"),
     "notyet": (f("leaf_nyv"), f("root"), "srv.t"),
     "int_expired": (f("leaf_iexp", "int_exp"), f("root"), "srv.t"),
     "int_notca": (f("leaf_inotca", "int_notca"), f("root"), "srv.t"),
     "int_noku": (f("leaf_inoku", "int_noku"), f("root"), "srv.t"),
     "pathlen": (f("leaf_ip", "int_p"), f("rootp"), "srv.t"),
     "name": (f("leaf"), f("root"), "other.t"),
     "eku": (f("leaf_eku"), f("root"), "srv.t"),
     "int_badsig": (f("leaf_ibadsig", "int_badsig"), f("root"), "srv.t"),
     "noca": (f("leaf"), [], "srv.t"),
     "sigcopy": (f("leaf_evil", "evil"), f("root"), "srv.t"),
     "nocert": ([], f("root"), "srv.t"),
    }
    return T[cls]

def materialise(pkidir, certgen):
    os.makedirs(pkidir, exist_ok=True)
    lines = pki_lines("r") + pki_lines("e") + pki_lines("d")
    p = subprocess.run([certgen, pkidir], input="\n".join(lines) + "\n", capture_output=True, text=True)
    if p.returncode != 0:
        raise SystemExit("INFRA: certgen failed: " + p.stderr[-2000:])

def chain_file(pkidir, names):
    """concatenate the PEM files of a chain"""
    out = os.path.join(pkidir, "chain_" + "_".join(names) + ".pem")
    if not os.path.exists(out):
        open(out, "w").write("".join(open(os.path.join(pkidir, n + ".pem")).read() for n in names))
    return out

# (version, kx label, key family, client suites, carrier of the proof when the CLIENT verifies)
MODES = [
    ("T12", "rsa", "r", "0x3c", "none"),
    ("T12", "ecdhe", "r", "0xc02f", "SERVER_KEY_EXCHANGE"),
    ("T12", "ecdhe", "e", "0xc02b", "SERVER_KEY_EXCHANGE"),
    ("T12", "ecdh", "e", "0xc025", "none"),
    ("T11", "rsa", "r", "0x2f", "none"),
    ("T11", "ecdhe", "r", "0xc013", "SERVER_KEY_EXCHANGE"),
    ("T13", "t13", "r", "0x1301", "CERTIFICATE_VERIFY"),
    ("T13", "t13", "e", "0x1303", "CERTIFICATE_VERIFY"),
    ("T13", "t13", "d", "0x1301", "CERTIFICATE_VERIFY"),      # Ed25519 identities and chains (TLS 1.3 only: the library has no
                                                              # Ed25519 authentication below TLS 1.3 - an honest handshake does not complete)
    ("D12", "ecdhe", "r", "0xc02f", "SERVER_KEY_EXCHANGE"),
    ("D12", "rsa", "r", "0x3c", "none"),
    ("D10", "ecdhe", "e", "0xc009", "SERVER_KEY_EXCHANGE"),
]
CARRIER_MSG = {"SERVER_KEY_EXCHANGE": 12, "CERTIFICATE_VERIFY": 15}

def pops_for(role, carrier):
    c = "CERTIFICATE_VERIFY" if role == "S" else carrier
    if c == "none":
        return ["ok", "wrongkey"]
    P = ["ok", "sigflip", "alg", "stale", "wrongkey"]
    if c == "SERVER_KEY_EXCHANGE":
        P.append("paramflip")
    return P

def scenarios(tier, seed):
    rnd = random.Random(seed)
    S = []
    for (ver, kx, fam, suites, carrier) in MODES:
        for role in ("C", "S"):
            cbs = ["none", "strict", "perm"] if role == "C" else ["strict", "perm"]
            for cb in cbs:
                creds = ["ok", "ok_chain"] + SOFT + HARD
                for cred in creds:
                    if cred == "name" and role == "S": continue
                    if cred == "nocert" and role == "C": continue
                    if cred == "noca" and role == "S": continue     # a server cannot ask for a certificate without CA names: flight creation fails
                    pops = ["ok"]
                    if cred == "ok" or (cb == "perm" and cred in ("expired", "unknownca")):
                        pops = pops_for(role, carrier)
                    for pop in pops:
                        if cred == "nocert" and pop != "ok": continue
                        S.append(dict(ver=ver, kx=kx, fam=fam, suites=suites, role=role, cb=cb, cred=cred, pop=pop,
                                      carrier=("CERTIFICATE_VERIFY" if role == "S" else carrier)))
    if tier == "quick":
        # every (role, cb, cred, pop) for three modes in full; the other modes get a rotating sample
        full = {("T12", "ecdhe", "r"), ("T13", "t13", "r"), ("T12", "rsa", "r")}
        keep = [s for s in S if (s["ver"], s["kx"], s["fam"]) in full]
        rest = [s for s in S if (s["ver"], s["kx"], s["fam"]) not in full]
        rnd.shuffle(rest)
        must = [s for s in rest if s["cb"] == "none" or s["pop"] != "ok"]
        S = keep + must[:260] + [s for s in rest if s not in must][:120]
    return S

def episode(sc, pkidir, eid):
    fam = sc["fam"]
    chain, anchors, name = cred_files(fam, "ok" if sc["cred"] == "ok" else sc["cred"])
    P = fam
    idopt = ""
    if chain:
        if sc["pop"] == "wrongkey":
            pair = (os.path.join(pkidir, P + "leaf_w.pem"), os.path.join(pkidir, "%skW.key.pem" % P))
        else:
            pair = (os.path.join(pkidir, P + "leaf.pem"), os.path.join(pkidir, "%skL.key.pem" % P))
        idopt = "id=%s,%s swapcert=%s" % (pair[0], pair[1], chain_file(pkidir, chain))
    caopt = ("ca=" + chain_file(pkidir, anchors)) if anchors else ""
    okchain, okanch, _ = cred_files(fam, "ok")
    okid = "id=%s,%s" % (chain_file(pkidir, okchain), os.path.join(pkidir, "%skL.key.pem" % P))
    okca = "ca=" + chain_file(pkidir, okanch)
    L = []
    ver = sc["ver"]
    if sc["role"] == "C":
        # the server is the prover
        L.append("keys ks %s" % idopt)
        L.append("keys kc %s psk=1" % caopt)
        so = "ver=%s" % ver
        co = "ver=%s suites=%s name=%s" % (ver, sc["suites"], name) + ("" if sc["cb"] == "none" else " cb=" + sc["cb"])
        prover, verifier = "s0", "c0"
    else:
        # the client is the prover, the server requests client authentication (it does when a callback is registered)
        L.append("keys ks %s %s" % (okid, caopt if caopt else "psk=1"))
        L.append("keys kc %s %s" % (idopt, okca))
        so = "ver=%s cb=%s" % (ver, sc["cb"])
        co = "ver=%s suites=%s name=srv.t" % (ver, sc["suites"])
        prover, verifier = "c0", "s0"
    msg = CARRIER_MSG.get(sc["carrier"], 0)
    def hs(sfx, tam):
        X = ["new s%s server keys=ks %s" % (sfx, so), "new c%s client keys=kc %s" % (sfx, co), "link c%s s%s" % (sfx, sfx)]
        if tam:
            X.append("tamper %s%s %d %s" % (prover[0], sfx, msg, tam))
        X.append("pump c%s s%s max=60" % (sfx, sfx))
        return X
    pop = sc["pop"]
    if pop == "stale":
        L += hs("9", "save 0") + ["del c9", "del s9"]
        L += hs("0", "subst 0")
    elif pop == "sigflip":
        L += hs("0", "flip -1 0x01")
    elif pop == "paramflip":
        L += hs("0", "flip 10 0x01")
    elif pop == "alg":
        L += hs("0", "alg 0x0201")
    else:
        L += hs("0", None)
    L += ["state c0", "state s0", "send c0 5", "send s0 6", "pump c0 s0 max=6", "state %s" % verifier]
    meta = dict(sc)
    meta.update(verifier=verifier, prover=prover, eid=eid)
    return L, meta
