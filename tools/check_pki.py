#!/usr/bin/env python3
"""C03: certificate path validation.  MxX509_MC (Walk vs Valid over the abstract universe) + generated DER chains of
the same abstract values run through matrixValidateCertsExt, every answer validated against MxX509_Trace."""
import os, sys, json, time, random, subprocess
sys.path.insert(0, os.path.dirname(os.path.abspath(__file__)))
import runner, tlcutil, x509gen, crlgen
from concurrent.futures import ThreadPoolExecutor

ASSUME = ["certificates are generated with OpenSSL (harness/certgen.c) from the abstract values; the mapping abstract field -> DER is trusted",
          "success of the API = return code >= 0 and every presented certificate PS_CERT_AUTH_PASS (the function records soft failures in authStatus while returning 0)",
          "completeness (Valid => accepted) is claimed for chains presented leaf-first, SHA-256 signatures, CA certificates with keyUsage, consistent key identifiers (Supported in MxX509.tla)",
          "universe: 7 chain shapes x 5 anchor sets x two single-field deviations at any of 4 positions (77k abstract scenarios), materialised with RSA-2048 keys; the scenarios with at most one deviation plus a sample of the pairs also with P-256 keys, with Ed25519 keys and with RSASSA-PSS signatures throughout",
          "revocation (MxCrl): a universe of 7 certificates (trust anchor, an impostor of the same name, an intermediate, leaves of each) and 6 CRLs (authentic, empty, expired, forged, of the intermediate); histories of CRL loads (authenticated against the trust anchor or not at all) and chain validations against the process-wide CRL cache; an expired CRL decides nothing (the code's reading)"]

def crl_part(prop, tier, seed, bdir, wd, violations):
    st = {}
    for cfg, must_fail, what in (("MxCrl_MC.cfg", False, ""), ("MxCrl_MC_reauth.cfg", True, "re-authenticating a cached CRL against the presented parent every time must lose a loaded revocation"),
                                 ("MxCrl_MC_genuine.cfg", True, "persisting the opportunistic authentication must allow a bogus revocation"),
                                 ("MxCrl_MC_vac1.cfg", True, "a revocation must be reachable"), ("MxCrl_MC_vac2.cfg", True, "an acceptance with a CRL in the cache must be reachable")):
        r = tlcutil.run_tlc("MxCrl_MC.tla", cfg, workers=8, timeout=900, tag="mcC03crl")
        viol = bool(r["violation"]) or "is violated" in r["out"]
        if must_fail and not viol:
            raise SystemExit("INFRA: sensitivity / vacuity guard failed (%s): %s" % (cfg, what))
        if not must_fail:
            if viol:
                p = os.path.join(wd, "model_violation_crl.txt"); open(p, "w").write(r["out"][-20000:])
                violations.append(("model", "MxCrl: a property fails on the model of the revocation cache (see file)", p))
            elif not r["ok"]:
                print(r["out"][-3000:]); raise SystemExit("INFRA: TLC failed on MxCrl_MC")
            st["crl_states"] = r.get("states", 0)
    pkidir = os.path.join(runner.WORK, "pki_C03crl")
    crlgen.materialise(pkidir, os.path.join(runner.ROOT, "build/certgen"))
    H = crlgen.histories(tier, seed)
    nsh = 16
    jobs = []
    for i in range(nsh):
        lines, metas = [], []
        for k, h in enumerate(H[i::nsh]):
            L, M = crlgen.render(h, pkidir, "R%d_%d" % (i, k))
            lines += L; metas += M
        sp = os.path.join(wd, "crl%02d.mx" % i); open(sp, "w").write("\n".join(lines) + "\n")
        jobs.append((sp, os.path.join(wd, "crl%02d.nd" % i), metas))
    with ThreadPoolExecutor(max_workers=16) as ex:
        res = list(ex.map(lambda j: runner.run_driver(bdir, j[0], j[1], 1800), jobs))
    good = []
    nval = nrev = nok = 0
    nhs = [0]
    for (sp, tp, metas), r in zip(jobs, res):
        if r["rc"] != 0:
            rp = runner.save_replay(prop, "crash_" + os.path.basename(sp), open(sp).read().splitlines())
            open(rp + ".stderr", "w").write(r["stderr"])
            violations.append(("sanitizer", "driver terminated abnormally rc=%s: %s" % (r["rc"], r["stderr"][-300:].replace("\n", " ")), rp)); continue
        out = []; k = 0
        for l in open(tp):
            d = json.loads(l)
            if d.get("ev") == "state" and d.get("ep") == "c0":
                # a handshake step: what the client concluded
                d = dict(i=d["i"], ev="hsval", hc=int(d.get("hc", 0) == 1))
            if d.get("ev") in ("crl", "validate", "hsval", "Reset") and d.get("tag") != "end":
                if k >= len(metas): raise SystemExit("INFRA: more events than steps in %s" % tp)
                d.update(metas[k]); k += 1
                if d["ev"] == "hsval": nhs[0] += 1
                if d["ev"] == "validate":
                    nval += 1; nrev += (-35 in d.get("st", [])); nok += (d.get("rcn", -1) >= 0 and all(x == 1 for x in d.get("st", [])))
            out.append(json.dumps(d))
        if k != len(metas): raise SystemExit("INFRA: %d events for %d steps in %s" % (k, len(metas), tp))
        open(tp, "w").write("\n".join(out) + "\n")
        good.append((sp, tp))
    with ThreadPoolExecutor(max_workers=16) as ex:
        vals = list(ex.map(lambda g: tlcutil.validate_trace(g[1], "MxCrl_Trace.tla", "MxCrl_Trace.cfg", 1800), good))
    known = runner.load_known(prop)
    for (sp, tp), v in zip(good, vals):
        if v["infra"]:
            print(v["out"][-3000:]); raise SystemExit("INFRA: TLC failed on %s" % tp)
        tl = open(tp).read().splitlines(); src = open(sp).read().splitlines()
        for ln in v["rejects"][:5]:
            d = json.loads(tl[ln - 1])
            # the history up to and including the rejected step
            b = max([n for n in range(ln - 1) if src[n].startswith("reset ")] or [-1]) + 1
            rp = runner.save_replay(prop, "crl_%s_%d" % (os.path.basename(sp)[:-3], ln), src[b:ln])
            violations.append(("trace", "revocation history: step %r answered %s, not what MxCrl computes from the CRLs loaded so far" % (
                d.get("chain") or d.get("crl"), ("handshake %s" % ("completed" if d.get("hc") else "refused")) if d.get("ev") == "hsval" else "accepted" if (d.get("rcn", -1) >= 0 and all(x == 1 for x in d.get("st", [0]))) else ("revoked" if -35 in d.get("st", []) else "authd=%s rcn=%s st=%s" % (d.get("authd"), d.get("rcn"), d.get("st")))), rp))
    st.update(crl_histories=len(H), crl_handshakes=nhs[0], crl_validations=nval, crl_validations_revoked=nrev, crl_validations_accepted=nok)
    return st

def run(tier, seed):
    prop = "C03"
    t0 = time.time()
    bdir = runner.build()
    subprocess.run(["gcc", "-O1", "-w", "-o", os.path.join(runner.ROOT, "build/certgen"), os.path.join(runner.ROOT, "harness/certgen.c"), "-lcrypto"], check=True)
    wd = runner.workdir("check_C03")
    violations = []
    mc = tlcutil.run_tlc("MxX509_MC.tla", "MxX509_MC.cfg", workers=16, timeout=1800, tag="mcC03")
    if mc["violation"] or "violated by the initial state" in mc["out"]:
        p = os.path.join(wd, "model_violation.txt"); open(p, "w").write(mc["out"][-20000:])
        violations.append(("model", "Walk and Valid disagree on an abstract scenario (see file)", p))
    elif not mc["ok"]:
        print(mc["out"][-3000:]); raise SystemExit("INFRA: TLC failed on MxX509_MC")
    # ---- revocation: the stateful part (CRL cache) ----
    crl_stats = crl_part(prop, tier, seed, bdir, wd, violations)
    rnd = random.Random(seed)
    allsc = list(x509gen.scenarios())
    def ndev(sc):
        ch, an = sc
        return sum(1 for c in ch + an if c["id"].endswith("'") or c["s"] in ("0",) or (c["sg"] != c["id"] and c["id"] != "evil"))
    single = [s for s in allsc if ndev(s) <= 1]
    rest = [s for s in allsc if ndev(s) > 1]
    rnd.shuffle(rest)
    if tier == "quick":
        # every scenario with at most one real deviation, plus a sample of the pairs
        scens = single + rest[:max(0, 5000 - len(single))]
    else:
        scens = allsc
    pkidir = os.path.join(runner.WORK, "pki_C03")
    ncert = x509gen.materialise(scens, pkidir, os.path.join(runner.ROOT, "build/certgen"))
    lines, meta = x509gen.script_lines(scens, pkidir)
    # the same abstract universe with ECDSA (P-256) and with Ed25519 key pairs throughout (the statement names all three; an
    # Ed25519 signature is over the TBSCertificate itself, not over a digest - a different path through parser and validator):
    # the scenarios with at most one deviation and a sample of the pairs; digest deviations (md5 / sha1) have no meaning there
    noalg = lambda sc: all(c["alg"] == "sha256" for c in sc[0] + sc[1])
    famsc = [s for s in single if noalg(s)] + [s for s in rest if noalg(s)][:(1500 if tier == "quick" else 12000)]
    for fam, prefix in (("ec", "Y"), ("ed", "Z"), ("pss", "P")):
        fdir = os.path.join(runner.WORK, "pki_C03_" + fam)
        ncert += x509gen.materialise(famsc, fdir, os.path.join(runner.ROOT, "build/certgen"), fam)
        l2, m2 = x509gen.script_lines(famsc, fdir, prefix)
        lines += l2; meta.update(m2)
    scens = scens + famsc + famsc + famsc
    nsh = 16
    shards = [lines[i::nsh] for i in range(nsh)]
    jobs = []
    for i, sl in enumerate(shards):
        sp = os.path.join(wd, "x%02d.mx" % i); open(sp, "w").write("\n".join(sl) + "\n")
        jobs.append((sp, os.path.join(wd, "x%02d.nd" % i)))
    with ThreadPoolExecutor(max_workers=16) as ex:
        res = list(ex.map(lambda j: runner.run_driver(bdir, j[0], j[1], 1800), jobs))
    nvalid = 0; states = 0; drift = 0; accepted = 0; distinct = set()
    for r in res:
        if r["rc"] != 0:
            rp = runner.save_replay(prop, "crash_" + os.path.basename(r["script"]), open(r["script"]).read().splitlines())
            open(rp + ".stderr", "w").write(r["stderr"])
            violations.append(("sanitizer", "driver terminated abnormally rc=%s: %s" % (r["rc"], r["stderr"][-300:].replace("\n", " ")), rp))
            continue
        # merge the abstract description into the trace
        out = []
        for l in open(r["trace"]):
            d = json.loads(l)
            if d.get("ev") == "validate":
                d.update(meta[d["tag"]])
                # a trust anchor the library refused to load is not a trust anchor
                d["anchors"] = [a for a, ok in zip(d["anchors"], d.get("caok", [])) if ok]
                ok = d["prc"] == 0 and d["rcn"] >= 0 and all(x == 1 for x in d["st"])
                accepted += ok
                distinct.add((len(d["chain"]), len(d["anchors"]), d["rcn"], tuple(d["st"]), tuple(d["fl"])))
            out.append(json.dumps(d))
        open(r["trace"], "w").write("\n".join(out) + "\n")
    res = [r for r in res if r["rc"] == 0]
    with ThreadPoolExecutor(max_workers=16) as ex:
        vals = list(ex.map(lambda r: tlcutil.validate_trace(r["trace"], "MxX509_Trace.tla", "MxX509_Trace.cfg", 1800), res))
    known = runner.load_known(prop); known_hit = {}
    for r, v in zip(res, vals):
        if v["infra"]:
            print(v["out"][-3000:]); raise SystemExit("INFRA: TLC failed on %s" % r["trace"])
        states += v["states"]
        drift += v["out"].count("TRANSCRIPTION_DRIFT_LINE")
        lines_t = open(r["trace"]).read().splitlines()
        nvalid += len(lines_t) - len(v["rejects"])
        for ln in v["rejects"]:
            d = json.loads(lines_t[ln - 1])
            sig = {"tag": d.get("tag"), "rcn": str(d.get("rcn")), "st": str(d.get("st")), "chain": "/".join(c["id"] for c in d["chain"]), "anchors": "/".join(c["id"] for c in d["anchors"])}
            k = runner.match_known(sig, known)
            if k:
                known_hit[k["id"]] = k; continue
            sl = [l for l in open(r["script"]).read().splitlines() if ("tag=" + d["tag"]) == l.split()[-1]]
            rp = runner.save_replay(prop, d["tag"], sl)
            open(rp + ".meta.json", "w").write(json.dumps(meta[d["tag"]], indent=1))
            violations.append(("trace", "library verdict rc=%s status=%s contradicts Valid for chain %s anchors %s" % (d["rcn"], d["st"], sig["chain"], sig["anchors"]), rp))
    for k in known_hit.values():
        print("KNOWN-FINDING: property=%s %s" % (prop, k["what"]))
    for kind, text, rp in violations[:40]:
        print("VIOLATION property=%s replay=%s" % (prop, rp)); print("  (%s) %s" % (kind, text[:600]))
    cov = {"states": mc.get("states", 0) + crl_stats.get("crl_states", 0), "transitions": mc.get("transitions", 0), "traces_validated_against_impl": nvalid, "revocation": crl_stats,
           "samples": [{"chain": [c["id"] for c in ch], "anchors": [c["id"] for c in an], "detail": ch} for ch, an in scens[:2]],
           "evaluations": len(scens), "distinct_nontrivial": len(distinct),
           "rule": "scenario = chain shape x anchor set x up to two single-field deviations (quick: all with <= 1 deviation + a sample of pairs; thorough: all 77k); distinct_nontrivial = distinct (chain length, anchors, return code, status vector, flag vector) outcomes",
           "certificates_generated": ncert, "accepted_by_library": accepted, "transcription_drift_lines": drift,
           "known_findings_reported": sorted(known_hit), "exhaustive": tier == "thorough"}
    runner.write_evidence(prop, tier, seed, "model_checking", cov, time.time() - t0, len(violations), ASSUME)
    return 1 if violations else 0
