#!/usr/bin/env python3
"""C03: certificate path validation.  MxX509_MC (Walk vs Valid over the abstract universe) + generated DER chains of
the same abstract values run through matrixValidateCertsExt, every answer validated against MxX509_Trace."""
import os, sys, json, time, random, subprocess
sys.path.insert(0, os.path.dirname(os.path.abspath(__file__)))
import runner, tlcutil, x509gen
from concurrent.futures import ThreadPoolExecutor

ASSUME = ["certificates are generated with OpenSSL (harness/certgen.c) from the abstract values; the mapping abstract field -> DER is trusted",
          "success of the API = return code >= 0 and every presented certificate PS_CERT_AUTH_PASS (the function records soft failures in authStatus while returning 0)",
          "completeness (Valid => accepted) is claimed for chains presented leaf-first, SHA-256 signatures, CA certificates with keyUsage, consistent key identifiers (Supported in MxX509.tla)",
          "universe: 7 chain shapes x 5 anchor sets x two single-field deviations at any of 4 positions (77k abstract scenarios); CRLs not modelled"]

def run(tier, seed):
    prop = "C03"
    t0 = time.time()
    bdir = runner.build()
    subprocess.run(["gcc", "-O1", "-w", "-o", os.path.join(runner.ROOT, "build/certgen"), os.path.join(runner.ROOT, "harness/certgen.c"), "-lcrypto"], check=True)
    wd = runner.workdir("check_C03")
    violations = []
    mc = tlcutil.run_tlc("MxX509_MC.tla", "MxX509_MC.cfg", workers=16, timeout=1800, tag="mcC03")
    if mc["violation"] or "violated by the initial state" in mc["out"]:
        p = os.path.join(wd, "model_violation.txt"); open(p, "w").write(mc["out"][-20000:])
        violations.append(("model", "Walk and Valid disagree on an abstract scenario (see file)", p))
    elif not mc["ok"]:
        print(mc["out"][-3000:]); raise SystemExit("INFRA: TLC failed on MxX509_MC")
    rnd = random.Random(seed)
    allsc = list(x509gen.scenarios())
    if tier == "quick":
        # every scenario with at most one real deviation, plus a sample of the pairs
        def ndev(sc):
            ch, an = sc
            return sum(1 for c in ch + an if c["id"].endswith("'") or c["s"] in ("0",) or (c["sg"] != c["id"] and c["id"] != "evil"))
        single = [s for s in allsc if ndev(s) <= 1]
        rest = [s for s in allsc if ndev(s) > 1]
        rnd.shuffle(rest)
        scens = single + rest[:max(0, 5000 - len(single))]
    else:
        scens = allsc
    pkidir = os.path.join(runner.WORK, "pki_C03")
    ncert = x509gen.materialise(scens, pkidir, os.path.join(runner.ROOT, "build/certgen"))
    lines, meta = x509gen.script_lines(scens, pkidir)
    nsh = 16
    shards = [lines[i::nsh] for i in range(nsh)]
    jobs = []
    for i, sl in enumerate(shards):
        sp = os.path.join(wd, "x%02d.mx" % i); open(sp, "w").write("\n".join(sl) + "\n")
        jobs.append((sp, os.path.join(wd, "x%02d.nd" % i)))
    with ThreadPoolExecutor(max_workers=16) as ex:
        res = list(ex.map(lambda j: runner.run_driver(bdir, j[0], j[1], 1800), jobs))
    nvalid = 0; states = 0; drift = 0; accepted = 0; distinct = set()
    for r in res:
        if r["rc"] != 0:
            rp = runner.save_replay(prop, "crash_" + os.path.basename(r["script"]), open(r["script"]).read().splitlines())
            open(rp + ".stderr", "w").write(r["stderr"])
            violations.append(("sanitizer", "driver terminated abnormally rc=%s: %s" % (r["rc"], r["stderr"][-300:].replace("\n", " ")), rp))
            continue
        # merge the abstract description into the trace
        out = []
        for l in open(r["trace"]):
            d = json.loads(l)
            if d.get("ev") == "validate":
                d.update(meta[d["tag"]])
                # a trust anchor the library refused to load is not a trust anchor
                d["anchors"] = [a for a, ok in zip(d["anchors"], d.get("caok", [])) if ok]
                ok = d["prc"] == 0 and d["rcn"] >= 0 and all(x == 1 for x in d["st"])
                accepted += ok
                distinct.add((len(d["chain"]), len(d["anchors"]), d["rcn"], tuple(d["st"]), tuple(d["fl"])))
            out.append(json.dumps(d))
        open(r["trace"], "w").write("\n".join(out) + "\n")
    res = [r for r in res if r["rc"] == 0]
    with ThreadPoolExecutor(max_workers=16) as ex:
        vals = list(ex.map(lambda r: tlcutil.validate_trace(r["trace"], "MxX509_Trace.tla", "MxX509_Trace.cfg", 1800), res))
    known = runner.load_known(prop); known_hit = {}
    for r, v in zip(res, vals):
        if v["infra"]:
            print(v["out"][-3000:]); raise SystemExit("INFRA: TLC failed on %s" % r["trace"])
        states += v["states"]
        drift += v["out"].count("TRANSCRIPTION_DRIFT_LINE")
        lines_t = open(r["trace"]).read().splitlines()
        nvalid += len(lines_t) - len(v["rejects"])
        for ln in v["rejects"]:
            d = json.loads(lines_t[ln - 1])
            sig = {"tag": d.get("tag"), "rcn": str(d.get("rcn")), "st": str(d.get("st")), "chain": "/".join(c["id"] for c in d["chain"]), "anchors": "/".join(c["id"] for c in d["anchors"])}
            k = runner.match_known(sig, known)
            if k:
                known_hit[k["id"]] = k; continue
            sl = [l for l in open(r["script"]).read().splitlines() if ("tag=" + d["tag"]) == l.split()[-1]]
            rp = runner.save_replay(prop, d["tag"], sl)
            open(rp + ".meta.json", "w").write(json.dumps(meta[d["tag"]], indent=1))
            violations.append(("trace", "library verdict rc=%s status=%s contradicts Valid for chain %s anchors %s" % (d["rcn"], d["st"], sig["chain"], sig["anchors"]), rp))
    for k in known_hit.values():
        print("KNOWN-FINDING: property=%s %s" % (prop, k["what"]))
    for kind, text, rp in violations[:40]:
        print("VIOLATION property=%s replay=%s" % (prop, rp)); print("  (%s) %s" % (kind, text[:600]))
    cov = {"states": mc.get("states", 0), "transitions": mc.get("transitions", 0), "traces_validated_against_impl": nvalid,
           "samples": [{"chain": [c["id"] for c in ch], "anchors": [c["id"] for c in an], "detail": ch} for ch, an in scens[:2]],
           "evaluations": len(scens), "distinct_nontrivial": len(distinct),
           "rule": "scenario = chain shape x anchor set x up to two single-field deviations (quick: all with <= 1 deviation + a sample of pairs; thorough: all 77k); distinct_nontrivial = distinct (chain length, anchors, return code, status vector, flag vector) outcomes",
           "certificates_generated": ncert, "accepted_by_library": accepted, "transcription_drift_lines": drift,
           "known_findings_reported": sorted(known_hit), "exhaustive": tier == "thorough"}
    runner.write_evidence(prop, tier, seed, "model_checking", cov, time.time() - t0, len(violations), ASSUME)
    return 1 if violations else 0
