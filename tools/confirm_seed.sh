#!/bin/bash
# confirm_seed.sh <agent_out_dir> <id> : verify a seeded defect in a fresh scratch worktree:
#  baseline: builds, demo PASS;  patched: builds, 4 baseline test binaries report no FAILED, demo FAIL.
# On success copies patch.diff, demo files and NOTES.md to /verif/seeded/<id>/ . Scratch is removed.
set -u
OUT=$1; ID=$2
W=/tmp/confirm_$ID
git -C /repo worktree remove --force $W 2>/dev/null; rm -rf $W
git -C /repo worktree add -q --detach $W HEAD || exit 2
cp /repo/crypto/cryptoConfig.h $W/crypto/; cp /repo/matrixssl/matrixsslConfig.h $W/matrixssl/; cp /repo/core/config/coreConfig.h $W/core/config/ 2>/dev/null
mkdir -p $W/_out; rsync -a --exclude demo --exclude "*.o" --exclude "*.log" $OUT/ $W/_out/
res=ok
( cd $W && make -s -j16 >/dev/null 2>&1 && sh _out/build_demo.sh >/dev/null 2>&1 ) || { echo "baseline build failed"; res=bad; }
( cd $W && timeout 300 ./_out/demo >/tmp/confirm_$ID.base.log 2>&1 ); b=$?
echo "baseline demo exit=$b"
[ $b -eq 0 ] || res=bad
( cd $W && git apply $OUT/patch.diff ) || { echo "patch does not apply"; res=bad; }
( cd $W && make -s -j16 >/dev/null 2>&1 && sh _out/build_demo.sh >/dev/null 2>&1 ) || { echo "patched build failed"; res=bad; }
for t in algorithmTest rsaTest eccTest hmacTest; do
  ( cd $W/crypto/test && timeout 600 ./$t >/tmp/confirm_$ID.$t.log 2>&1 ); r=$?
  if [ $r -ne 0 ] || grep -q FAILED /tmp/confirm_$ID.$t.log; then echo "test $t fails with patch"; res=bad; fi
done
( cd $W && timeout 300 ./_out/demo >/tmp/confirm_$ID.patched.log 2>&1 ); p=$?
echo "patched demo exit=$p"
[ $p -ne 0 ] || res=bad
git -C /repo worktree remove --force $W; rm -rf $W /tmp/confirm_$ID.*.log
if [ $res = ok ]; then
  D=/verif/seeded/$ID; mkdir -p $D
  rsync -a --exclude demo --exclude "*.o" --exclude "*.log" --exclude "*.txt" $OUT/ $D/
  echo "CONFIRMED $ID -> $D"
else
  echo "NOT CONFIRMED $ID"; exit 1
fi
