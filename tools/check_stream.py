#!/usr/bin/env python3
"""C12 (call-pattern part): MxStream is model-checked (digest buffering and padding for both block sizes, AES-GCM
streaming state); the real digest / HMAC / HKDF / PBKDF2 / AES-GCM / ChaCha20-Poly1305 / CBC functions are driven
along generated call patterns by harness/mxcrypto.c, which logs the projection of the real context after every call
and the verdict of OpenSSL's libcrypto on every output; MxStream_Trace validates every line."""
import os, sys, json, time, collections, subprocess
from concurrent.futures import ThreadPoolExecutor
sys.path.insert(0, os.path.dirname(os.path.abspath(__file__)))
import runner, tlcutil, streamgen

ASSUME = ["OpenSSL's libcrypto (EVP digests, HMAC, AES-GCM, ChaCha20-Poly1305, AES/3DES-CBC, PBKDF2; HKDF built from its HMAC) is the independent implementation every output is compared with",
          "inputs are positional byte patterns (byte i of a message depends on i and a seed only), keys / nonces / AAD likewise; lengths up to 6000 bytes per call, 64 KiB per message",
          "exactness is established on the generated cases only: all (buffer fill x next length) transitions up to two blocks, all total lengths up to three blocks, every single-bit modification of small sealed records - not for every key / message value (C12's universal claim over values is numeric and outside what a TLA+ model can decide)",
          "the build under test is the one the TLS checks use (software AES / GHASH, no AES-NI), with ASan / UBSan"]

MC = [("MxStream_MC_d64.cfg", None), ("MxStream_MC_d128.cfg", None), ("MxStream_MC_g.cfg", None),
      ("MxStream_MC_vac1.cfg", "NeverSpills"), ("MxStream_MC_vac2.cfg", "NeverFullGhash")]

def run(tier, seed):
    prop = "C12"
    t0 = time.time()
    bdir = runner.build()
    p = subprocess.run(["make", "-s", "-f", os.path.join(runner.ROOT, "harness/Makefile"), "B=" + bdir, os.path.join(bdir, "mxcrypto")], cwd=runner.ROOT, capture_output=True, text=True)
    if p.returncode != 0:
        print(p.stderr[-3000:]); raise SystemExit("INFRA: mxcrypto build failed")
    wd = runner.workdir("check_C12")
    violations = []
    states = trans = 0
    for cfg, vac in MC:
        r = tlcutil.run_tlc("MxStream_MC.tla", cfg, workers=4, timeout=1200, tag="mcC12")
        if vac:
            if not r["violation"]: raise SystemExit("INFRA: vacuity guard %s was not violated" % vac)
            continue
        if r["violation"]:
            pth = os.path.join(wd, "model_violation.txt"); open(pth, "w").write(r["out"][-20000:])
            violations.append(("model", r["violation"], pth))
        elif not r["ok"]:
            print(r["out"][-3000:]); raise SystemExit("INFRA: TLC failed on MxStream (%s)" % cfg)
        states += r.get("states", 0); trans += r.get("transitions", 0)
    eps = streamgen.episodes(tier, seed)
    nsh = 16 if tier == "quick" else 48
    shards = runner.shard(eps, nsh)
    jobs = []
    for i, sh in enumerate(shards):
        sp = os.path.join(wd, "s%03d.mc" % i)
        with open(sp, "w") as f:
            for e in sh:
                f.write("\n".join(e["lines"]) + "\nreset %s\n" % e["id"])
        jobs.append(dict(script=sp, trace=os.path.join(wd, "s%03d.nd" % i), episodes=sh))
    with ThreadPoolExecutor(max_workers=runner.NCPU) as ex:
        res = list(ex.map(lambda j: runner.run_driver(bdir, j["script"], j["trace"], timeout=3000, binary="mxcrypto"), jobs))
    good = []
    for j, r in zip(jobs, res):
        j.update(r)
        if r["rc"] == 0:
            good.append(j); continue
        if r["rc"] in (77, 78) or r["rc"] < 0 or r["rc"] > 100:
            # the case that was running: the one after the last complete trace line's episode
            done = 0
            try: done = sum(1 for l in open(j["trace"]) if '"Reset"' in l)
            except OSError: pass
            e = j["episodes"][min(done, len(j["episodes"]) - 1)]
            rp = runner.save_replay(prop, "crash_%s" % e["id"], e["lines"] + ["reset %s" % e["id"]])
            open(rp + ".stderr", "w").write(r["stderr"])
            frames = " ".join(x.strip() for x in r["stderr"].splitlines() if "ERROR" in x or "runtime error" in x or x.strip().startswith(("#0 ", "#1 ", "#2 ", "#3 ")))[:500]
            violations.append(("sanitizer", "mxcrypto terminated abnormally (rc=%s) in episode %s: %s" % (r["rc"], e["id"], frames), rp))
        else:
            print(r["stderr"][-2000:]); raise SystemExit("INFRA: mxcrypto failed rc=%s on %s" % (r["rc"], j["script"]))
    runner.validate_all(good, "MxStream_Trace.tla", "MxStream_Trace.cfg", timeout=3000)
    nvalid = 0; nlines = 0; fam = collections.Counter(); trs = set(); verdicts = collections.Counter()
    for j in good:
        v = j["val"]
        if v["infra"]:
            print(v["out"][-3000:]); raise SystemExit("INFRA: TLC trace validation failed on %s" % j["trace"])
        lines = open(j["trace"]).read().splitlines(); nlines += len(lines)
        # map each trace line to (episode, index of the script line that produced it)
        meta = {e["id"]: e for e in j["episodes"]}
        bad = set()
        owner = {}; cur = []; caseno = 0; order = [e["id"] for e in j["episodes"]]; epi = 0
        starts = ("init", "hinit", "hsingle", "extract", "derive", "ready", "open", "seal")
        for idx, l in enumerate(lines):
            d = json.loads(l)
            if d.get("k") == "Reset":
                epi += 1; caseno = 0; continue
            op = d.get("op")
            if op in starts and not (op == "open" and d.get("alg") == "chacha"):
                caseno += 1
            if op == "seal": pass
            owner[idx + 1] = (order[epi] if epi < len(order) else None, caseno - 1)
            if d.get("k") == "dig" and op == "update": trs.add((d["alg"], "upd", d["n"] if d["n"] < 300 else 300, d["curlen"]))
            if d.get("k") == "gcm" and op == "crypt": trs.add(("gcm", d["n"] if d["n"] < 300 else 300, d["obc"], d["ibc"]))
            if d.get("k") == "aead" and op == "open": verdicts[(d["alg"], d["tamper"], d["accepted"])] += 1
        for ln in v["rejects"]:
            eid, ci = owner.get(ln, (None, 0))
            e = meta.get(eid)
            if e is None or (eid, ci) in bad: continue
            bad.add((eid, ci))
            ci = max(0, min(ci, len(e["lines"]) - 1))
            d = json.loads(lines[ln - 1])
            rp = runner.save_replay(prop, "%s_%d" % (eid, ci), [e["lines"][ci], "reset %s" % eid])
            what = {k: d.get(k) for k in ("k", "alg", "op", "n", "curlen", "bits", "ibc", "obc", "tamper", "bit", "taglen", "accepted", "ptok", "refused", "chain", "ok", "rc") if k in d}
            violations.append(("trace", "line %d rejected by MxStream_Trace: %s  [case: %s]" % (ln, what, e["lines"][ci]), rp))
        nvalid += sum(len(e["lines"]) for e in j["episodes"]) - len(bad)
    for e in eps:
        for f in e["fams"]: fam[f] += 1
    for kind, text, rp in violations[:30]:
        print("VIOLATION property=%s replay=%s" % (prop, rp)); print("  (%s) %s" % (kind, text[:700]))
    cov = {"states": states, "transitions": trans, "traces_validated_against_impl": nvalid, "trace_lines_checked": nlines,
           "evaluations": sum(fam.values()), "distinct_nontrivial": len(trs) + len(verdicts),
           "rule": "evaluation = one case (one object's life: init, updates, final / one seal or open / one derivation); distinct_nontrivial = distinct (algorithm, length of the call, context state after it) transitions of the digest and GCM automata observed on the real contexts, plus distinct (AEAD, modified field, verdict) classes",
           "cases_by_family": dict(fam), "aead_open_verdicts": {"%s/%s/%s" % k: n for k, n in sorted(verdicts.items())},
           "samples": [e["lines"][0] for e in eps[:3]] + [eps[-1]["lines"][-1]], "exhaustive": False}
    runner.write_evidence(prop, tier, seed, "model_checking", cov, time.time() - t0, len(violations), ASSUME)
    return 1 if violations else 0

if __name__ == "__main__":
    import argparse
    ap = argparse.ArgumentParser(); ap.add_argument("--tier", default="quick"); ap.add_argument("--seed", type=int, default=int(os.environ.get("VERIF_SEED", "1")))
    a = ap.parse_args()
    sys.exit(run(a.tier, a.seed))
