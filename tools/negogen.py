#!/usr/bin/env python3
"""C07 scenarios: pairs of client / server configurations (every pair of non-empty version sets; suite, group and
signature-algorithm restrictions; fallback SCSV) and single-byte in-flight rewrites of ClientHello, ServerHello,
HelloRetryRequest and the second ClientHello."""
import itertools, random

TK = "/repo/testkeys"
SRV = "keys ks id=%s/RSA/2048_RSA.pem,%s/RSA/2048_RSA_KEY.pem ca=%s/RSA/2048_RSA_CA.pem" % (TK, TK, TK)
CLI = "keys kc ca=%s/RSA/2048_RSA_CA.pem" % TK
LEG = [0xc02f, 0x3c, 0x2f, 0xc013]
T13S = [0x1301, 0x1302, 0x1303]
POOL = LEG + T13S
VERS = ["T11", "T12", "T13"]

def subsets(xs):
    return [list(c) for n in range(1, len(xs) + 1) for c in itertools.combinations(xs, n)]

def mk(cv, sv, cs=None, nos=(), cg=(23, 24), sg=(23, 24), shares=1, scsv=0, edit=None, kind="pair", expect=1, pre=None, csig=(), ssig=()):
    cs = list(cs if cs is not None else POOL)
    # nos: per-session operations on the server's enabled set, in order: an id disables the suite, ("+", id) enables it again
    nosops = list(nos)
    eff = []
    for o in nosops:
        if isinstance(o, tuple): eff = [x for x in eff if x != o[1]]
        elif o not in eff: eff.append(o)
    nos = tuple(eff)
    # versions are passed in priority order: highest first (the default preference)
    cv = sorted(cv, reverse=True); sv = sorted(sv, reverse=True)
    # a client can only be created with suites usable by at least one of its versions; keep the usable ones
    def usable(s, vs):
        return (s in T13S and "T13" in vs) or (s in (0x2f, 0xc013) and ("T11" in vs or "T12" in vs)) or (s in (0xc02f, 0x3c) and "T12" in vs)
    cs = [s for s in cs if usable(s, cv)]
    if not cs:
        return None
    ss0 = [x for x in POOL if x not in nos]
    # success is only demanded of consistent configurations (every enabled version has a suite it can run)
    if any(not any(usable(x, [v]) for x in cs) for v in cv) or any(not any(usable(x, [v]) for x in ss0) for v in sv):
        expect = 0
    ss = [s for s in POOL if s not in nos]
    co = "ver=%s suites=%s groups=%s shares=%d" % (",".join(cv), ",".join(hex(s) for s in cs), ",".join(str(g) for g in cg), shares)
    if scsv: co += " scsv=1"
    so = "ver=%s groups=%s" % (",".join(sv), ",".join(str(g) for g in sg))
    if nosops: so += " nosuites=%s" % ",".join(("+" + hex(o[1])) if isinstance(o, tuple) else hex(o) for o in nosops)
    L = [SRV, CLI]
    if pre:
        # an earlier connection (suite pre["suite"], version pre["ver"]) fills the client's handle R with a session id or a ticket;
        # the judged connection offers it back to a server whose enabled suites have changed in the meantime
        how = pre["how"]
        L[0] = SRV + (" tickets=1" if how == "ticket" else "")
        L += ["new s9 server keys=ks ver=%s" % pre["ver"], "new c9 client keys=kc ver=%s suites=%s sid=R%s" % (pre["ver"], hex(pre["suite"]), " tick=1" if how == "ticket" else ""),
              "link c9 s9", "pump c9 s9 max=60", "send c9 3", "pump c9 s9 max=8", "close c9", "pump c9 s9 max=8", "del c9", "del s9"]
        co += " sid=R" + (" tick=1" if how == "ticket" else "")
    # signature algorithms: what the client offers / the server enables (empty: the defaults)
    if csig: co += " sigalgs=%s" % ",".join(hex(x) for x in csig)
    if ssig: so += " sigalgs=%s" % ",".join(hex(x) for x in ssig)
    L += ["new s0 server keys=ks %s" % so, "new c0 client keys=kc %s" % co, "link c0 s0"]
    if edit is None:
        L += ["pump c0 s0 max=60"]
    else:
        tgt, off, x = edit
        pre = {"CH": ["flush c0"], "SH": ["flush c0", "deliver c0 1", "flush s0"],
               "CH2": ["flush c0", "deliver c0 1", "flush s0", "deliver s0 1", "flush c0"],
               "SH2": ["flush c0", "deliver c0 1", "flush s0", "deliver s0 1", "flush c0", "deliver c0 1", "flush s0"]}[tgt]
        who = "c0" if tgt in ("CH", "CH2") else "s0"
        L += pre + ["mod %s 0 %d %s" % (who, off, hex(x)), "pump c0 s0 max=60"]
    L += ["state c0", "state s0", "send c0 5", "send s0 6", "pump c0 s0 max=8", "state c0", "state s0"]
    meta = {"C": dict(vers=[int(v[1:]) for v in cv], suites=cs, groups=list(cg), scsv=scsv, expect=expect, sigs=list(csig)),
            "S": dict(vers=[int(v[1:]) for v in sv], suites=ss, groups=list(sg), scsv=0, expect=expect, sigs=list(ssig))}
    return dict(lines=L, ncfg=meta, kind=kind, desc="c=%s s=%s cs=%s nos=%s cg=%s/%d sg=%s scsv=%d edit=%s csig=%s ssig=%s" % (cv, sv, [hex(s) for s in cs], [hex(s) for s in nos], cg, shares, sg, scsv, edit, [hex(x) for x in csig], [hex(x) for x in ssig]))

OFFS = [9, 10, 11, 20, 35, 40, 42, 43, 44, 50, 60, 70, 76, 77, 78, 79, 80, 90, 100, 120, 150, 180, -1, -2, -3, -5, -9, -17, -33]

def episodes(tier, seed):
    rnd = random.Random(seed * 31337 + 11)
    E = []
    # every pair of version sets
    for cv in subsets(VERS):
        for sv in subsets(VERS):
            E.append(mk(cv, sv, kind="versions"))
            if cv != VERS:
                E.append(mk(cv, sv, scsv=1, kind="versions+scsv"))
    # suite restrictions
    for cs in ([0xc02f], [0x2f], [0x3c, 0x1302], [0x1303], [0xc013, 0x1301], [0x1301]):
        for nos in ((), (0xc02f,), (0x1301, 0x1302), (0x2f, 0xc013, 0x3c), tuple(T13S), tuple(LEG)):
            for cv, sv in ((VERS, VERS), (["T12"], VERS), (VERS, ["T11", "T12"]), (["T11", "T13"], VERS)):
                E.append(mk(cv, sv, cs=cs, nos=nos, kind="suites"))
    # suites disabled and enabled again on the server session, in various orders; the client wants what stays disabled
    for cv, sv in ((VERS, VERS), (["T12"], VERS), (["T13"], ["T13"]), (["T11", "T12"], ["T11", "T12"])):
        pool = [x for x in POOL if any((x in T13S and v == "T13") or (x in (0x2f, 0xc013) and v in ("T11", "T12")) or (x in (0xc02f, 0x3c) and v == "T12") for v in cv)]
        for a in pool:
            for b in pool:
                if a == b: continue
                for ops in ([a, b, ("+", a)], [b, a, ("+", a)], [a, b, ("+", a), ("+", b), b], [a, ("+", a), b]):
                    if tier == "quick" and rnd.random() > 0.3: continue
                    E.append(mk(cv, sv, cs=[b], nos=ops, kind="suites-reenable"))
                    E.append(mk(cv, sv, cs=[b, a], nos=ops, kind="suites-reenable"))
    # resumption offered to a server that has disabled the session's suite since: the suite in force must still be enabled by both
    for how in ("id", "ticket"):
        for ver, a, b in (("T12", 0x2f, 0xc02f), ("T12", 0xc02f, 0x3c), ("T12", 0x3c, 0x2f), ("T11", 0x2f, 0xc013), ("T11", 0xc013, 0x2f)):
            for nos in ([a], [b, a, ("+", b)], [a, b, ("+", a), a]):
                E.append(mk([ver], [ver], cs=[a, b], nos=nos, kind="resume-disabled", pre=dict(how=how, ver=ver, suite=a)))
                E.append(mk([ver], VERS, cs=[a, b], nos=nos, kind="resume-disabled", pre=dict(how=how, ver=ver, suite=a)))
    # groups / HelloRetryRequest
    for cg, shares, sg in (((23, 24), 1, (24,)), ((24, 23), 1, (23,)), ((23,), 1, (24,)), ((24,), 1, (23, 24)), ((23, 24), 2, (24, 23)), ((23, 24), 0, (23,))):
        E.append(mk(VERS, VERS, cg=cg, shares=shares, sg=sg, kind="groups"))
        E.append(mk(["T13"], ["T13"], cg=cg, shares=shares, sg=sg, kind="groups"))
    # signature algorithms: every pair of (offered by the client, enabled on the server) lists over three algorithms the server's
    # RSA key can sign with, the empty list standing for the defaults; the algorithm the server signs with (TLS 1.2:
    # ServerKeyExchange, TLS 1.3: CertificateVerify) must be on both lists, and with no common algorithm there is no handshake.
    # (TLS 1.2 lists: SHA-256, SHA-384 and SHA-1 with RSA; the library never signs with SHA-1 when it has a choice, so completion is
    # demanded only when SHA-256 or SHA-384 is shared. SHA-512 PKCS#1 v1.5 signing is not in this build and is left out.)
    for ver, suite, algs, cansign in (("T12", 0xc02f, (0x0401, 0x0501, 0x0201), (0x0401, 0x0501)), ("T13", 0x1301, (0x0804, 0x0805, 0x0806), (0x0804, 0x0805, 0x0806))):
        lists = [()] + [tuple(x) for x in subsets(list(algs))]
        for csig in lists:
            for ssig in lists:
                common = set(csig or algs) & set(ssig or algs)
                # TLS 1.2: the server's certificate chain (signed with SHA-256/RSA) has to be acceptable to the client as well
                certok = ver == "T13" or (0x0401 in (csig or algs))
                E.append(mk([ver], [ver], cs=[suite], csig=csig, ssig=ssig, kind="sigalgs", expect=1 if (common & set(cansign)) and certok else 0))
    # in-flight rewrites
    base = [dict(cv=VERS, sv=VERS), dict(cv=["T12"], sv=VERS), dict(cv=VERS, sv=["T12"]), dict(cv=["T11", "T12"], sv=["T11", "T12"], cs=[0x2f]),
            dict(cv=["T13"], sv=["T13"], cs=[0x1303])]
    hrr = dict(cv=VERS, sv=VERS, cg=(23, 24), shares=1, sg=(24,))
    offs = OFFS if tier == "quick" else sorted(set(OFFS + list(range(5, 260, 3))))
    for b in base:
        for tgt in ("CH", "SH"):
            for off in offs:
                E.append(mk(edit=(tgt, off, rnd.choice([1, 0x80, 0x10, 3])), kind="edit-" + tgt, **b))
    for tgt in ("CH", "SH", "CH2", "SH2"):
        for off in (offs if tier == "quick" else list(range(5, 330))):
            E.append(mk(edit=(tgt, off, rnd.choice([1, 0x80, 2])), kind="hrr-edit-" + tgt, **hrr))
    E = [e for e in E if e is not None]
    for i, e in enumerate(E):
        e["id"] = "N%d" % i
    return E

def render(eps, start):
    L = []
    for e in eps:
        L += e["lines"] + ["reset %s" % e["id"]]
    return L
