#!/usr/bin/env python3
"""Checks C01, C06, C15: MxSession model checked by TLC; scenarios (honest prefix x adversary action x
continuation) executed on real sessions by mxdrive; every recorded trace validated against MxSession_Trace."""
import os, sys, json, time, collections, random
sys.path.insert(0, os.path.dirname(os.path.abspath(__file__)))
import runner, sessgen, tlcutil

ACTSETS = {
    "C01": lambda a: a.startswith(("plain-app", "forge-app", "forge-badseq", "reflect", "replay", "none", "dup", "swap",
                                   "plain-unknown", "garbage", "mod-type", "mod-body0", "mod-last", "takeover")),
    "C06": lambda a: a.startswith(("plain-hs", "forge-hs", "plain-ccs", "forge-ccs", "hs-", "drop", "dup", "swap", "mod-",
                                   "replay", "trunc", "none")),
    "C15": lambda a: a.startswith(("plain-alert", "forge-alert", "garbage", "mod-", "trunc", "plain-unknown", "forge-badseq",
                                   "plain-app", "plain-hs-0", "plain-hs-20", "forge-hs-1", "forge-hs-20", "plain-ccs", "reflect",
                                   "replay")),
}
QUICK_BUDGET = {"C01": 2600, "C06": 5200, "C15": 3200}

ASSUME = [
    "record protection primitives are correct: a record verifies iff it was sealed by a holder of the keys for the receiver's current key and sequence number and was not modified (the driver computes this from key fingerprints and sequence numbers read from the two session structs)",
    "default build configuration (TLS 1.1-1.3, DTLS 1.0/1.2, renegotiation compiled out)",
    "exhaustive in the model for one endpoint against every abstract record kind in every reachable state; on the implementation a finite set of concrete scenarios (see coverage.rule)"]

def signature(d, ctx, meta, prior):
    fam = "T13" if str(d.get("ver")) == "T13" else "L"
    return {"ev": d.get("ev"), "role": d.get("role"), "itype": str(d.get("itype")), "imsg": d.get("imsg"), "auth": str(d.get("auth")),
            "origin": str(d.get("origin")), "spec_hs": ctx.get("hs"), "spec_rd": ctx.get("rd"), "spec_dead": ctx.get("dead"),
            "fam": fam, "ver": d.get("ver"), "cfg": meta.get("cfg"), "act": meta.get("act"), "obs_hs": d.get("hs"), "rc": d.get("rc")}

def calibrate(bdir, wd):
    """length (number of record deliveries) of the honest run of every configuration"""
    eps = []
    for cfg in sessgen.cfgs():
        eps.append(dict(cfg=cfg["name"], k=200, target="c0", act="none", cont="pump", _cfg=cfg, _act=("none", []), _cont=("pump", [])))
    runs = runner.run_all(bdir, wd, [eps], sessgen.render)
    r = runs[0]
    if r["rc"] not in (0,):
        print(r["stderr"][-3000:])
        raise SystemExit("INFRA: calibration run failed rc=%s" % r["rc"])
    n = collections.Counter()
    lines = open(r["trace"]).read().splitlines()
    cur = 0
    for l in lines:
        d = json.loads(l)
        if d.get("ev") == "deliver" and d.get("ep") in ("c0", "s0"):
            cur += 1
        if d.get("ev") == "Reset":
            tag = d.get("tag")
            for e in eps:
                if e.get("id") == tag:
                    n[e["cfg"]] = cur
            cur = 0
    return dict(n), r

def main(prop, tier, seed):
    t0 = time.time()
    rnd = random.Random(seed)
    bdir = runner.build()
    wd = runner.workdir("check_" + prop)
    violations = []   # (kind, text, replay)
    known_hit = {}
    # 1. the model
    mc = tlcutil.run_tlc("MxSession_MC.tla", "MxSession_MC.cfg", workers=16, timeout=1200, tag="mc" + prop)
    if mc["violation"]:
        p = os.path.join(wd, "model_violation.txt")
        open(p, "w").write(mc["out"][-20000:])
        violations.append(("model", mc["violation"], p))
    elif not mc["ok"]:
        print(mc["out"][-3000:])
        raise SystemExit("INFRA: TLC failed on MxSession_MC")
    vac = tlcutil.run_tlc("MxSession_MC.tla", "MxSession_MC_vac.cfg", workers=16, timeout=600, tag="vac" + prop)
    vacuous = not vac["violation"]       # the witnesses must be reachable (i.e. their negation violated)
    # 2. scenarios on the implementation
    calib, crun = calibrate(bdir, os.path.join(wd))
    allowed = ACTSETS[prop]
    eps = []
    A = [a for a in sessgen.actions(tier) if allowed(a[0])]
    only = os.environ.get("VERIF_ONLY_CFG")
    for cfg in sessgen.cfgs():
        if only and cfg["name"] not in only.split(","):
            continue
        N = calib.get(cfg["name"], 12)
        for k in range(0, N + 2):
            for target in ("c0", "s0"):
                for act in A:
                    if act[0].startswith("takeover") and not (cfg["fam"] == "T13" and target == "s0" and k <= 4):
                        continue
                    for c in sessgen.CONTS:
                        eps.append(dict(cfg=cfg["name"], k=k, target=target, act=act[0], cont=c[0], _cfg=cfg, _act=act, _cont=c))
    total_space = len(eps)
    if tier == "quick":
        rnd.shuffle(eps)
        # keep every (cfg, action) pair at least once, then fill up to the budget
        seen, keep, rest = set(), [], []
        for e in eps:
            # ChangeCipherSpec handling depends on the exact handshake state: keep those injections at every stop point
            key = (e["cfg"], e["act"], e["target"], e["k"] if e["act"].startswith(("takeover", "plain-ccs", "forge-ccs")) else -1)
            if key not in seen:
                seen.add(key); keep.append(e)
            else:
                rest.append(e)
        eps = keep + rest[:max(0, QUICK_BUDGET[prop] - len(keep))]
    # thorough: many small traces (a trace of 150 000 lines takes more memory in TLC than sixteen validations side by side have)
    import honest
    honest.check(bdir, wd, sessgen.cfgs(), "sessgen")        # every configuration's undisturbed handshake works (vacuity guard)
    shards = runner.shard(eps, 16 if tier == "quick" else 160)
    runs = runner.run_all(bdir, wd, shards, sessgen.render)
    for r in runs:
        if r["rc"] in (77, 78, -11, -6, 134, 139) or r["rc"] < 0:
            rp = runner.save_replay(prop, "crash_" + os.path.basename(r["script"]), open(r["script"]).read().splitlines())
            open(rp + ".stderr", "w").write(r["stderr"])
            violations.append(("sanitizer", "driver terminated abnormally rc=%s: %s" % (r["rc"], r["stderr"][-300:].replace("\n", " ")), rp))
        elif r["rc"] != 0:
            print(r["stderr"][-2000:])
            raise SystemExit("INFRA: driver failed rc=%s on %s" % (r["rc"], r["script"]))
    runner.validate_all(runs, nproc=16 if tier == "quick" else 8, timeout=1500 if tier == "quick" else 6000)
    known = runner.load_known(prop)
    nvalid = 0
    states = transitions = 0
    distinct = set()
    samples = []
    for r in runs:
        v = r["val"]
        if v["infra"]:
            print(v["out"][-3000:])
            raise SystemExit("INFRA: TLC trace validation failed on %s" % r["trace"])
        states += v["states"]; transitions += v["transitions"]
        lines = open(r["trace"]).read().splitlines()
        meta = {e["id"]: e for e in r["episodes"]}
        rejected_eps = set()
        if v["violation"]:
            rp = runner.save_replay(prop, "inv_" + os.path.basename(r["script"]), open(r["script"]).read().splitlines())
            violations.append(("invariant", "%s violated while validating %s" % (v["violation"], os.path.basename(r["trace"])), rp))
        for ln in v["rejects"]:
            d = json.loads(lines[ln - 1])
            tag = runner.episode_of_line(lines, ln)
            m = meta.get(tag, {})
            rejected_eps.add(tag)
            sig = signature(d, v["ctx"].get(ln, v["ctx"].get(str(ln), {})), m, None)
            k = runner.match_known(sig, known)
            if k:
                known_hit[k["id"]] = k
                continue
            if m:
                script = sessgen.episode_lines(m["_cfg"], m["k"], m["target"], m["_act"], m["_cont"], tag)
            else:
                script = open(r["script"]).read().splitlines()
            rp = runner.save_replay(prop, "%s_%s_k%s_%s_%s" % (m.get("cfg", "x"), m.get("act", "x"), m.get("k", "x"), m.get("target", "x"), tag), script)
            violations.append(("trace", "line %d of %s not explained by MxSession: %s" % (ln, os.path.basename(r["trace"]), json.dumps(sig)), rp))
        # coverage accounting
        prior = {}
        for l in lines:
            d = json.loads(l)
            if d.get("ev") == "Reset":
                prior = {}
                continue
            if d.get("ev") == "deliver":
                hsb = prior.get(d["ep"], "init")
                distinct.add((d.get("role"), d.get("ver"), hsb, d.get("itype"), d.get("imsg"), d.get("origin"), d.get("auth"), d.get("hs"), d.get("rc")))
            if "hs" in d and "ep" in d:
                prior[d["ep"]] = d["hs"]
        nvalid += len([e for e in r["episodes"] if e["id"] not in rejected_eps])
    for e in eps[:3]:
        samples.append({"episode": {k: e[k] for k in ("cfg", "k", "target", "act", "cont")},
                        "script": sessgen.episode_lines(e["_cfg"], e["k"], e["target"], e["_act"], e["_cont"], "S")[:40]})
    for k in known_hit.values():
        print("KNOWN-FINDING: property=%s %s" % (prop, k["what"]))
    for kind, text, rp in violations[:40]:
        print("VIOLATION property=%s replay=%s" % (prop, rp))
        print("  (%s) %s" % (kind, text[:600]))
    cov = {"states": mc.get("states", 0), "transitions": mc.get("transitions", 0),
           "traces_validated_against_impl": nvalid,
           "samples": samples,
           "evaluations": len(eps), "distinct_nontrivial": len(distinct),
           "rule": "episode = configuration x honest prefix of k record deliveries x one adversary action from the %s action set x continuation; "
                   "quick tier samples %d of the %d episodes of the thorough tier (every configuration x action x target at least once); "
                   "distinct_nontrivial counts distinct (role, version, state before, record kind, origin, authentic?, state after, return class) tuples observed in delivered records" % (prop, len(eps), total_space),
           "trace_states_checked": states, "model_depth": mc.get("depth", 0),
           "model_vacuity_witnesses_reachable": (not vacuous),
           "known_findings_reported": sorted(known_hit.keys()),
           "exhaustive": False}
    runner.write_evidence(prop, tier, seed, "model_checking", cov, time.time() - t0, len(violations), ASSUME)
    return 1 if violations else 0
