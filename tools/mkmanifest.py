#!/usr/bin/env python3
"""Regenerates MANIFEST.json from the table below (single source of truth for the interface)."""
import json, os, subprocess
ROOT = os.path.dirname(os.path.dirname(os.path.abspath(__file__)))

NA = [
  ("C09", "totality/memory safety of pure parsers over arbitrary bytes: no state, history or interleaving for a TLA+ specification to constrain; TLC cannot observe undefined behaviour"),
  ("C11", "mathematical validity of signatures / agreement with an independent implementation is numeric correctness of pure functions; not expressible in TLC (32-bit ints) without re-implementing the arithmetic"),
  ("C12", "bit-exact outputs of hashes/MACs/KDFs/ciphers for all lengths are numeric accuracy of pure functions; nothing to model-check"),
  ("C13", "exact multi-precision arithmetic over 64-bit digits incl. assembly paths is numeric accuracy; a small-digit model would not be bound to those code paths"),
]

SESSION_NOTE = ("Trusted base: TLC; the driver's authenticity oracle (key fingerprint + sequence number read from both session structs) stands in for "
                "the cryptographic assumption that only key holders can produce verifying records; default build configuration; ASan+UBSan build of the library. "
                "Model level: exhaustive for one endpoint against every abstract record kind in every reachable state. Implementation level: a finite scenario set "
                "(configuration x stop point x adversary action x continuation), every recorded line validated against the spec.")

CHECKS = {
  "C01": dict(level="model_checking", design="3.1, 4 (C01)",
      text="MxSession is model-checked exhaustively (delivery and encode gates as invariants over ghost logs of every delivery/send); the same spec validates, line by line, traces recorded from real client and server sessions driven through every handshake stop point with injected plaintext application data, application data forged under the session keys, replayed/reflected/duplicated records and send attempts in every state.",
      technique="TLA+ spec MxSession checked by TLC + trace validation of mxdrive executions (MxSession_Trace)"),
  "C06": dict(level="model_checking", design="3.1, 4 (C06)",
      text="The handshake state gates transcribed from the code are model-checked against an independently written set of legal message sequences (LegalCompletion) for every version/mode/role; traces of real sessions receiving every handshake message type (unprotected and forged under the keys), CCS variants and deleted/duplicated/swapped/re-framed genuine messages at every stop point are validated against the same gates, including the internal gate/accept events reported by guarded hooks.",
      technique="TLA+ spec MxSession checked by TLC + trace validation of mxdrive executions (MxSession_Trace)"),
  "C15": dict(level="model_checking", design="3.1, 4 (C15)",
      text="DeadIsAbsorbing is checked as an action property of MxSession; traces of real sessions hit by every error-inducing event (alerts in/out, corrupt/truncated/garbage records, illegal messages) at every stop point followed by continuations (genuine next records, replays, sends, closure) are validated: after death nothing may be accepted, delivered or encrypted and calls must report error/close.",
      technique="TLA+ spec MxSession checked by TLC + trace validation of mxdrive executions (MxSession_Trace)"),
  "C02": dict(level="model_checking", design="3.2, 4 (C02)",
      text="MxChannel (sender, in-band key change, attacker edit scripts drop/dup/swap/modify/replay/inject, receiver) is model-checked for Prefix and TamperKills over all edit scripts within the bounds; on the implementation, sampled edit scripts and bit flips (every bit of a short record in the thorough tier) per suite family x version are run on established connections and every trace is validated against MxChannel_Trace (delivery continues the peer's byte stream contiguously; nothing from a non-authentic record; a failing record is fatal on TLS) and MxSession_Trace.",
      technique="TLA+ spec MxChannel checked by TLC + trace validation of mxdrive executions (MxChannel_Trace, MxSession_Trace)"),
  "C17": dict(level="model_checking", design="3.2, 4 (C17)",
      text="NonceFresh and SeqMonotone are invariants of MxChannel (sealing with in-band key change); on the implementation every AEAD seal of every run is observed at the primitive (key fingerprint, nonce, plaintext digest) through link-time wrappers and validated by MxChannel_Trace: a repeated (key, nonce) must be a byte-identical DTLS retransmission, sequence numbers strictly increase per key, each CBC record has a fresh PRNG draw and no explicit IV repeats on the wire. Scenarios: mixed sends/alerts/closure/tickets per suite, DTLS loss+timer schedules incl. loss of the final flight.",
      technique="TLA+ spec MxChannel checked by TLC + trace validation of every seal observed via link-time wrappers (MxChannel_Trace)"),
  "C03": dict(level="model_checking", design="3.6, 4 (C03)",
      text="MxX509 states the property (Valid: a signed path to an anchor with CA/keyUsage/pathLen/validity/critical-extension rules) and the transcribed procedure of matrixValidateCertsExt/psX509AuthenticateCert (Walk); TLC compares them exhaustively over 77k abstract scenarios (7 chain shapes x 5 anchor sets x two single-field deviations anywhere: signatures corrupted/wrong key/copied octets, names, CA flag, pathLen, keyUsage, validity, critical unknown extension, algorithm, AKI/SKI, EKU). The same scenarios are generated as real DER certificates with OpenSSL and run through the library; every answer is validated by TLC against Valid (soundness, and completeness on the supported subset).",
      technique="TLA+ spec MxX509 (Valid vs transcribed Walk) checked by TLC + validation of the library's verdicts on generated chains (MxX509_Trace)"),
  "C04": dict(level="model_checking", design="3.1, 4 (C04)",
      text="MxAuth (credential class x callback mode x proof-of-possession class -> the three verification steps Certificate / signed message / Finished, one rule for all versions) is model-checked for AuthBeforeComplete, NoCallbackMeansFatal and NeverToldNoFailure. Every scenario (5 versions incl. DTLS x RSA transport / ECDHE-RSA / ECDHE-ECDSA / static ECDH / TLS 1.3 signature schemes x client and server verifier x no / strict / permissive callback x 14 single-defect chains built with OpenSSL x {bad signature, rewritten SignatureScheme, signature lifted from another handshake, parameters changed after signing, wrong private key}) is executed as a real handshake against a deviant prover and its trace validated step by step against MxAuth_Trace: a message is accepted, the callback is told an alert, the handshake completes only as the model allows.",
      technique="TLA+ spec MxAuth checked by TLC + trace validation of real handshakes with defective credentials / proofs (MxAuth_Trace, MxSession_Trace)"),
  "C14": dict(level="model_checking", design="3.5, 4 (C14)",
      text="MxResume transcribes the server's bounded session cache (register / resume / update / clear with in-use counts and the replacement list) and stateless tickets, and is model-checked under every history of full handshakes, resumptions with the same or changed parameters, handle edits (truncated / altered id, secret, ticket, foreign key), handle theft, clock ticks, fatal alerts, closes, drops and ticket key rotation for 2 clients; ResumeSound (a completed resumption is justified by an issued, unexpired, not invalidated session state with the same secret and parameters, presented exactly as issued, sealed by a key still held) is an invariant. Random and directed histories of the same operations (plus cache overflow with 31-40 filler sessions and TLS 1.3 PSK resumption) are run on the real library and every completed resumed handshake of a server is judged by MxResume_Trace with the same predicate over fingerprints of secrets, ids, tickets and PSKs.",
      technique="TLA+ spec MxResume checked by TLC + trace validation of resumption histories on the real library (MxResume_Trace, MxSession_Trace)"),
  "C16": dict(level="model_checking", design="3.3, 4 (C16)",
      text="MxDtls (two endpoints, flights with message_seq, epochs, per-epoch record acceptance, timer- and repetition-driven retransmission that opens a new epoch for a re-sent Finished, a network that drops / duplicates / reorders within budgets) is model-checked for AppOnce, HsMonotone, DoneMeansPeerFinished and, under weak fairness of delivery and timers, completion. Real DTLS 1.0/1.2 sessions (RSA, ECDHE-RSA, ECDHE-ECDSA, PSK, resumed, client auth, PMTU 512/300 forcing fragmentation) are driven through datagram schedules - exhaustive over {deliver, drop, duplicate}^n for the first datagrams of the short handshakes, random over five decisions, whole-flight losses - followed by healing, application data, replays of every captured record and more application data; every execution is validated by MxDtls_Trace (a protected record passes the record layer once, an application record reaches the application once, handshake state never regresses, both sides complete and all later application records arrive) and by MxSession_Trace.",
      technique="TLA+ spec MxDtls checked by TLC (safety + liveness under fairness) + trace validation of scheduled DTLS executions (MxDtls_Trace, MxSession_Trace)"),
  "C07": dict(level="model_checking", design="3.4, 4 (C07)",
      text="MxNegotiate (client and server configurations over 3 versions x 4 suites x 2 groups with key shares and SCSV, the server's choice procedure, a man in the middle with 8 kinds of single-field hello rewrites) is model-checked over all 4.7 million configuration pairs x edits for BothEnabled, HighestVersion and FallbackRefused. Real handshakes are run for all 49 pairs of non-empty version sets (with and without SCSV), suite and group restrictions incl. HelloRetryRequest flows, and with one-byte in-flight rewrites of ClientHello, ServerHello, HelloRetryRequest and the second ClientHello at a spread of offsets (every third byte / every byte of the HRR flow in the thorough tier); MxNegotiate_Trace judges each: completed => version, suite, group enabled by both, version the highest both can run, identical parameters and master secret on both sides, no completion after any rewrite or unjustified fallback.",
      technique="TLA+ spec MxNegotiate checked by TLC + trace validation of configured handshakes and hello rewrites (MxNegotiate_Trace, MxSession_Trace)"),
  "C18": dict(level="model_checking", design="3.7, 4 (C18)",
      text="MxFrame (input buffer, record extraction, output buffer under arbitrary receive-piece and partial-send sizes) is model-checked for ChunkIndependent over every partition of two small record streams. On the implementation 21 scenarios (full, resumed by id / ticket / PSK, client auth, version fallback, PSK suite, TLS 1.3 early data, four failing handshakes, server-speaks-first followed by a resumption) with application data across record boundaries are run with the random source and clock pinned, once in one piece and then under fixed piece sizes 1..16384, pseudo-random piece sizes and partial sends; MxFrame_Trace requires each endpoint's final view (state, result, alerts, digest and count of every byte emitted and of all plaintext delivered, resumption of the follow-up connection) to equal the reference.",
      technique="TLA+ spec MxFrame checked by TLC + differential trace validation of re-chunked executions (MxFrame_Trace)"),
  "C08": dict(level="exploration", design="3.7, 4 (C08), 6",
      text="Exploration guided by the MxSession state space: every configuration (TLS 1.1-1.3, DTLS 1.0/1.2 incl. small path MTUs that fragment handshake messages, resumed, tickets, PSK, client auth, early data) x every stop point of its handshake x both roles x structure-aware and random mutations (byte flips, record / handshake / DTLS fragment header fields incl. later fragments that lie about message length and offset, truncation, garbage, injected records of every type up to 20000 bytes, records forged under the session keys with random handshake types and bodies, re-framed / duplicated / deleted / swapped handshake messages, replays, reflections, pairs of these) x continuation (more traffic, closure, timers, deletion), executed on the ASan + LSan + UBSan build with time limits. Alarms: sanitizer reports, leaks at process end, time-outs / loop guards, undocumented return values of matrixSslReceivedData. The universal quantifier over all byte strings is sampled, not exhausted - hence exploration.",
      technique="spec-guided exploration: MxSession stop points x mutation grammar on the sanitizer build; traces also validated against MxSession_Trace (reported, not alarmed)"),
  "C19": dict(level="fault_enumeration", design="3.8, 4 (C19)",
      text="Single-fault enumeration over the library's allocator: each scenario (7 version / key-exchange modes x client and server verifier x honest, defective-credential and defective-proof peers from the C04 generator, covering key loading, session creation, handshake, application data, closure, deletion) is first run to count its allocations (100 - 38000), then re-run with the k-th allocation failing - every k in the thorough tier; in the quick tier every distinct allocation call site (innermost return addresses, recorded by the counting run) at least once, rarest first, up to 240 per scenario, plus the first 8 and a random sample - each run in its own process on the ASan/UBSan build with LeakSanitizer's leak check after all objects are deleted. Follow-up scenarios (session id, RFC 5077 ticket, TLS 1.3 PSK stored in an application-owned handle during the faulted connection; then, with injection off, a second connection with the same handle and key set) must complete: state left behind by the failed allocation may not break fault-free use. Alarms: crash, sanitizer report, leak, hang, a follow-up connection that does not complete, and any trace MxAuth_Trace rejects: under a fault a handshake may fail, but it may not complete with a verification step skipped (defective credentials / proofs never complete, a permissive callback must still be told a failure).",
      technique="exhaustive single allocation-fault injection (Malloc/Calloc/Realloc redefined at build time) + sanitizers + trace validation against MxAuth_Trace (fault-lenient mode)"),
  "C10": dict(level="model_checking", design="3.4, 4 (C10)",
      text="The outcome MxNegotiate prescribes for two endpoints restricted to one mutually supported (version, suite) is stated as MxInterop_Trace; every combination of role assignment x TLS 1.1/1.2/1.3 x 23 suite/key pairs x {plain, client authentication, resumption by session id / ticket / TLS 1.3 ticket, client auth + ticket, each ECDHE / TLS 1.3 group, each signature algorithm with and without client auth, HelloRetryRequest flows incl. resumption} is executed between the library and OpenSSL 3.5's libssl over memory BIOs with payloads of 1 to 40000 bytes in both directions, and TLC judges each run: both complete with that version and suite, every payload arrives intact both ways on the first and on the resumed connection, both stacks agree that the second connection was resumed.",
      technique="trace validation (MxInterop_Trace, derived from the model-checked MxNegotiate) of executions against an independent implementation (OpenSSL libssl)"),
  "C20": dict(level="model_checking", design="3.5, 4 (C20)",
      text="MxConc (threads whose operations are Begin / mutex-protected critical section / End, ticket key rotation against resumption attempts, nested ECDHE-cache -> PRNG locking) is model-checked for mutual exclusion, progress under weak fairness (no deadlock) and Serializable - the rule that says what the Begin / End stamps of a global counter allow one to conclude about a resumption outcome. Randomized multi-threaded scripts (2-8 threads: full handshakes, resumption by session id / ticket / TLS 1.3 PSK, data, closure, deletion, concurrent ticket key rotation; directed scripts with overlapping lifetimes that share and cycle cache entries) run against ONE shared key set and the global session cache on the ThreadSanitizer build of the library, several processes at a time; every data race / lock-order report is an alarm, and the merged stamp-ordered log of every run is validated by MxConc_Trace: mutexes acquired only when free and released by their holder, nesting order acyclic, every connection complete with intact data and both ends agreeing on 'resumed', resumption outcomes allowed by Serializable.",
      technique="TLA+ spec MxConc checked by TLC (safety + progress) + ThreadSanitizer runs whose stamped logs are validated against MxConc_Trace"),
  "C05": dict(level="model_checking", design="3.6, 4 (C05)",
      text="MxName states the matching rule (exact case-insensitive match per kind, '*' for exactly one left-most label, CN only without supported SAN); TLC tabulates it over a universe of patterns x expected names and checks order independence, CN-only-without-SAN and one-label wildcards as invariants. Real leaf certificates with generated SAN lists (0-3 entries from a pool with wildcards in every position, partial wildcards, case variants, trailing dots, control characters, trailing/double/embedded NULs, e-mail, IP, URI entries; every order of sampled pairs/triples) x CN choices are run through matrixValidateCertsExt for each expected name of a grammar, and every verdict is validated by TLC against Match (soundness; completeness on names without trailing dot).",
      technique="TLA+ spec MxName checked by TLC + validation of the library's verdicts on generated certificates (MxName_Trace)"),
}
PKI_NOTE = ("Trusted base: TLC; OpenSSL (harness/certgen.c) as the independent certificate factory and the abstract-field -> DER mapping; 'success' = return code >= 0 and every presented certificate PS_CERT_AUTH_PASS. "
            "CRLs/OCSP are not modelled. Quick tier: all scenarios with at most one deviation plus a sample of pairs; thorough: the whole universe.")
CHAN_NOTE = ("Trusted base: TLC; link-time wrappers around psAesInitGCM/psAesEncryptGCM/psChacha20Poly1305Ietf*/psGetPrngLocked and the guarded seal hook are the observation points; "
             "the driver compares delivered bytes with the peer application's stream; authenticity oracle as for C01. Bounds: model MaxMsgs/MaxEdits/MaxPhases (see cfg); implementation: sampled scenarios per suite family x version.")
NAME_NOTE = ("Trusted base: TLC; OpenSSL (harness/certgen.c) writes the raw GeneralName octets; the abstract view of a name (labels, wildcard kind per label, flags) is computed by tools/namegen.py from the same string. "
             "CStringSan (a SAN entry with one terminating zero byte is read as the C string before it) is a named, deliberate behaviour of the library and modelled as such; e-mail local parts: soundness uses the case-insensitive reading, completeness the verbatim one.")
AUTH_NOTE = ("Trusted base: TLC; OpenSSL (harness/certgen.c) builds each defective chain; the generator's scenario record is the ground truth. The deviant prover is a MatrixSSL session whose presented chain is swapped after key loading and whose own handshake messages are rewritten by the driver before sealing (for TLS <= 1.2 before they enter its transcript). "
             "Not covered: revocation (CRL/OCSP), certificates refused by the parser (C03), renegotiation. Quick tier: three modes in full, the others sampled; thorough: all 11 modes in full.")
RES_NOTE = ("Trusted base: TLC; fingerprints (32-bit FNV) of master secret, session id, ticket, PSK id/key logged by the driver; the driver's virtual clock (gettimeofday, time, clock_gettime wrapped). One-directional: refusing to resume is never an alarm. "
            "Model bounds: 2 clients, table of 1 (quick) or 2 (thorough) entries, 3-4 session states, lifetime 1 tick, 1 edit/theft, one parameter dimension per config. Not modelled: multi-process servers sharing ticket keys, TLS 1.3 external PSKs.")
DTLS_NOTE = ("Trusted base: TLC; the driver's queues as the datagram network (no byte is altered); timers fired by the driver for endpoints that have sent a flight and are not complete; record-layer pass events from the guarded hook. "
             "Model bounds: 2 drops, 2 duplications, 2 retransmissions, 1 application record per side (safety); 2 drops, 3 retransmissions (liveness). Cookie exchange and fragmentation are exercised on the implementation only.")
NEGO_NOTE = ("Trusted base: TLC; the generator's configuration records; the driver's byte rewrite. Versions are passed to the API highest first (its default preference order). "
             "Signature algorithm choice and TLS <= 1.2 ECDHE group choice are observed but not judged; extended-master-secret negotiation is judged only through equality on both sides; DTLS is excluded from rewrites.")
FRAME_NOTE = ("Trusted base: TLC; the driver's pinned entropy and clock wrappers; FNV digests of emitted / delivered bytes. Quick tier: 10 partitions per scenario, thorough: 56. "
              "The count of REQUEST_RECV / REQUEST_SEND round trips is deliberately not compared; DTLS is out of scope of the property.")
GARB_NOTE = ("Trusted base: the compilers' sanitizers; the driver's time limits and loop guards. A seeded sample (3200 episodes quick, 48000 thorough), not a proof; coverage-guided fuzzing is not used (libFuzzer is outside this technique family). "
             "Lines of these traces that MxSession_Trace does not explain are counted in the evidence, not alarmed: C06 / C15 judge sequence-level behaviour on curated input classes.")
FAULT_NOTE = ("Trusted base: the sanitizers; osdep_malloc.h's documented override of Malloc/Calloc/Realloc (no source change); the driver treats a key set whose loading failed as unusable, as an application would. "
              "Single faults (and random pairs in the thorough tier); allocation failures inside libc / OpenSSL are not injected; multi-threaded scenarios are not covered.")
INTEROP_NOTE = ("Trusted base: OpenSSL 3.5 libssl as the reference implementation; TLC. The model-checked part is MxNegotiate (C07); MxInterop_Trace only states its consequence for singleton configurations plus the data round trip. "
                "Not covered: DTLS, PSK suites, static ECDH suites, external TLS 1.3 PSKs, early data; OpenSSL runs with SSL_OP_LEGACY_SERVER_CONNECT (the pinned build has RFC 5746 signalling compiled out) and security level 0.")
CONC_NOTE = ("Trusted base: ThreadSanitizer's happens-before analysis on the schedules that actually occur (24 runs quick, 300 thorough; not all interleavings); TLC; link-time wrappers of psLockMutex / psUnlockMutex and a global atomic stamp counter. "
             "Client-side handles (sslSessionId_t) are not shared between threads (the application owns them); the CRL cache is not exercised.")
NOTES = {"C20": CONC_NOTE, "C10": INTEROP_NOTE, "C19": FAULT_NOTE, "C08": GARB_NOTE, "C18": FRAME_NOTE, "C07": NEGO_NOTE, "C16": DTLS_NOTE, "C14": RES_NOTE, "C04": AUTH_NOTE, "C05": NAME_NOTE, "C01": SESSION_NOTE, "C06": SESSION_NOTE, "C15": SESSION_NOTE, "C02": CHAN_NOTE, "C17": CHAN_NOTE, "C03": PKI_NOTE}

def main():
    hooks_commits = subprocess.run(["git", "-C", "/repo", "log", "--format=%h %s", "--grep=^verif:"], capture_output=True, text=True).stdout.strip().splitlines()
    m = {
     "version": 1,
     "setup_cmd": "python3 tools/mkbuild.py asan >/dev/null && make -s -f harness/Makefile B=/verif/build/asan",
     "hooks": {
      "guard": "MATRIXSSL_VERIF",
      "enable": "tools/mkbuild.py compiles /repo's sources out of tree (objects under /verif/build/<variant>) with -DMATRIXSSL_VERIF plus sanitizers; compile commands are derived from the repository's own makefiles by `make -n -B`",
      "baseline_off_cmd": "tools/baseline_off.sh",
      "source_commits": [c.split()[0] for c in hooks_commits],
      "add_only": True
     },
     "engines": [
       {"name": "mxdrive", "path": "harness/mxdrive.c", "serves_properties": sorted(CHECKS), "kind_free_text": "script-driven in-memory driver of real MatrixSSL sessions with a fully controlled network (edit, inject, forge, replay), tracer"},
       {"name": "tlc", "path": "spec/", "serves_properties": sorted(CHECKS), "kind_free_text": "TLC model checking of the Mx*.tla specifications and trace validation (Mx*_Trace.tla)"}
     ],
     "checks": [],
     "not_applicable": [{"property_id": p, "reason": r} for p, r in NA],
     "notes": "see DESIGN.md; known_findings.json lists genuine defects (fixed ones with their fix: commits, open ones reported as KNOWN-FINDING)"
    }
    for pid in sorted(CHECKS):
        c = CHECKS[pid]
        m["checks"].append({
          "property_id": pid,
          "quick_cmd": "./check %s --tier quick" % pid,
          "thorough_cmd": "./check %s --tier thorough" % pid,
          "evidence_file": "/verif/evidence/%s.json" % pid,
          "replay_cmd_template": "./check %s --replay {path}" % pid,
          "engine": "mxdrive+tlc",
          "level_claimed": {"category": c["level"], "text": c["text"], "design_ref": c["design"]},
          "level_note": NOTES[pid],
          "technique": c["technique"],
        })
    json.dump(m, open(os.path.join(ROOT, "MANIFEST.json"), "w"), indent=1)

if __name__ == "__main__":
    main()
