#!/usr/bin/env python3
"""Scenario generator for the MxSession-based checks (C01, C06, C15, parts of C04/C02).
An episode = honest handshake up to a stop point, one adversary action against one endpoint,
then continuations.  Episodes are separated by `reset <id>` lines; the id indexes the metadata."""
import itertools, random

TK = "/repo/testkeys"
RSA = ("%s/RSA/2048_RSA.pem,%s/RSA/2048_RSA_KEY.pem" % (TK, TK), "%s/RSA/2048_RSA_CA.pem" % TK)
EC = ("%s/EC/256_EC.pem,%s/EC/256_EC_KEY.pem" % (TK, TK), "%s/EC/256_EC_CA.pem" % TK)

# (name, server key line, client key line, server opts, client opts, prelude: list of earlier honest connection for resumption)
def cfgs():
    srv_rsa = "keys ks id=%s ca=%s tickets=1 psk=1" % (RSA[0], RSA[1])
    cli_rsa = "keys kc ca=%s psk=1" % RSA[1]
    srv_rsa_nt = "keys ks id=%s ca=%s psk=1" % (RSA[0], RSA[1])
    cli_rsa_id = "keys kc id=%s ca=%s" % (RSA[0], RSA[1])
    srv_ec = "keys ks id=%s ca=%s tickets=1" % (EC[0], EC[1])
    cli_ec = "keys kc ca=%s" % EC[1]
    C = []
    def add(name, ks, kc, so, co, resume=False, fam="L", early=False, honest=True):
        # honest=False: a configuration whose undisturbed handshake is meant to fail (tools/honest.py skips it)
        C.append(dict(name=name, ks=ks, kc=kc, so=so, co=co, resume=resume, fam=fam, early=early, honest=honest))
    add("T12-ecdhe-rsa-gcm", srv_rsa, cli_rsa, "ver=T12", "ver=T12 suites=0xc02f")
    add("T12-rsa-cbc-sha256", srv_rsa, cli_rsa, "ver=T12", "ver=T12 suites=0x3c")
    add("T12-ecdhe-ecdsa-cbc", srv_ec, cli_ec, "ver=T12", "ver=T12 suites=0xc023")
    add("T11-rsa-cbc-sha", srv_rsa, cli_rsa, "ver=T11", "ver=T11 suites=0x2f")
    add("T12-psk-cbc", srv_rsa, cli_rsa, "ver=T12", "ver=T12 suites=0xae")
    add("T12-resumed-id", srv_rsa_nt, cli_rsa, "ver=T12", "ver=T12 suites=0xc02f sid=R", resume=True)
    add("T12-resumed-ticket", srv_rsa, cli_rsa, "ver=T12", "ver=T12 suites=0xc02f sid=R tick=1", resume=True)
    add("T12-ticket-full", srv_rsa, cli_rsa, "ver=T12", "ver=T12 suites=0xc02f sid=F tick=1")
    # the client asks for a ticket (empty SessionTicket extension), the server has no ticket keys and does not answer the extension
    add("T12-ticket-asked-nokeys", srv_rsa_nt, cli_rsa, "ver=T12", "ver=T12 suites=0xc02f sid=F tick=1")
    # the client's handle holds a ticket AND a session id (servers that issue both exist); this server takes neither: it answers with
    # another session id, which tells the client that the ticket was not taken either
    C.append(dict(name="T12-ticket+id-declined", ks=srv_rsa + "\nkeys kn id=%s ca=%s psk=1" % (RSA[0], RSA[1]), kc=cli_rsa, so="ver=T12", co="ver=T12 suites=0xc02f sid=R tick=1", resume=False, fam="L", early=False,
                  prelude=["new s8 server keys=kn ver=T12", "new c8 client keys=kc ver=T12 suites=0xc02f sid=A", "link c8 s8", "pump c8 s8 max=40", "close c8", "pump c8 s8 max=6", "del c8", "del s8",
                           "new s9 server keys=ks ver=T12", "new c9 client keys=kc ver=T12 suites=0xc02f sid=R tick=1", "link c9 s9", "pump c9 s9 max=40", "close c9", "pump c9 s9 max=6", "del c9", "del s9",
                           "sidedit R idfrom=A"], srvkeys="kn"))
    add("T12-cauth", srv_rsa, cli_rsa_id, "ver=T12 cb=strict", "ver=T12 suites=0xc02f")
    add("T13-full", srv_rsa, cli_rsa, "ver=T13", "ver=T13", fam="T13")
    add("T13-full-ec-chacha", srv_ec, cli_ec, "ver=T13", "ver=T13 suites=0x1303", fam="T13")
    add("T13-psk-resumed", srv_rsa, cli_rsa, "ver=T13", "ver=T13 sid=R", resume=True, fam="T13")
    add("T13-cauth", srv_rsa, cli_rsa_id, "ver=T13 cb=strict", "ver=T13", fam="T13")
    add("T13-early-accepted", srv_rsa, cli_rsa, "ver=T13 early=16384", "ver=T13 sid=R", resume=True, fam="T13", early=True)
    add("T13-early-rejected", srv_rsa + " psk13=1 early=16384", cli_rsa + " psk13=1 early=16384", "ver=T13 early=16384", "ver=T13", fam="T13", early=True)
    # the client offers an external PSK the server does not have: the server declines it and authenticates with its certificate
    add("T13-psk-declined", srv_rsa, cli_rsa + " psk13=1", "ver=T13", "ver=T13", fam="T13")
    # the client's only key share is for a group the server does not support: HelloRetryRequest, second ClientHello
    add("T13-hrr", srv_rsa, cli_rsa, "ver=T13 groups=24", "ver=T13 groups=23,24 shares=1", fam="T13")
    add("T13-hrr-early-resumed", srv_rsa, cli_rsa, "ver=T13 early=16384 groups=24", "ver=T13 sid=R groups=23,24 shares=1", resume=True, fam="T13", early=True)
    # the server refuses the early data and its limit (40) lies between the largest early record (30) and their sum (42)
    add("T13-early-rejected-overlimit", srv_rsa + " psk13=1 early=16384", cli_rsa + " psk13=1 early=16384", "ver=T13 early=40", "ver=T13", fam="T13", early=True, honest=False)
    add("T13cap-neg12", srv_rsa, cli_rsa, "ver=T12", "ver=T11,T12,T13", fam="L")
    add("srv13cap-neg12", srv_rsa, cli_rsa, "ver=T11,T12,T13", "ver=T12 suites=0xc02f", fam="L")
    add("D12-ecdhe-rsa-gcm", srv_rsa, cli_rsa, "ver=D12", "ver=D12 suites=0xc02f")
    add("D10-rsa-cbc", srv_rsa, cli_rsa, "ver=D10", "ver=D10 suites=0x2f")
    return C

HS_TYPES = [0, 1, 2, 3, 4, 5, 8, 11, 12, 13, 14, 15, 16, 20, 22]

def actions(tier):
    """adversary actions; {X} = sender whose queue is edited (peer of the target), {T} = target"""
    A = []
    # unprotected injections (network attacker without keys)
    A.append(("plain-app", ["injectrec {X} 0 23 16"]))
    A.append(("plain-app0", ["injectrec {X} 0 23 0"]))
    for h in HS_TYPES:
        A.append(("plain-hs-%d" % h, ["injectrec {X} 0 22 8 body=%02x000004aabbccdd" % h]))
    for h in HS_TYPES:
        A.append(("plain-hs-empty-%d" % h, ["injectrec {X} 0 22 4 body=%02x000000" % h]))
        A.append(("forge-hs-empty-%d" % h, ["forge {X} 0 22 4 hs=%d" % h]))
    A.append(("plain-ccs", ["injectrec {X} 0 20 1 body=01"]))
    A.append(("plain-ccs-bad", ["injectrec {X} 0 20 1 body=02"]))
    A.append(("plain-alert-fatal", ["injectrec {X} 0 21 2 body=0228"]))
    A.append(("plain-alert-close", ["injectrec {X} 0 21 2 body=0100"]))
    A.append(("plain-alert-warn", ["injectrec {X} 0 21 2 body=015a"]))
    A.append(("plain-alert-short", ["injectrec {X} 0 21 1 body=02"]))
    A.append(("plain-unknown-type", ["injectrec {X} 0 99 4"]))
    A.append(("garbage", ["inject {X} 0 8f3a00112233445566778899aabbccddeeff00112233445566778899"]))
    # deviant peer holding the keys
    A.append(("forge-app", ["forge {X} 0 23 16"]))
    for h in HS_TYPES:
        A.append(("forge-hs-%d" % h, ["forge {X} 0 22 8 hs=%d" % h]))
    A.append(("forge-ccs", ["forge {X} 0 20 1 body=01"]))
    A.append(("forge-alert-fatal", ["forge {X} 0 21 2 body=0228"]))
    A.append(("forge-alert-close", ["forge {X} 0 21 2 body=0100"]))
    A.append(("forge-alert-warn", ["forge {X} 0 21 2 body=015a"]))
    A.append(("forge-badseq", ["forge {X} 0 23 16 seqd=1"]))
    # edits of the genuine stream (need a queued genuine record)
    A.append(("mod-type", ["mod {X} 0 0 0x01"]))
    A.append(("mod-ver", ["mod {X} 0 2 0x01"]))
    A.append(("mod-len", ["mod {X} 0 4 0x01"]))
    A.append(("mod-body0", ["mod {X} 0 5 0x80"]))
    A.append(("mod-mid", ["mod {X} 0 9 0x01"]))
    A.append(("mod-last", ["mod {X} 0 -1 0x01"]))
    A.append(("trunc-fix", ["trunc {X} 0 -1 fix=1"]))
    A.append(("drop", ["drop {X} 0"]))
    A.append(("dup", ["dup {X} 0"]))
    A.append(("swap", ["swap {X} 0 1"]))
    A.append(("replay-first", ["replay {X} 0 0"]))
    A.append(("replay-last", ["replay {X} 0 -1"]))
    A.append(("reflect-last", ["reflect {T} -1"]))
    for i in range(5):
        A.append(("hs-del%d" % i, ["hsedit {X} del %d" % i]))
        A.append(("hs-dup%d" % i, ["hsedit {X} dup %d" % i]))
    for i in range(4):
        A.append(("hs-swap%d%d" % (i, i + 1), ["hsedit {X} swap %d %d" % (i, i + 1)]))
    A.append(("hs-swap02", ["hsedit {X} swap 0 2"]))
    A.append(("hs-split", ["hsedit {X} split 0"]))
    # another client (no PSK, a share the server accepts) takes the place of the one that started the handshake - e.g. answers
    # the HelloRetryRequest in its stead - and then sends application data protected under whatever the server reads with
    A.append(("takeover-nopsk", ["new c1 client keys=kc ver=T13 groups=24", "link c1 s0", "flush c1", "deliver c1 1", "forge c1 0 23 16", "deliver c1 1",
                                 "forge c1 0 23 9", "deliver c1 1"]))
    A.append(("none", []))
    return A

CONTS = [
    ("pump", ["pump c0 s0 max=6"]),
    ("send-then-pump", ["send {T} 7", "send {X} 9", "pump c0 s0 max=6", "close {T}", "pump c0 s0 max=4"]),
]

def episode_lines(cfg, k, target, act, cont, eid, dtls=False):
    T = target
    X = "s0" if T == "c0" else "c0"
    L = []
    L.append(cfg["ks"]); L.append(cfg["kc"])
    if cfg["resume"]:
        # an honest first connection to obtain the session / ticket / PSK
        L += ["new s9 server keys=ks %s" % cfg["so"], "new c9 client keys=kc %s" % cfg["co"], "link c9 s9",
              "pump c9 s9 max=40", "send c9 3", "pump c9 s9 max=5", "close c9", "pump c9 s9 max=5", "del c9", "del s9"]
    L += cfg.get("prelude", [])
    L += ["new s0 server keys=%s %s" % (cfg.get("srvkeys", "ks"), cfg["so"]), "new c0 client keys=kc %s" % cfg["co"], "link c0 s0"]
    if cfg.get("early"):
        L += ["send c0 12", "send c0 30"]       # TLS 1.3 early data right behind the ClientHello
    if k > 0:
        L.append("pump c0 s0 max=%d" % k)
    else:
        L.append("flush c0")
    # make sure something is queued toward the target when the action edits the genuine stream
    L.append("flush %s" % X)
    for a in act[1]:
        L.append(a.format(X=X, T=T))
    L.append("deliver %s 1" % X)
    for c in cont[1]:
        L.append(c.format(X=X, T=T))
    L.append("reset %s" % eid)
    return L

def needs_queued(actname):
    return actname.startswith(("mod-", "trunc", "drop", "dup", "swap", "hs-"))

def generate(tier, seed, only_cfg=None, max_k=16):
    rnd = random.Random(seed)
    episodes = []
    A = actions(tier)
    for cfg in cfgs():
        if only_cfg and cfg["name"] not in only_cfg:
            continue
        for k in range(0, max_k):
            for target in ("c0", "s0"):
                acts = A
                if tier == "quick":
                    # representative subset per (cfg, k, target): all classes at a few stop points, sampled elsewhere
                    acts = [a for a in A if rnd.random() < 0.12 or a[0] in ("plain-app", "forge-app", "none", "takeover-nopsk")]
                acts = [a for a in acts if a[0] != "takeover-nopsk" or (cfg["fam"] == "T13" and target == "s0" and k <= 4)]
                for act in acts:
                    cont = CONTS[rnd.randrange(len(CONTS))] if tier == "quick" else None
                    for c in ([cont] if cont else CONTS):
                        episodes.append(dict(cfg=cfg["name"], k=k, target=target, act=act[0], cont=c[0],
                                             lines=None, _cfg=cfg, _act=act, _cont=c))
    return episodes

def render(episodes, start_id=0):
    out = []
    for i, ep in enumerate(episodes):
        eid = "E%d" % (start_id + i)
        ep["id"] = eid
        out += episode_lines(ep["_cfg"], ep["k"], ep["target"], ep["_act"], ep["_cont"], eid)
    return out

if __name__ == "__main__":
    import sys, json
    eps = generate(sys.argv[1] if len(sys.argv) > 1 else "quick", 1)
    print(len(eps))
