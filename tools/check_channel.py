#!/usr/bin/env python3
"""Checks C02 and C17: MxChannel model checked by TLC; edit-script / sealing scenarios on real sessions;
traces validated against MxChannel_Trace (and MxSession_Trace for the session-level consequences)."""
import os, sys, json, time, collections
sys.path.insert(0, os.path.dirname(os.path.abspath(__file__)))
import runner, changen, tlcutil, sessgen

ASSUME = {
 "C02": ["byte contents are compared by the driver (delivered bytes vs. the peer application's stream); the specification works on byte counts and the driver's ok/pos flags",
         "authenticity oracle: key fingerprint + sequence number of sender and receiver session structs (cryptographic assumption)",
         "model: all edit scripts of <= MaxEdits operations over <= MaxMsgs records, one key change; implementation: sampled edit scripts per suite family x version, bit flips of a short record (every bit in the thorough tier)"],
 "C17": ["nonces, keys and plaintext digests are observed at the AEAD primitives through link-time wrappers; sequence numbers and key fingerprints at the guarded seal hook; PRNG draws through a wrapper of psGetPrngLocked",
         "CBC IV freshness is decided by (a) one PRNG draw of >= one block per CBC record within the sealing call and (b) no explicit IV block on the wire repeating an earlier IV or an earlier record's last block; unpredictability of the PRNG itself is assumed"],
}

def run(prop, tier, seed):
    t0 = time.time()
    bdir = runner.build()
    wd = runner.workdir("check_" + prop)
    violations = []
    cfg = "MxChannel_MC.cfg" if tier == "quick" else "MxChannel_MC_thorough.cfg"
    mc = tlcutil.run_tlc("MxChannel.tla", cfg, workers=16, timeout=2400, tag="mc" + prop)
    if mc["violation"]:
        p = os.path.join(wd, "model_violation.txt"); open(p, "w").write(mc["out"][-20000:])
        violations.append(("model", mc["violation"], p))
    elif not mc["ok"]:
        print(mc["out"][-3000:]); raise SystemExit("INFRA: TLC failed on MxChannel")
    import honest
    honest.check(bdir, wd, changen.suites(), "changen")      # every suite's undisturbed connection works (vacuity guard)
    if prop == "C02":
        eps = changen.episodes(tier, seed, prop) + changen.bit_episodes(tier, seed)
    else:
        eps = changen.nonce_episodes(tier, seed) + changen.episodes("quick", seed, prop)
    shards = runner.shard(eps, 16)
    runs = runner.run_all(bdir, wd, shards, changen.render, timeout=1800)
    for r in runs:
        if r["rc"] in (77, 78) or r["rc"] < 0 or r["rc"] > 100:
            rp = runner.save_replay(prop, "crash_" + os.path.basename(r["script"]), open(r["script"]).read().splitlines())
            open(rp + ".stderr", "w").write(r["stderr"])
            violations.append(("sanitizer", "driver terminated abnormally rc=%s: %s" % (r["rc"], r["stderr"][-300:].replace("\n", " ")), rp))
        elif r["rc"] != 0:
            print(r["stderr"][-2000:]); raise SystemExit("INFRA: driver failed rc=%s on %s" % (r["rc"], r["script"]))
    runs = [r for r in runs if r["rc"] == 0]      # truncated traces of crashed runs are reported above, not validated
    runner.validate_all(runs, "MxChannel_Trace.tla", "MxChannel_Trace.cfg")
    vals1 = [r["val"] for r in runs]
    if prop == "C02":
        runner.validate_all(runs, "MxSession_Trace.tla", "MxSession_Trace.cfg")
        vals2 = [r["val"] for r in runs]
    else:
        vals2 = [None] * len(runs)
    known = runner.load_known(prop)
    known_hit = {}
    nvalid = 0; states = 0; distinct = set(); nseal = 0
    established = {}        # suite -> episodes in which application data was delivered intact at least once
    for r, v1, v2 in zip(runs, vals1, vals2):
        lines = open(r["trace"]).read().splitlines()
        meta = {e["id"]: e for e in r["episodes"]}
        bad = set()
        for which, v in (("MxChannel_Trace", v1), ("MxSession_Trace", v2)):
            if v is None:
                continue
            if v["infra"]:
                print(v["out"][-3000:]); raise SystemExit("INFRA: TLC trace validation failed on %s" % r["trace"])
            states += v["states"]
            for ln in v["rejects"]:
                d = json.loads(lines[ln - 1])
                tag = runner.episode_of_line(lines, ln)
                m = meta.get(tag, {})
                bad.add(tag)
                ctx = v["ctx"].get(ln, {})
                sig = {"ev": d.get("ev"), "role": d.get("role"), "itype": str(d.get("itype")), "auth": str(d.get("auth")), "origin": str(d.get("origin")),
                       "ver": d.get("ver"), "fam": "T13" if d.get("ver") == "T13" else "L", "suite": m.get("suite"), "ops": ";".join(m.get("ops", [])), "spec": which,
                       "spec_hs": ctx.get("hs"), "spec_rd": ctx.get("rd"), "spec_dead": ctx.get("dead"), "rc": d.get("rc"), "obs_hs": d.get("hs")}
                k = runner.match_known(sig, known)
                if k:
                    known_hit[k["id"]] = k; continue
                rp = runner.save_replay(prop, "%s_%s_%s" % (m.get("suite", "x"), m.get("kind", "x"), tag), (m.get("lines") or []) + ["reset %s" % tag])
                violations.append(("trace", "line %d of %s rejected by %s: %s" % (ln, os.path.basename(r["trace"]), which, json.dumps(sig)), rp))
        nvalid += len([e for e in r["episodes"] if e["id"] not in bad])
        ndl = 0
        for l in lines:
            d = json.loads(l)
            if d.get("ev") == "deliver" and d.get("ep") in ("c0", "s0") and any(x.get("ok") == 1 for x in d.get("dlv", [])):
                ndl += 1
            if d.get("ev") == "Reset":
                su = meta.get(d.get("tag"), {}).get("suite")
                if su is not None:
                    established[su] = established.get(su, 0) + (1 if ndl else 0)
                ndl = 0
            for s in d.get("sub", []):
                if s["k"] == "N":
                    nseal += 1
            if d.get("ev") == "deliver":
                distinct.add((d.get("ver"), d.get("suite"), d.get("origin"), d.get("auth"), d.get("itype"), d.get("rc"), len(d.get("dlv", [])) > 0, d.get("err")))
    for k in known_hit.values():
        print("KNOWN-FINDING: property=%s %s" % (prop, k["what"]))
    for kind, text, rp in violations[:40]:
        print("VIOLATION property=%s replay=%s" % (prop, rp))
        print("  (%s) %s" % (kind, text[:700]))
    # vacuity guard: a suite whose honest connection never carries data exercises nothing of the property
    dead = sorted(su for su in set(e["suite"] for e in eps if e.get("kind") == "edit") if not established.get(su))
    if dead and not violations:
        raise SystemExit("INFRA: no application data was ever delivered in the episodes of %s: the property was not exercised there" % ", ".join(dead))
    samples = [{"suite": e["suite"], "dir": e["dir"], "ops": e["ops"], "lens": e["lens"], "script": e["lines"][-12:]} for e in eps[:3]]
    cov = {"states": mc.get("states", 0), "transitions": mc.get("transitions", 0), "traces_validated_against_impl": nvalid, "samples": samples,
           "evaluations": len(eps), "distinct_nontrivial": len(distinct),
           "rule": "episode = suite family x version x direction x payload lengths x edit script (or bit position) on the in-flight ciphertext, followed by further traffic; "
                   "distinct_nontrivial = distinct (version, suite, record origin, authentic?, type, return class, delivered?, error flag) tuples over delivered records",
           "aead_seals_observed": nseal, "episodes_with_delivered_data_per_suite": established, "trace_states_checked": states, "known_findings_reported": sorted(known_hit), "exhaustive": False}
    runner.write_evidence(prop, tier, seed, "model_checking", cov, time.time() - t0, len(violations), ASSUME[prop])
    return 1 if violations else 0
