#!/usr/bin/env python3
"""C16: DTLS under loss / duplication / reordering / replay.  MxDtls is model-checked (safety and, under fairness,
completion); real DTLS sessions are driven through datagram schedules and every execution is validated against
MxDtls_Trace (RecordOnce, AppOnce, HsMonotone, Completes) and MxSession_Trace."""
import os, sys, json, time, collections
sys.path.insert(0, os.path.dirname(os.path.abspath(__file__)))
import runner, tlcutil, dtlsgen

ASSUME = ["the network is the driver's queues: it drops, duplicates, swaps and delays datagrams (one record per datagram; fragments of a large handshake message are separate datagrams) and replays captured ones, but never alters bytes",
          "timers are fired by the driver (matrixDtlsGetOutdata with an empty output buffer), on both endpoints, whenever nothing is in flight during the lossy phase and six more times during healing",
          "a record counts as having passed the record layer when the guarded hook after record authentication reports it; application payloads are identified by their position in the sender's application byte stream",
          "completion is required of every scenario (loss is finite); the retransmission ping-pong of two finished endpoints that have not exchanged application data is bounded by the driver's step limits and is recorded in DESIGN.md as an observation, not judged"]

def run(tier, seed):
    prop = "C16"
    t0 = time.time()
    bdir = runner.build()
    wd = runner.workdir("check_C16")
    violations = []
    states = trans = 0
    for cfg in ["MxDtls_MC.cfg", "MxDtls_MC_live.cfg"]:
        r = tlcutil.run_tlc("MxDtls_MC.tla", cfg, workers=16, timeout=3000, tag="mcC16")
        viol = r["violation"] or ("Temporal properties were violated" in r["out"])
        if viol:
            p = os.path.join(wd, "model_violation_%s.txt" % cfg); open(p, "w").write(r["out"][-30000:])
            violations.append(("model", "%s: %s" % (cfg, viol), p))
        elif not r["ok"]:
            print(r["out"][-3000:]); raise SystemExit("INFRA: TLC failed on %s" % cfg)
        states += r.get("states", 0); trans += r.get("transitions", 0)
    for inv in ("NeverDone", "NeverApp", "NeverResent"):
        r = tlcutil.run_tlc("MxDtls_MC.tla", "MxDtls_MC_vac_%s.cfg" % inv, workers=8, timeout=900, tag="mcC16v")
        if not r["violation"]:
            raise SystemExit("INFRA: vacuity guard %s was not violated" % inv)
    eps = dtlsgen.episodes(tier, seed)
    shards = runner.shard(eps, 16)
    runs = runner.run_all(bdir, wd, shards, dtlsgen.render, timeout=3000)
    for r in runs:
        if r["rc"] in (77, 78) or r["rc"] < 0 or r["rc"] > 100:
            rp = runner.save_replay(prop, "crash_" + os.path.basename(r["script"]), open(r["script"]).read().splitlines())
            open(rp + ".stderr", "w").write(r["stderr"])
            violations.append(("sanitizer", "driver terminated abnormally rc=%s: %s" % (r["rc"], r["stderr"][-300:].replace("\n", " ")), rp))
        elif r["rc"] != 0:
            print(r["stderr"][-2000:]); raise SystemExit("INFRA: driver failed rc=%s on %s" % (r["rc"], r["script"]))
    runs = [r for r in runs if r["rc"] == 0]
    runner.validate_all(runs, "MxDtls_Trace.tla", "MxDtls_Trace.cfg", timeout=3000)
    vals1 = [r["val"] for r in runs]
    runner.validate_all(runs, "MxSession_Trace.tla", "MxSession_Trace.cfg", timeout=3000)
    vals2 = [r["val"] for r in runs]
    known = runner.load_known(prop); known_hit = {}
    nvalid = 0; tstates = 0
    stats = collections.Counter(); distinct = set()
    for r, v1, v2 in zip(runs, vals1, vals2):
        lines = open(r["trace"]).read().splitlines()
        meta = {e["id"]: e for e in r["episodes"]}
        bad = set()
        for which, v in (("MxDtls_Trace", v1), ("MxSession_Trace", v2)):
            if v["infra"]:
                print(v["out"][-3000:]); raise SystemExit("INFRA: TLC trace validation failed on %s (%s)" % (r["trace"], which))
            tstates += v["states"]
            for ln in v["rejects"]:
                d = json.loads(lines[ln - 1])
                tag = runner.episode_of_line(lines, ln)
                if (tag, which) in bad: continue
                bad.add((tag, which))
                e = meta.get(tag, {})
                sig = {"spec": which, "ev": d.get("ev"), "ep": d.get("ep"), "cfg": e.get("cfg"), "kind": e.get("kind"), "sched": e.get("sched"), "phase": v["ctx"].get(ln, {}).get("dead"),
                       "hs": d.get("hs"), "err": str(d.get("err")), "hc": str(d.get("hc")), "itype": str(d.get("itype")), "origin": str(d.get("origin")), "dep": str(d.get("dep")), "dsq": str(d.get("dsq")),
                       "ndlv": str(len(d.get("dlv", [])))}
                k = runner.match_known(sig, known)
                if k:
                    known_hit[k["id"]] = k; continue
                rp = runner.save_replay(prop, tag, e.get("lines", []) + ["reset %s" % tag])
                violations.append(("trace", "line %d of %s rejected by %s: %s" % (ln, os.path.basename(r["trace"]), which, json.dumps(sig)), rp))
        nvalid += len([e for e in r["episodes"] if not any(t == e["id"] for t, _ in bad)])
        for l in lines:
            d = json.loads(l)
            stats[d.get("ev")] += 1
            if d.get("ev") == "deliver":
                distinct.add((d.get("ver"), d.get("suite"), d.get("itype"), d.get("origin"), d.get("dep"), d.get("hs"), d.get("rc"), len(d.get("dlv", [])) > 0))
    for k in known_hit.values():
        print("KNOWN-FINDING: property=%s %s" % (prop, k["what"]))
    for kind, text, rp in violations[:40]:
        print("VIOLATION property=%s replay=%s" % (prop, rp)); print("  (%s) %s" % (kind, text[:900]))
    cov = {"states": states, "transitions": trans, "traces_validated_against_impl": nvalid,
           "samples": [dict(cfg=e["cfg"], kind=e["kind"], sched=e["sched"], replays=e["replays"][:6], script=e["lines"][:8]) for e in eps[:1] + eps[-2:]],
           "evaluations": len(eps), "distinct_nontrivial": len(distinct),
           "rule": "scenario = DTLS configuration (1.0/1.2, RSA / ECDHE-RSA / ECDHE-ECDSA / PSK, resumed, client auth, PMTU 512 / 300 forcing fragmentation) x datagram schedule (exhaustive over {deliver, drop, duplicate}^n for the first n datagrams of the short handshakes; random over 5 decisions; whole-flight losses) x replay list over every captured record; distinct_nontrivial = distinct (version, suite, record type, origin, epoch, receiver state, return class, delivered?) over delivered datagrams",
           "events": {k: v for k, v in stats.items() if k in ("deliver", "drop", "dup", "swap", "delay", "timeout", "replay", "send")},
           "trace_states_checked": tstates, "known_findings_reported": sorted(known_hit), "exhaustive": False}
    runner.write_evidence(prop, tier, seed, "model_checking", cov, time.time() - t0, len(violations), ASSUME)
    return 1 if violations else 0
