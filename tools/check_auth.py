#!/usr/bin/env python3
"""C04: peer certificate authentication inside real handshakes.  MxAuth is model-checked by TLC; every scenario
(version x key exchange x verifier role x callback mode x credential defect x proof-of-possession defect) is run
as a real handshake whose trace is validated against MxAuth_Trace (and MxSession_Trace)."""
import os, sys, json, time, subprocess, collections
sys.path.insert(0, os.path.dirname(os.path.abspath(__file__)))
import runner, tlcutil, authgen

ASSUME = ["ground truth = the generator's scenario record: each credential class is a chain built with OpenSSL (harness/certgen.c) that has exactly one named defect relative to the verifier's trust anchors / expected name; each proof-of-possession class is produced by the driver rewriting the prover's own message before it is sealed (for TLS <= 1.2 before it enters the prover's transcript) or by loading a private key that is not the certificate's",
          "a tamper that could not be applied (ECDSA signatures of different length for the stale-signature substitution) turns the scenario into its honest variant, which is then required to complete",
          "internal events (message accepted/refused, callback invocation and its alert argument, sealed alerts) are reported by the guarded hooks and the driver's callback",
          "CRL/OCSP revocation is not exercised; certificates the parser refuses (unknown critical extension, unsupported signature algorithm) are covered by C03's traces"]

def render(eps, start):
    L = []
    for e in eps:
        L += e["lines"] + ["reset %s" % e["id"]]
    return L

def annotate(trace_path, meta):
    """attach the scenario to every line of its episode; returns (path, per-episode summary)"""
    lines = [json.loads(l) for l in open(trace_path)]
    out = []; summ = {}
    i = 0
    while i < len(lines):
        j = i
        while j < len(lines) and lines[j].get("ev") != "Reset":
            j += 1
        tag = lines[j].get("tag") if j < len(lines) else None
        m = meta.get(tag)
        ep = lines[i:j + 1]
        if m:
            sc = {k: m[k] for k in ("role", "cb", "cred", "pop", "carrier", "verifier", "ver", "kx")}
            if m.get("fault"): sc["fault"] = 1
            tam = [s for d in ep for s in d.get("sub", []) if s["k"] == "T"]
            applied = bool(tam) and tam[-1]["x"] == 1
            wants_tamper = sc["pop"] in ("sigflip", "alg", "stale", "paramflip")
            vac = False
            if wants_tamper and not applied:
                sc["pop"] = "ok"; vac = True
            if sc["role"] == "S":
                # a MatrixSSL client whose chain matches none of the CA names of the CertificateRequest sends an
                # empty Certificate message: the scenario is then "no certificate where one is required"
                cm = [s["n"] for d in ep if d.get("ep") == m["prover"] for s in d.get("sub", []) if s["k"] == "S" and s["t"] == "22" and s["x"] == 11]
                if cm and cm[-1] < 24 and sc["cred"] != "nocert":
                    sc["cred"] = "nocert"; sc["pop"] = "ok"; vac = True
            fin = [d for d in ep if d.get("ev") == "state" and d.get("ep") == sc["verifier"] and d.get("hs") != "NOSESSION"]
            cbs = [s["n"] for d in ep if d.get("ep") == sc["verifier"] for s in d.get("sub", []) if s["k"] == "CB"]
            summ[tag] = dict(sc=sc, vacuous=vac, hc=fin[-1].get("hc") if fin else None, cbs=cbs, created=all(d.get("hs") != "NOSESSION" for d in ep if d.get("ev") == "new"))
            for d in ep:
                d["sc"] = sc
        out += ep
        i = j + 1
    p = trace_path + "p"
    with open(p, "w") as f:
        for d in out:
            f.write(json.dumps(d) + "\n")
    return p, summ

def run(tier, seed):
    prop = "C04"
    t0 = time.time()
    bdir = runner.build()
    subprocess.run(["gcc", "-O1", "-w", "-o", os.path.join(runner.ROOT, "build/certgen"), os.path.join(runner.ROOT, "harness/certgen.c"), "-lcrypto"], check=True)
    wd = runner.workdir("check_C04")
    violations = []
    mc = tlcutil.run_tlc("MxAuth_MC.tla", "MxAuth_MC.cfg", workers=16, timeout=900, tag="mcC04")
    if mc["violation"]:
        p = os.path.join(wd, "model_violation.txt"); open(p, "w").write(mc["out"][-20000:])
        violations.append(("model", mc["violation"], p))
    elif not mc["ok"]:
        print(mc["out"][-3000:]); raise SystemExit("INFRA: TLC failed on MxAuth_MC")
    vac = tlcutil.run_tlc("MxAuth_MC.tla", "MxAuth_MC_vac.cfg", workers=4, timeout=900, tag="mcC04v")
    if not vac["violation"]:
        raise SystemExit("INFRA: vacuity guard NeverPermAccept was not violated - the model cannot complete through a permissive callback")
    pkidir = os.path.join(runner.WORK, "pki_C04")
    authgen.materialise(pkidir, os.path.join(runner.ROOT, "build/certgen"))
    scs = authgen.scenarios(tier, seed)
    eps = []
    for i, sc in enumerate(scs):
        L, m = authgen.episode(sc, pkidir, i)
        eps.append(dict(id="A%d" % i, lines=L, meta=m))
    shards = runner.shard(eps, 16)
    runs = runner.run_all(bdir, wd, shards, render, timeout=1800, allow_nosession=True)
    for r in runs:
        if r["rc"] in (77, 78) or r["rc"] < 0 or r["rc"] > 100:
            rp = runner.save_replay(prop, "crash_" + os.path.basename(r["script"]), open(r["script"]).read().splitlines())
            open(rp + ".stderr", "w").write(r["stderr"])
            violations.append(("sanitizer", "driver terminated abnormally rc=%s: %s" % (r["rc"], r["stderr"][-300:].replace("\n", " ")), rp))
        elif r["rc"] != 0:
            print(r["stderr"][-2000:]); raise SystemExit("INFRA: driver failed rc=%s on %s" % (r["rc"], r["script"]))
    runs = [r for r in runs if r["rc"] == 0]
    summ = {}
    for r in runs:
        meta = {e["id"]: e["meta"] for e in r["episodes"]}
        r["orig"] = r["trace"]
        r["trace"], s = annotate(r["trace"], meta)
        summ.update(s)
    notcreated = [t for t, s in summ.items() if not s["created"]]
    if notcreated:
        raise SystemExit("INFRA: sessions could not be created in episodes %s" % notcreated[:5])
    runner.validate_all(runs, "MxAuth_Trace.tla", "MxAuth_Trace.cfg")
    vals1 = [r["val"] for r in runs]
    for r in runs:
        r["trace"], r["annot"] = r["orig"], r["trace"]
    runner.validate_all(runs, "MxSession_Trace.tla", "MxSession_Trace.cfg")
    vals2 = [r["val"] for r in runs]
    known = runner.load_known(prop); known_hit = {}
    nvalid = 0; states = 0
    for r, v1, v2 in zip(runs, vals1, vals2):
        lines = open(r["orig"]).read().splitlines()
        meta = {e["id"]: e for e in r["episodes"]}
        bad = set()
        for which, v in (("MxAuth_Trace", v1), ("MxSession_Trace", v2)):
            if v["infra"]:
                print(v["out"][-3000:]); raise SystemExit("INFRA: TLC trace validation failed on %s (%s)" % (r["orig"], which))
            states += v["states"]
            for ln in v["rejects"]:
                d = json.loads(lines[ln - 1])
                tag = runner.episode_of_line(lines, ln)
                if tag in bad: continue
                bad.add(tag)
                e = meta.get(tag, {}); m = e.get("meta", {}); s = summ.get(tag, {})
                sig = {"spec": which, "ver": m.get("ver"), "kx": m.get("kx"), "fam": m.get("fam"), "role": m.get("role"), "cb": m.get("cb"), "cred": m.get("cred"),
                       "pop": s.get("sc", {}).get("pop"), "hc": str(s.get("hc")), "cbs": ",".join(str(x) for x in s.get("cbs", [])), "ev": d.get("ev"), "phase": v["ctx"].get(ln, {}).get("dead")}
                k = runner.match_known(sig, known)
                if k:
                    known_hit[k["id"]] = k; continue
                rp = runner.save_replay(prop, "%s_%s_%s_%s_%s_%s" % (m.get("ver"), m.get("kx"), m.get("role"), m.get("cb"), m.get("cred"), m.get("pop")), e.get("lines", []) + ["reset %s" % tag])
                violations.append(("trace", "line %d of %s rejected by %s: %s" % (ln, os.path.basename(r["orig"]), which, json.dumps(sig)), rp))
        nvalid += len([e for e in r["episodes"] if e["id"] not in bad])
    for k in known_hit.values():
        print("KNOWN-FINDING: property=%s %s" % (prop, k["what"]))
    for kind, text, rp in violations[:40]:
        print("VIOLATION property=%s replay=%s" % (prop, rp)); print("  (%s) %s" % (kind, text[:700]))
    outcome = collections.Counter()
    for t, s in summ.items():
        outcome[(s["sc"]["role"], s["sc"]["cb"], "good" if s["sc"]["cred"] in ("ok", "ok_chain") else "defect", "pop-" + ("ok" if s["sc"]["pop"] == "ok" else "bad"), "complete" if s["hc"] == 1 else "refused")] += 1
    distinct = set((s["sc"]["ver"], s["sc"]["kx"], s["sc"]["role"], s["sc"]["cb"], s["sc"]["cred"], s["sc"]["pop"], s["hc"]) for s in summ.values() if not s["vacuous"])
    cov = {"states": mc.get("states", 0), "transitions": mc.get("transitions", 0), "traces_validated_against_impl": nvalid,
           "samples": [dict(scenario={k: e["meta"][k] for k in ("ver", "kx", "fam", "role", "cb", "cred", "pop")}, script=e["lines"]) for e in eps[:2] + eps[-1:]],
           "evaluations": len(eps), "distinct_nontrivial": len(distinct),
           "rule": "scenario = version x key-exchange mode x key family x verifier role x callback mode x credential class (good / one defect) x proof-of-possession class, each a real handshake; distinct_nontrivial = distinct (version, kx, role, callback, credential class, effective pop class, completed?) among scenarios whose tamper was applied",
           "outcomes": {" ".join(k): n for k, n in sorted(outcome.items())}, "tamper_not_applicable": sum(1 for s in summ.values() if s["vacuous"]),
           "trace_states_checked": states, "known_findings_reported": sorted(known_hit), "exhaustive": False}
    runner.write_evidence(prop, tier, seed, "model_checking", cov, time.time() - t0, len(violations), ASSUME)
    return 1 if violations else 0
