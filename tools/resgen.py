#!/usr/bin/env python3
"""C14 histories: random operation sequences over {full handshake, resume by id, resume by ticket, TLS 1.3 PSK resume,
parameter change between original and resumption, handle edits (truncate / alter id, secret, ticket, PSK), handle theft,
advance clock, fatal alert on a session, close / drop, cache overflow, ticket key rotation} across several clients."""
import random

TK = "/repo/testkeys"
SRV = "keys ks id=%s/RSA/2048_RSA.pem,%s/RSA/2048_RSA_KEY.pem ca=%s/RSA/2048_RSA_CA.pem" % (TK, TK, TK)
CLI = "keys kc ca=%s/RSA/2048_RSA_CA.pem" % TK

class Hist:
    def __init__(self, rnd, fam):
        self.rnd = rnd; self.fam = fam; self.L = [SRV, CLI]; self.n = 0; self.keys = []; self.names = []; self.ops = []
        self.nextkey = 0
    def keyadd(self):
        k = self.nextkey; self.nextkey += 1
        self.L.append("tickkey ks add %d" % k); self.keys.append(k); self.ops.append("keyadd%d" % k)
    def keydel(self, k):
        self.L.append("tickkey ks del %d" % k); self.keys.remove(k); self.ops.append("keydel%d" % k)
    def conn(self, name, ver="T12", suites="0xc02f", tick=0, ems=0, end="close", srvver=None):
        i = self.n; self.n += 1
        c, s = "c%d" % i, "s%d" % i
        so = "ver=%s" % (srvver or ver)
        co = "ver=%s sid=%s" % (ver, name)
        if ver != "T13": co += " suites=%s" % suites
        if tick: co += " tick=1"
        if ems: co += " ems=%d" % ems
        L = ["new %s server keys=ks %s" % (s, so), "new %s client keys=kc %s" % (c, co), "link %s %s" % (c, s),
             "pump %s %s max=60" % (c, s), "send %s 5" % c, "pump %s %s max=8" % (c, s), "state %s" % c, "state %s" % s]
        if end == "close":
            L += ["close %s" % c, "pump %s %s max=6" % (c, s)]
        elif end == "fatal-rcvd":           # the server receives a fatal alert from its peer
            L += ["forge %s 0 21 2 body=0228" % c, "pump %s %s max=6" % (c, s)]
        elif end == "fatal-sent":           # the server sends one (garbage under the keys)
            L += ["injectrec %s 0 23 32" % c, "pump %s %s max=6" % (c, s)]
        L += ["state %s" % c, "state %s" % s, "del %s" % c, "del %s" % s, "sid %s" % name]
        self.L += L
        self.ops.append("conn(%s,%s,%s,tick=%d,ems=%d,%s)" % (name, ver, suites, tick, ems, end))
        if name not in self.names: self.names.append(name)
    def partial(self, name, steps, ver="T12", suites="0x2f", cauth=False):
        """a handshake that stops after `steps` deliveries; its endpoints stay alive as cP / sP until drop()"""
        so = "ver=%s%s" % (ver, " cb=strict" if cauth else "")
        self.L += ["new sP server keys=ks %s" % so, "new cP client keys=kc ver=%s sid=%s suites=%s" % (ver, name, suites), "link cP sP", "pump cP sP max=%d" % steps, "state cP", "state sP"]
        self.ops.append("partial(%s,%d)" % (name, steps))
    def drop(self):
        self.L += ["del cP", "del sP"]; self.ops.append("drop")
    def edit(self, name, what):
        self.L.append("sidedit %s %s" % (name, what)); self.ops.append("edit(%s,%s)" % (name, what))
    def clock(self, d):
        self.L.append("clock +%d" % d); self.ops.append("clock+%d" % d)

EDITS_ID = ["idlen=4", "idlen=16", "idlen=31", "idlen=0", "idxor=0,1", "idxor=5,0x80", "idxor=-1,1", "msxor=0,1", "msxor=47,0x10"]
EDITS_TICK = ["tickxor=0,1", "tickxor=20,1", "tickxor=40,1", "tickxor=-1,1", "tickxor=-40,4", "ticklen=100", "ticklen=0", "msxor=3,2"]
EDITS_PSK = ["pskxor=0,1", "pskidxor=0,1", "pskidxor=20,1", "pskidxor=-1,1"]
SUITES = ["0xc02f", "0x3c", "0xc027", "0x2f"]

def history(rnd, kind):
    """kind: 'id' | 'ticket' | 'psk' | 'mixed'"""
    fam = kind
    h = Hist(rnd, fam)
    if kind in ("ticket", "mixed", "psk"):
        h.keyadd()
    names = ["A", "B", "C"]
    ver = "T13" if kind == "psk" else rnd.choice(["T12", "T12", "T11"])
    tick = 1 if kind == "ticket" or (kind == "mixed" and rnd.random() < 0.5) else 0
    suites = rnd.choice(SUITES[:2] if ver == "T11" and False else SUITES) if ver != "T13" else ""
    if ver == "T11": suites = rnd.choice(["0x2f", "0xc013"])
    # originals
    for nm in names[:rnd.choice([1, 2, 3])]:
        h.conn(nm, ver, suites, tick=tick, end=rnd.choice(["close", "close", "drop"]))
    nsteps = rnd.choice([3, 4, 5, 6])
    for _ in range(nsteps):
        nm = rnd.choice(h.names)
        r = rnd.random()
        if r < 0.30:
            # plain resumption, then maybe a fatal alert on the resumed connection
            h.conn(nm, ver, suites, tick=tick, end=rnd.choice(["close", "close", "drop", "fatal-rcvd", "fatal-sent"]))
        elif r < 0.42:
            # parameter change between original and resumption
            what = rnd.choice(["ver", "suite", "ems"])
            if ver == "T13":
                h.conn(nm, ver, "", end="close")
            elif what == "ver":
                v2 = "T11" if ver == "T12" else "T12"
                s2 = suites if suites in ("0x2f", "0xc013") else "0x2f"
                h.conn(nm, v2, s2 if v2 == "T11" else suites, tick=tick, end="close")
            elif what == "suite":
                pool = ["0x2f", "0xc013"] if ver == "T11" else SUITES
                h.conn(nm, ver, rnd.choice([x for x in pool if x != suites]), tick=tick, end="close")
            else:
                h.conn(nm, ver, suites, tick=tick, ems=-1, end="close")
        elif r < 0.62:
            pool = EDITS_PSK if ver == "T13" else (EDITS_TICK if tick else EDITS_ID)
            h.edit(nm, rnd.choice(pool))
            h.conn(nm, ver, suites, tick=tick, end="close")
        elif r < 0.72:
            h.clock(rnd.choice([100, 359, 362, 86399, 86402, 200000, 2200000, 4300000]))
            h.conn(nm, ver, suites, tick=tick, end="close")
        elif r < 0.80:
            # a fatal alert on a connection bound to the session, then an attempt to resume it
            h.conn(nm, ver, suites, tick=tick, end=rnd.choice(["fatal-rcvd", "fatal-sent"]))
            h.conn(nm, ver, suites, tick=tick, end="close")
        elif r < 0.88 and kind != "psk":
            # overflow the cache with other clients' sessions
            for j in range(rnd.choice([31, 33, 40])):
                h.conn("F%d" % j, ver, suites, tick=0, end="close")
            h.names = [x for x in h.names if not x.startswith("F")]
            h.conn(nm, ver, suites, tick=tick, end="close")
        elif h.keys:
            # ticket key rotation: new key first? (added at the end), old key removed
            if rnd.random() < 0.5 or len(h.keys) == 1:
                h.keyadd()
            if len(h.keys) > 1 and rnd.random() < 0.7:
                h.keydel(h.keys[0])
            h.conn(nm, ver, suites, tick=tick, end="close")
        else:
            h.conn(nm, ver, suites, tick=tick, end="close")
    return h

def episodes(tier, seed):
    rnd = random.Random(seed * 7919 + 5)
    n = {"quick": 96, "thorough": 800}[tier]
    eps = []
    kinds = ["id", "ticket", "psk", "mixed"]
    for i in range(n):
        kind = kinds[i % 4]
        h = history(rnd, kind)
        eps.append(dict(id="R%d" % i, kind=kind, lines=h.L, ops=h.ops))
    # a few directed histories
    def directed(name, kind, f):
        h = Hist(rnd, kind); f(h); eps.append(dict(id=name, kind=kind, lines=h.L, ops=h.ops))
    def trunc(h):
        h.conn("A"); h.edit("A", "idlen=4"); h.conn("A")
    def emsflip_ticket(h):
        h.keyadd(); h.conn("A", tick=1, ems=-1); h.conn("A", tick=1, ems=0)
    def emsflip_ticket2(h):
        h.keyadd(); h.conn("A", tick=1, ems=0); h.conn("A", tick=1, ems=-1)
    def emsflip_id(h):
        h.conn("A", ems=-1); h.conn("A", ems=0)
    def rot(h):
        h.keyadd(); h.conn("A", tick=1); h.keyadd(); h.keydel(0); h.conn("A", tick=1)
    def steal_slot(h):
        h.conn("A"); [h.conn("F%d" % j) for j in range(33)]; h.edit("A", "idlen=4"); h.conn("A")
    def expire13(h):
        h.keyadd(); h.conn("A", ver="T13"); h.clock(362); h.conn("A", ver="T13")
    def wrap_ms(h):
        h.conn("A"); h.clock(2200000); h.conn("A")
    def wrap_ms2(h):
        h.conn("A"); h.clock(4300000); h.conn("A")
    def wrap_tick(h):
        h.keyadd(); h.conn("A", tick=1); h.clock(2200000); h.conn("A", tick=1)
    def fatal_then_resume(h):
        h.conn("A", end="fatal-rcvd"); h.conn("A")
    def fatal_on_resumed(h):
        h.conn("A"); h.conn("A", end="fatal-sent"); h.conn("A")
    def foreign_id_with_ticket(h):
        # B holds its own ticket and presents A's session id next to it (the id travels in the clear): the server resumes B by
        # ticket and echoes the id; afterwards neither B (by that id) nor A may find anything but what A's handshake stored
        h.keyadd(); h.conn("A", suites="0x2f"); h.conn("B", suites="0x2f", tick=1); h.edit("B", "idfrom=A"); h.conn("B", suites="0x2f", tick=1)
        h.conn("B", suites="0x2f", tick=0); h.conn("A", suites="0x2f")
    def foreign_id_with_ticket13(h):
        h.keyadd(); h.conn("A", suites="0x2f"); h.conn("B", ver="T13"); h.edit("B", "idfrom=A"); h.conn("B", ver="T13"); h.conn("A", suites="0x2f")
    def foreign_id_plain(h):
        h.conn("A"); h.conn("B"); h.edit("B", "idfrom=A"); h.conn("B"); h.conn("A"); h.conn("B")
    def premature_zero(h):
        # the id of a handshake that has only got as far as ServerHello, with the all-zero secret its cache entry holds until then
        h.conn("X", suites="0x2f"); h.partial("Y", 2); h.edit("X", "idep=sP mszero=1"); h.conn("X", suites="0x2f"); h.drop(); h.conn("X", suites="0x2f")
    def premature_cke(h):
        # ... and of one that stopped after ClientKeyExchange (the client knows that secret), before Finished
        h.conn("X", suites="0x2f"); h.partial("Y", 3); h.edit("X", "idep=sP msep=cP"); h.conn("X", suites="0x2f"); h.drop(); h.conn("X", suites="0x2f")
    def premature_dropped(h):
        # ... and after that handshake was abandoned without an alert
        h.conn("X", suites="0x2f"); h.partial("Y", 3); h.edit("X", "idep=sP msep=cP"); h.drop(); h.conn("X", suites="0x2f")
    for nm, kind, f in [("Dprem0", "id", premature_zero), ("DpremK", "id", premature_cke), ("DpremD", "id", premature_dropped), ("Dforeign", "mixed", foreign_id_with_ticket), ("Dforeign13", "mixed", foreign_id_with_ticket13), ("DforeignI", "id", foreign_id_plain), ("Dtrunc", "id", trunc), ("DemsT", "ticket", emsflip_ticket), ("DemsT2", "ticket", emsflip_ticket2), ("DemsI", "id", emsflip_id),
                        ("Drot", "ticket", rot), ("Dslot", "id", steal_slot), ("Dexp13", "psk", expire13), ("Dfatal", "id", fatal_then_resume),
                        ("Dfatal2", "id", fatal_on_resumed),
                        ("Dwrap", "id", wrap_ms), ("Dwrap2", "id", wrap_ms2), ("DwrapT", "ticket", wrap_tick)]:
        directed(nm, kind, f)
    return eps

def render(eps, start):
    L = []
    for e in eps:
        L += e["lines"] + ["reset %s" % e["id"]]
    return L
