#!/usr/bin/env python3
"""C16 scenarios: a DTLS handshake under a datagram schedule (per datagram: deliver, drop, duplicate, swap with the
next, delay), timers, then healing, application data, replays of every captured record, more application data."""
import itertools, random

TK = "/repo/testkeys"
RSA = ("%s/RSA/2048_RSA.pem,%s/RSA/2048_RSA_KEY.pem" % (TK, TK), "%s/RSA/2048_RSA_CA.pem" % TK)
EC = ("%s/EC/256_EC.pem,%s/EC/256_EC_KEY.pem" % (TK, TK), "%s/EC/256_EC_CA.pem" % TK)

def cfgs():
    C = []
    def add(name, ks, kc, so, co, resume=False, pmtu=0):
        C.append(dict(name=name, ks=ks, kc=kc, so=so, co=co, resume=resume, pmtu=pmtu))
    srv_rsa = "keys ks id=%s ca=%s psk=1" % RSA; cli_rsa = "keys kc ca=%s psk=1" % RSA[1]
    cli_rsa_id = "keys kc id=%s ca=%s" % RSA
    srv_ec = "keys ks id=%s ca=%s" % EC; cli_ec = "keys kc ca=%s" % EC[1]
    add("D12-ecdhe-rsa-gcm", srv_rsa, cli_rsa, "ver=D12", "ver=D12 suites=0xc02f")
    add("D12-rsa-cbc", srv_rsa, cli_rsa, "ver=D12", "ver=D12 suites=0x3c")
    add("D10-rsa-cbc", srv_rsa, cli_rsa, "ver=D10", "ver=D10 suites=0x2f")
    add("D12-ecdhe-ecdsa-gcm", srv_ec, cli_ec, "ver=D12", "ver=D12 suites=0xc02b")
    add("D12-psk", srv_rsa, cli_rsa, "ver=D12", "ver=D12 suites=0xae")
    add("D12-resumed", srv_rsa, cli_rsa, "ver=D12", "ver=D12 suites=0xc02f sid=R", resume=True)
    add("D12-cauth", srv_rsa, cli_rsa_id, "ver=D12 cb=strict", "ver=D12 suites=0xc02f")
    add("D12-frag512", srv_rsa, cli_rsa, "ver=D12", "ver=D12 suites=0xc02f", pmtu=512)
    add("D12-frag300-cauth", srv_rsa, cli_rsa_id, "ver=D12 cb=strict", "ver=D12 suites=0x3c", pmtu=300)
    return C

def episode_lines(cfg, sched, replays):
    L = [cfg["ks"], cfg["kc"]]
    if cfg["pmtu"]:
        L.append("pmtu %d" % cfg["pmtu"])
    if cfg["resume"]:
        L += ["new s9 server keys=ks %s" % cfg["so"], "new c9 client keys=kc %s" % cfg["co"], "link c9 s9", "pump c9 s9 max=80",
              "send c9 3", "pump c9 s9 max=8", "close c9", "pump c9 s9 max=8", "del c9", "del s9"]
    L += ["new s0 server keys=ks %s" % cfg["so"], "new c0 client keys=kc %s" % cfg["co"], "link c0 s0"]
    L.append("sched c0 s0 %s" % sched)
    L.append("heal c0 s0 rounds=8")
    L += ["mark healed", "state c0", "state s0", "send c0 9", "send s0 7", "pump c0 s0 max=30", "send c0 3", "send s0 2", "pump c0 s0 max=30", "mark replays"]
    for (ep, h) in replays:
        L += ["replay %s 0 %d" % (ep, h), "deliver %s 1" % ep]
    L += ["pump c0 s0 max=60", "send c0 5", "send s0 4", "pump c0 s0 max=30", "mark final", "state c0", "state s0"]
    return L

LETTERS = "dddddddddxxxuusl"

def episodes(tier, seed):
    rnd = random.Random(seed * 104729 + 3)
    C = cfgs()
    eps = []
    def add(cfg, sched, replays, kind):
        eps.append(dict(id="D%d" % len(eps), cfg=cfg["name"], sched=sched, replays=replays, kind=kind, lines=episode_lines(cfg, sched, replays)))
    all_replays_fwd = [("c0", h) for h in range(0, 14)] + [("s0", h) for h in range(0, 14)]
    all_replays_back = [("c0", -h) for h in range(1, 12)] + [("s0", -h) for h in range(1, 12)]
    fin_then_app = [("c0", h) for h in (3, 4, 5, 6, 7, 8)] * 2 + [("s0", h) for h in (4, 5, 6, 7, 8, 9, 10)] * 2
    # bounded-exhaustive schedules over the first datagrams of a short handshake
    short = [c for c in C if c["name"] in ("D12-resumed", "D12-psk")]
    n_ex = 4 if tier == "quick" else 7
    for cfg in short:
        for t in itertools.product("dxu", repeat=n_ex):
            add(cfg, "".join(t), all_replays_fwd if len(eps) % 3 == 0 else [], "exhaustive-%d" % n_ex)
    # random schedules on every configuration
    nrand = 14 if tier == "quick" else 160
    for cfg in C:
        add(cfg, "", all_replays_fwd, "clean+replays")
        add(cfg, "", all_replays_back, "clean+replays-backward")
        add(cfg, "", fin_then_app, "clean+finished-then-app-replays")
        for i in range(nrand):
            n = rnd.choice([6, 10, 16, 24, 40])
            s = "".join(rnd.choice(LETTERS) for _ in range(n))
            rp = rnd.choice([all_replays_fwd, all_replays_back, fin_then_app, [(rnd.choice(["c0", "s0"]), rnd.randrange(-12, 14)) for _ in range(10)]])
            add(cfg, s, rp, "random")
    # loss of whole flights
    for cfg in C:
        for s in ("x", "dx", "dxx", "ddx", "ddxxxxx", "dddx", "dddxx", "dddddx", "ddddddx", "dddddddxx", "ddddddddx", "dddddddddxx", "xdxdxdxdxdxdxdxd"):
            add(cfg, s, [], "flight-loss")
    return eps

def render(eps, start):
    L = []
    for e in eps:
        L += e["lines"] + ["reset %s" % e["id"]]
    return L
