#!/usr/bin/env python3
"""C16 scenarios: a DTLS handshake under a datagram schedule (per datagram: deliver, drop, duplicate, swap with the
next, delay), timers, then healing, application data, replays of every captured record, more application data."""
import itertools, random

TK = "/repo/testkeys"
RSA = ("%s/RSA/2048_RSA.pem,%s/RSA/2048_RSA_KEY.pem" % (TK, TK), "%s/RSA/2048_RSA_CA.pem" % TK)
EC = ("%s/EC/256_EC.pem,%s/EC/256_EC_KEY.pem" % (TK, TK), "%s/EC/256_EC_CA.pem" % TK)

def cfgs():
    C = []
    def add(name, ks, kc, so, co, resume=False, pmtu=0):
        C.append(dict(name=name, ks=ks, kc=kc, so=so, co=co, resume=resume, pmtu=pmtu))
    srv_rsa = "keys ks id=%s ca=%s psk=1" % RSA; cli_rsa = "keys kc ca=%s psk=1" % RSA[1]
    cli_rsa_id = "keys kc id=%s ca=%s" % RSA
    srv_ec = "keys ks id=%s ca=%s" % EC; cli_ec = "keys kc ca=%s" % EC[1]
    add("D12-ecdhe-rsa-gcm", srv_rsa, cli_rsa, "ver=D12", "ver=D12 suites=0xc02f")
    add("D12-rsa-cbc", srv_rsa, cli_rsa, "ver=D12", "ver=D12 suites=0x3c")
    add("D10-rsa-cbc", srv_rsa, cli_rsa, "ver=D10", "ver=D10 suites=0x2f")
    add("D12-ecdhe-ecdsa-gcm", srv_ec, cli_ec, "ver=D12", "ver=D12 suites=0xc02b")
    add("D12-psk", srv_rsa, cli_rsa, "ver=D12", "ver=D12 suites=0xae")
    add("D12-resumed", srv_rsa, cli_rsa, "ver=D12", "ver=D12 suites=0xc02f sid=R", resume=True)
    add("D12-cauth", srv_rsa, cli_rsa_id, "ver=D12 cb=strict", "ver=D12 suites=0xc02f")
    add("D12-frag512", srv_rsa, cli_rsa, "ver=D12", "ver=D12 suites=0xc02f", pmtu=512)
    add("D12-frag300-cauth", srv_rsa, cli_rsa_id, "ver=D12 cb=strict", "ver=D12 suites=0x3c", pmtu=300)
    return C

def storm_lines(x, k, tail=4):
    """application records from x after the handshake: the first is delivered, the next k are lost, the one after
    them is delivered - a jump of k+1 in the sequence numbers - then it and the first are replayed, the rest arrives,
    and the jumped-to record and the last one are replayed again"""
    n = k + 2 + tail
    L = ["send %s %d" % (x, 3 + i % 5) for i in range(n)] + ["flush %s" % x, "deliver %s 1" % x]
    L += ["drop %s 0" % x] * k + ["deliver %s 1" % x]
    L += ["replay %s 0 %d" % (x, -n + k + 1), "deliver %s 1" % x, "replay %s 0 %d" % (x, -n), "deliver %s 1" % x]
    L += ["deliver %s 1" % x] * tail
    L += ["replay %s 0 %d" % (x, -n + k + 1), "deliver %s 1" % x, "replay %s 0 -1" % x, "deliver %s 1" % x, "replay %s 0 %d" % (x, -n + k + 2), "deliver %s 1" % x]
    return L

def episode_lines(cfg, sched, replays, storm=(), early=None):
    L = [cfg["ks"], cfg["kc"]]
    if cfg["pmtu"]:
        L.append("pmtu %d" % cfg["pmtu"])
    if cfg["resume"]:
        L += ["new s9 server keys=ks %s" % cfg["so"], "new c9 client keys=kc %s" % cfg["co"], "link c9 s9", "pump c9 s9 max=80",
              "send c9 3", "pump c9 s9 max=8", "close c9", "pump c9 s9 max=8", "del c9", "del s9"]
    L += ["new s0 server keys=ks %s" % cfg["so"], "new c0 client keys=kc %s" % cfg["co"], "link c0 s0"]
    L.append("sched c0 s0 %s" % sched)
    L.append("heal c0 s0 rounds=8")
    L += ["mark healed", "state c0", "state s0"]
    if early:
        # one side talks first; its retransmission timer fires before it has heard anything back (the sender of the last
        # flight cannot know it arrived), the repeated flight is delivered, and what was sent before it is replayed
        x, y = early
        L += ["send %s 7" % x, "send %s 3" % x, "pump c0 s0 max=20", "timeout %s" % x, "pump c0 s0 max=20"]
        for h in range(-8, 0):
            L += ["replay %s 0 %d" % (x, h), "deliver %s 1" % x]
        L += ["timeout %s" % y, "pump c0 s0 max=20", "timeout %s" % x, "pump c0 s0 max=20"]
        for h in range(-10, 0):
            L += ["replay %s 0 %d" % (x, h), "deliver %s 1" % x]
    L += ["send c0 9", "send s0 7", "pump c0 s0 max=30", "send c0 3", "send s0 2", "pump c0 s0 max=30", "mark replays"]
    for (ep, h) in replays:
        L += ["replay %s 0 %d" % (ep, h), "deliver %s 1" % ep]
    L += ["pump c0 s0 max=60", "send c0 5", "send s0 4", "pump c0 s0 max=30", "mark final", "state c0", "state s0"]
    if storm:
        L.append("mark storm")
        for item in storm:
            if item[0] == "timers":
                # the application's retransmission timer fires although the handshake is complete: the last flight is
                # sent again; then everything captured so far is replayed
                L += ["timeout s0", "pump c0 s0 max=20", "timeout c0", "pump c0 s0 max=20"]
                for ep in ("s0", "c0"):
                    for h in item[1]:
                        L += ["replay %s 0 %d" % (ep, h), "deliver %s 1" % ep]
            else:
                L += storm_lines(item[0], item[1])
        L += ["send c0 6", "send s0 5", "pump c0 s0 max=30", "mark stormend", "state c0", "state s0"]
    return L

LETTERS = "dddddddddxxxuusl"

def episodes(tier, seed):
    rnd = random.Random(seed * 104729 + 3)
    C = cfgs()
    eps = []
    def add(cfg, sched, replays, kind, storm=(), early=None):
        eps.append(dict(id="D%d" % len(eps), cfg=cfg["name"], sched=sched, replays=replays, kind=kind, lines=episode_lines(cfg, sched, replays, storm, early)))
    all_replays_fwd = [("c0", h) for h in range(0, 14)] + [("s0", h) for h in range(0, 14)]
    all_replays_back = [("c0", -h) for h in range(1, 12)] + [("s0", -h) for h in range(1, 12)]
    fin_then_app = [("c0", h) for h in (3, 4, 5, 6, 7, 8)] * 2 + [("s0", h) for h in (4, 5, 6, 7, 8, 9, 10)] * 2
    # bounded-exhaustive schedules over the first datagrams of a short handshake
    short = [c for c in C if c["name"] in ("D12-resumed", "D12-psk")]
    n_ex = 4 if tier == "quick" else 7
    for cfg in short:
        for t in itertools.product("dxu", repeat=n_ex):
            add(cfg, "".join(t), all_replays_fwd if len(eps) % 3 == 0 else [], "exhaustive-%d" % n_ex)
    # random schedules on every configuration
    nrand = 14 if tier == "quick" else 160
    for cfg in C:
        add(cfg, "", all_replays_fwd, "clean+replays")
        add(cfg, "", all_replays_back, "clean+replays-backward")
        add(cfg, "", fin_then_app, "clean+finished-then-app-replays")
        for i in range(nrand):
            n = rnd.choice([6, 10, 16, 24, 40])
            s = "".join(rnd.choice(LETTERS) for _ in range(n))
            rp = rnd.choice([all_replays_fwd, all_replays_back, fin_then_app, [(rnd.choice(["c0", "s0"]), rnd.randrange(-12, 14)) for _ in range(10)]])
            add(cfg, s, rp, "random")
    # after the handshake: jumps in the record sequence numbers around the width of the replay window, timers that
    # fire on complete endpoints, and replays across them
    jumps = (0, 1, 30, 31, 32, 33, 62, 63, 64, 65, 70) if tier == "quick" else tuple(range(0, 72)) + (100, 127, 128, 129, 200)
    for cfg in C:
        if tier == "quick" and cfg["name"] not in ("D12-ecdhe-rsa-gcm", "D12-rsa-cbc", "D10-rsa-cbc", "D12-psk"): continue
        for k in jumps:
            add(cfg, "", [], "storm-jump", storm=[("c0", k), ("s0", k)])
            if tier != "quick" or k in (1, 32, 64):
                add(cfg, "", [], "storm-timers-jump", storm=[("timers", list(range(-8, 0))), ("s0", k), ("timers", list(range(-10, 0))), ("c0", k)])
        add(cfg, "", [], "storm-timers", storm=[("timers", list(range(-10, 0)) + list(range(0, 14)))])
        add(cfg, rnd.choice(["dxd", "ddxdd", "dddddx"]), [], "storm-timers-lossy", storm=[("timers", list(range(-12, 0)))])
    for cfg in C:
        for early in (("s0", "c0"), ("c0", "s0")):
            add(cfg, "", [], "early-timer", early=early)
            add(cfg, rnd.choice(["dddx", "ddddddx", "dxdd"]), all_replays_back, "early-timer-lossy", early=early)
    # loss of whole flights
    for cfg in C:
        for s in ("x", "dx", "dxx", "ddx", "ddxxxxx", "dddx", "dddxx", "dddddx", "ddddddx", "dddddddxx", "ddddddddx", "dddddddddxx", "xdxdxdxdxdxdxdxd"):
            add(cfg, s, [], "flight-loss")
    return eps

def render(eps, start):
    L = []
    for e in eps:
        L += e["lines"] + ["reset %s" % e["id"]]
    return L
