#!/usr/bin/env python3
"""C19: allocation failure yields a clean error, never a crash or a skipped check.  Single-fault enumeration: every
scenario is run once to count the library's allocations, then again with the k-th allocation failing, for every k
(thorough) or a spread of k (quick), on the sanitizer build with a leak check after every episode; the traces are
validated against MxAuth_Trace (a handshake never completes with less verification than the model demands)."""
import os, sys, json, time, random, collections, re
sys.path.insert(0, os.path.dirname(os.path.abspath(__file__)))
import runner, tlcutil, authgen

ASSUME = ["the library allocates through Malloc / Calloc / Realloc (core/osdep/include/osdep_malloc.h, 'may be overridden from the command line'); the fault build variant points them at the driver's counting allocator; allocations of libc itself are not failed",
          "one failing allocation per run (plus random pairs in the thorough tier); the run covers key loading, session creation, handshake, application data, closure and deletion of every object, then LeakSanitizer's recoverable leak check",
          "scenarios with a defective credential or proof of possession come from the C04 generator: under no fault may they complete; honest scenarios may fail cleanly or complete"]

def scenario_set(pkidir):
    S = []
    modes = [m for m in authgen.MODES if (m[0], m[1], m[2]) in (("T12", "ecdhe", "r"), ("T12", "rsa", "r"), ("T12", "ecdhe", "e"), ("T13", "t13", "r"), ("T13", "t13", "e"), ("D12", "ecdhe", "r"), ("T11", "rsa", "r"))]
    for (ver, kx, fam, suites, carrier) in modes:
        for role, cb, cred, pop in (("C", "none", "ok", "ok"), ("S", "strict", "ok", "ok"), ("C", "none", "badsig", "ok"), ("C", "none", "expired", "ok"), ("C", "none", "unknownca", "ok"),
                                    ("C", "none", "name", "ok"), ("C", "strict", "int_badsig", "ok"), ("S", "strict", "badsig", "ok"), ("C", "none", "ok", "sigflip"), ("C", "none", "ok", "wrongkey"),
                                    ("S", "strict", "ok", "sigflip"), ("C", "perm", "expired", "ok")):
            if pop == "sigflip" and role == "C" and carrier == "none": continue
            sc = dict(ver=ver, kx=kx, fam=fam, suites=suites, role=role, cb=cb, cred=cred, pop=pop, carrier=("CERTIFICATE_VERIFY" if role == "S" else carrier))
            S.append(sc)
    for ver, mode in (("T12", "id"), ("T12", "ticket"), ("T13", "psk"), ("T11", "ticket")):
        S.append(dict(ver=ver, kx="followup", fam="r", suites="0xc02f", role="C", cb="none", cred="ok", pop="ok", carrier="none", mode=mode))
    # the faulted connection is itself a resumption (session cache lookup, ticket / PSK decryption, X25519 key share under the fault)
    for ver, mode in (("T12", "id+res"), ("T12", "ticket+res"), ("T13", "psk+res"), ("T13", "psk+res+x25519")):
        S.append(dict(ver=ver, kx="followup", fam="r", suites="0xc02f", role="C", cb="none", cred="ok", pop="ok", carrier="none", mode=mode))
    # further code paths under the fault: HelloRetryRequest with server_name (second ClientHello re-parses the name), the SNI callback on
    # TLS 1.2, finite-field key shares (ffdhe2048), record padding
    for ver, mode, sx, cx in (("T13", "psk+hrr-sni", "groups=24 snicb=1", "groups=23,24 shares=1 sni=localhost name=localhost"),
                              ("T12", "id+sni", "snicb=1", "sni=localhost name=localhost"),
                              ("T13", "psk+ffdhe", "groups=256", "groups=256"),
                              ("T13", "psk+pad", "padblock=512", "padblock=1024"),
                              ("T13", "psk+res+hrr-sni", "groups=24 snicb=1", "groups=23,24 shares=1 sni=localhost name=localhost")):
        S.append(dict(ver=ver, kx="followup", fam="r", suites="0xc02f", role="C", cb="none", cred="ok", pop="ok", carrier="none", mode=mode, sx=sx, cx=cx))
    # external TLS 1.3 PSKs that carry session parameters (server name, ALPN protocol, early-data limit): every copy the key loader
    # makes can fail; one, two or three keys so that a failure also meets a list that already has entries
    for n, kx_ in ((1, "psksni=localhost pskalpn=h2"), (3, "psksni=localhost pskalpn=h2 early=16384"), (2, "pskalpn=http/1.1"), (2, "psksni=localhost")):
        S.append(dict(ver="T13", kx="followup", fam="r", suites="0xc02f", role="C", cb="none", cred="ok", pop="ok", carrier="none", mode="psk+extpsk%d" % len(S), kextra="psk13=%d %s" % (n, kx_)))
    return S

TK = "/repo/testkeys"
def followup_script(sc, k):
    """a connection under the fault that stores resumption state in an application-owned handle, then - with fault
    injection off - a second connection using that handle: the library must have stayed consistent"""
    so = "ver=%s" % sc["ver"]
    co = "ver=%s sid=R%s%s" % (sc["ver"], " tick=1" if sc["mode"].startswith("ticket") else "", "" if sc["ver"] == "T13" else " suites=0x2f" if sc["ver"] == "T11" else " suites=0xc02f")
    if "x25519" in sc["mode"]:
        so += " groups=29"; co += " groups=29"
    if sc.get("sx"): so += " " + sc["sx"]
    if sc.get("cx"): co += " " + sc["cx"]
    KS = ["keys ks id=%s/RSA/2048_RSA.pem,%s/RSA/2048_RSA_KEY.pem ca=%s/RSA/2048_RSA_CA.pem tickets=1" % (TK, TK, TK), "keys kc ca=%s/RSA/2048_RSA_CA.pem" % TK]
    if sc.get("kextra"): KS = [x + " " + sc["kextra"] for x in KS]
    if "+res" in sc["mode"]:
        # keys and a first, fault-free connection that fills the handle; then the resumption under the fault; then a fault-free third connection
        L = KS + ["new s9 server keys=ks %s" % so, "new c9 client keys=kc %s" % co, "link c9 s9", "pump c9 s9 max=60", "send c9 5", "pump c9 s9 max=8", "close c9", "pump c9 s9 max=6", "del c9", "del s9",
                  "failat %d" % k,
                  "new s0 server keys=ks %s" % so, "new c0 client keys=kc %s" % co, "link c0 s0", "pump c0 s0 max=60", "send c0 5", "send s0 2600", "send c0 3000", "pump c0 s0 max=8", "state c0", "state s0",
                  "close c0", "pump c0 s0 max=6", "del c0", "del s0", "failoff", "sid R",
                  "new s1 server keys=ks %s" % so, "new c1 client keys=kc %s" % co, "link c1 s1", "pump c1 s1 max=60", "send c1 5", "send s1 6", "pump c1 s1 max=8", "state c1", "state s1",
                  "close c1", "pump c1 s1 max=6", "del c1", "del s1"]
        # a resumed handshake has no certificate steps: MxAuth_Trace has no verifier to follow here (crash / leak / state rules apply)
        meta = dict(role="C", cb="none", cred="ok", pop="ok", carrier="none", verifier="-", prover="-", ver=sc["ver"], kx="followup", eid=0)
        return L, meta
    L = ["failat %d" % k] + KS + [
         "new s0 server keys=ks %s" % so, "new c0 client keys=kc %s" % co, "link c0 s0", "pump c0 s0 max=60", "send c0 5", "send s0 2600", "send c0 3000", "pump c0 s0 max=8", "state c0", "state s0",
         "close c0", "pump c0 s0 max=6", "del c0", "del s0", "failoff", "sid R",
         "new s1 server keys=ks %s" % so, "new c1 client keys=kc %s" % co, "link c1 s1", "pump c1 s1 max=60", "send c1 5", "send s1 6", "pump c1 s1 max=8", "state c1", "state s1",
         "close c1", "pump c1 s1 max=6", "del c1", "del s1"]
    meta = dict(role="C", cb="none", cred="ok", pop="ok", carrier="CERTIFICATE_VERIFY" if sc["ver"] == "T13" else "none" if sc["ver"] == "T11" else "SERVER_KEY_EXCHANGE", verifier="c0", prover="s0", ver=sc["ver"], kx="followup", eid=0)
    if sc.get("kextra"):
        # both sides hold the external PSK: the handshake is authenticated by it, there is no certificate step for MxAuth_Trace to follow
        meta = dict(role="C", cb="none", cred="ok", pop="ok", carrier="none", verifier="-", prover="-", ver=sc["ver"], kx="followup", eid=0)
    return L, meta

def script(sc, pkidir, k):
    if sc.get("kx") == "followup":
        return followup_script(sc, k)
    L, meta = authgen.episode(sc, pkidir, 0)
    # authgen ends with state lines; add closure and deletion so that everything can be leak-checked
    # application writes larger than the default 1500-byte output buffer (the buffer has to grow: matrixSslGetWritebuf), then closure
    L = ["failat %d" % k] + L + ["send c0 3000", "send s0 2600", "pump c0 s0 max=8", "send c0 2000", "pump c0 s0 max=4", "close c0", "pump c0 s0 max=6", "del c0", "del s0", "failoff"]
    return L, meta

def run(tier, seed):
    prop = "C19"
    t0 = time.time()
    rnd = random.Random(seed * 7 + 1)
    runner.build()                      # the ordinary sanitizer build must be current too (shared harness)
    bdir = runner.build("fault")
    import subprocess
    subprocess.run(["gcc", "-O1", "-w", "-o", os.path.join(runner.ROOT, "build/certgen"), os.path.join(runner.ROOT, "harness/certgen.c"), "-lcrypto"], check=True)
    wd = runner.workdir("check_C19")
    pkidir = os.path.join(runner.WORK, "pki_C19")
    authgen.materialise(pkidir, os.path.join(runner.ROOT, "build/certgen"))
    violations = []
    S = scenario_set(pkidir)
    if tier == "quick":
        S = [s for i, s in enumerate(S) if (s["cred"], s["pop"]) == ("ok", "ok") or i % 3 == seed % 3 or s["kx"] == "followup"]
    # 1. count allocations per scenario
    count_eps = []
    for i, sc in enumerate(S):
        L, m = script(sc, pkidir, -2)
        count_eps.append(dict(id="Q%d" % i, lines=L, meta=m, sc=sc))
    def render(eps, start):
        out = []
        for e in eps: out += e["lines"] + ["reset %s" % e["id"]]
        return out
    runs = runner.run_all(bdir, wd, runner.shard(count_eps, 16), render, timeout=1800, allow_nosession=True, extra=("-l",))
    nalloc = {}; sites = {}
    for r in runs:
        if r["rc"] != 0:
            print(r["stderr"][-1500:]); raise SystemExit("INFRA: counting run failed rc=%s" % r["rc"])
        window = None
        for l in open(r["trace"]):
            d = json.loads(l)
            if d.get("ev") == "failoff": window = d.get("allocs")         # allocations inside the fault window
            if d.get("ev") == "Reset" and d.get("tag", "").startswith("Q"):
                nalloc[d["tag"]] = window if window else d.get("allocs", 0)
                sites[d["tag"]] = d.get("sites", [])
                window = None
    # 2. the faulted runs
    eps = []
    per = 240 if tier == "quick" else None
    nsites_total = [0]; nsites_used = [0]
    for i, sc in enumerate(S):
        n = nalloc.get("Q%d" % i, 0)
        if n <= 0: raise SystemExit("INFRA: no allocations counted for scenario %d" % i)
        if per is None:
            # thorough: every index of short scenarios; otherwise every call site with its first, last and up to 12 further
            # indices (an exhaustive run over the ~600 000 allocations of all scenarios does not finish in four hours)
            if n <= 3000:
                ks = list(range(n))
            else:
                ks = set(range(0, min(n, 64)))
                for f, l, c in sites.get("Q%d" % i, []):
                    ks.add(f); ks.add(l)
                    for _ in range(min(12, max(0, c - 2))): ks.add(rnd.randrange(f, l + 1))
                ks = sorted(k for k in ks if k < n)
        else:
            # quick tier: every allocation call site (innermost return addresses) at least once, rarest sites first -
            # uniform sampling of indices would spend nearly everything on the big-number library
            st = sorted(sites.get("Q%d" % i, []), key=lambda x: (x[2], x[0]))
            nsites_total[0] += len(st); nsites_used[0] += min(len(st), per)
            ks = set(range(0, min(n, 8))) | set(f for f, l, c in st[:per]) | set(l for f, l, c in st[:per]) | set(rnd.randrange(n) for _ in range(12))
            ks = sorted(ks)
        ks = [k for k in ks if k < n]
        for k in ks:
            L, m = script(sc, pkidir, k)
            m = dict(m); m["fault"] = 1; m["k"] = k; m["nalloc"] = n
            eps.append(dict(id="F%d_%d" % (i, k), lines=L, meta=m, sc=sc))
    wd2 = runner.workdir("check_C19_runs")
    runs = runner.run_all(bdir, wd2, runner.shard(eps, 32), render, timeout=3000 if tier == "quick" else 20000, allow_nosession=True, extra=("-l", "-F", "-T", "120"))
    known = runner.load_known(prop); known_hit = {}
    import check_auth, check_garbage
    good = []
    for r in runs:
        if r["rc"] == 0:
            good.append(r); continue
        e = check_garbage.crashed_episode(r)
        what = "time limit exceeded (hang)" if r["rc"] == -9 else "driver terminated abnormally rc=%s" % r["rc"]
        frames = " ".join(x.strip() for x in r["stderr"].splitlines() if "ERROR" in x or re.match(r"\s+#[0-5] ", x))[:600]
        rp = runner.save_replay(prop, "crash_%s" % (e["id"] if e else os.path.basename(r["script"])), (e["lines"] + ["reset %s" % e["id"]]) if e else open(r["script"]).read().splitlines())
        open(rp + ".stderr", "w").write(r["stderr"])
        sc = e["sc"] if e else {}
        violations.append(("sanitizer", "%s with allocation %s of %s failing in scenario %s: %s" % (what, e and e["meta"]["k"], e and e["meta"]["nalloc"], {k: sc.get(k) for k in ("ver", "kx", "fam", "role", "cb", "cred", "pop")}, frames), rp))
    stats = collections.Counter(); distinct = set()
    def crash_sig(sig):
        kind = "other"
        for pat, nm in (("double-free", "double-free"), ("heap-use-after-free", "use-after-free"), ("heap-buffer-overflow", "heap-buffer-overflow"), ("stack-buffer-overflow", "stack-buffer-overflow"),
                        ("SEGV", "SEGV"), ("runtime error", "undefined-behaviour"), ("detected memory leaks", "leak"), ("mxdrive:", "driver"), ("attempting free", "bad-free")):
            if pat in sig: kind = nm; break
        m = re.search(r"\| *([A-Za-z0-9_]+) /repo/([^ :]+)", " | " + sig)
        frames = re.findall(r"([A-Za-z0-9_]+) /repo/([^ :]+):(\d+)", sig)
        site = frames[0][0] if frames else "?"
        if kind == "undefined-behaviour":
            m2 = re.search(r"/repo/([^: ]+):(\d+):\d+: runtime error: ([a-z ]+)", sig)
            if m2: site = "%s:%s" % (m2.group(1), m2.group(2))
        if kind == "leak":
            # the allocation site: first frame that is not an allocator wrapper
            fr = [f for f in frames if f[0] not in ("psBufInit", "psDynBufInit", "pstm_init_size", "pstm_init", "pstm_init_for_read_unsigned_bin", "pstm_grow", "psBufDetach")]
            site = fr[0][0] if fr else site
        return kind, site, ";".join(f[0] for f in frames[:4])
    for r in good:
        meta = {e["id"]: e for e in r["episodes"]}
        r["orig"] = r["trace"]
        r["trace"], summ = check_auth.annotate(r["trace"], {e["id"]: e["meta"] for e in r["episodes"]})
        crash = {}; follow = {}; lastc1 = None
        for l in open(r["orig"]):
            d = json.loads(l)
            if d.get("ev") == "state" and d.get("ep") == "c1": lastc1 = d.get("hc", "none")
            if d.get("ev") == "state" and d.get("ep") == "s1" and "hc" not in d: lastc1 = "none"      # a key set that failed to load: nothing to follow up
            if d.get("ev") == "Reset": follow[d.get("tag")] = lastc1; lastc1 = None
        for l in open(r["orig"]):
            d = json.loads(l)
            if d.get("ev") == "Crash":
                crash[d.get("tag")] = d
            if d.get("ev") == "Reset" and d.get("tag") in meta:
                e = meta[d["tag"]]; s = summ.get(d["tag"], {})
                scd = {k: e["sc"].get(k) for k in ("ver", "kx", "fam", "role", "cb", "cred", "pop")}
                stats["fault reached" if d.get("hits") else "fault not reached / crashed"] += 1
                stats["verifier completed" if s.get("hc") == 1 else "verifier did not complete"] += 1
                distinct.add((e["sc"]["ver"], e["sc"]["kx"], e["sc"]["role"], e["sc"]["cred"], e["sc"]["pop"], s.get("hc"), bool(d.get("hits"))))
                if e["sc"].get("kx") == "followup" and d["tag"] not in crash and follow.get(d["tag"]) == 0:
                    rp = runner.save_replay(prop, "followup_%s" % e["id"], e["lines"] + ["reset %s" % e["id"]])
                    violations.append(("state", "after allocation %d of %d failed in the first connection, a later fault-free connection with the same handle did not complete, scenario %s" % (e["meta"]["k"], e["meta"]["nalloc"], scd), rp))
                c = crash.get(d["tag"])
                if c is not None:
                    kind, site, chain = crash_sig(c.get("sig", ""))
                    if c.get("signal") == 14: kind = "hang"
                    sig = {"kind": kind, "site": site, "chain": chain, "ver": e["sc"]["ver"], "role": e["sc"]["role"]}
                    kf = runner.match_known(sig, known)
                    stats["crashes"] += 1
                    if kf:
                        known_hit[kf["id"]] = kf; continue
                    rp = runner.save_replay(prop, "crash_%s" % e["id"], e["lines"] + ["reset %s" % e["id"]])
                    violations.append(("sanitizer", "%s at %s [%s] with allocation %d of %d failing, scenario %s: failed allocation in [%s]; %s" % (kind, site, chain, e["meta"]["k"], e["meta"]["nalloc"], scd, ";".join(re.findall(r"([A-Za-z0-9_]+) /repo/", c.get("inj", ""))), c.get("sig", "")[:300]), rp))
    # annotate() must carry the fault flag into sc
    runner.validate_all(good, "MxAuth_Trace.tla", "MxAuth_Trace.cfg", timeout=6000)
    nvalid = 0; tstates = 0
    for r in good:
        v = r["val"]
        if v["infra"]:
            print(v["out"][-3000:]); raise SystemExit("INFRA: TLC trace validation failed on %s" % r["trace"])
        tstates += v["states"]
        lines = open(r["orig"]).read().splitlines()
        meta = {e["id"]: e for e in r["episodes"]}
        bad = set()
        for ln in v["rejects"]:
            tag = runner.episode_of_line(lines, ln)
            if tag in bad: continue
            bad.add(tag); e = meta.get(tag, {})
            d = json.loads(lines[ln - 1])
            rp = runner.save_replay(prop, "auth_%s" % tag, e.get("lines", []) + ["reset %s" % tag])
            violations.append(("trace", "line %d rejected by MxAuth_Trace with allocation %s of %s failing: scenario %s, verifier hc=%s hs=%s" % (ln, e.get("meta", {}).get("k"), e.get("meta", {}).get("nalloc"),
                               {k: e.get("sc", {}).get(k) for k in ("ver", "kx", "fam", "role", "cb", "cred", "pop")}, d.get("hc"), d.get("hs")), rp))
        nvalid += len([e for e in r["episodes"] if e["id"] not in bad])
    for k in known_hit.values():
        print("KNOWN-FINDING: property=%s %s" % (prop, k["what"]))
    bysite = collections.Counter(re.sub(r" with allocation.*", "", t)[:200] for kd, t, _ in violations if kd == "sanitizer")
    for site, n in bysite.most_common():
        print("  [%d episodes] %s" % (n, site))
    for kind, text, rp in violations[:25]:
        print("VIOLATION property=%s replay=%s" % (prop, rp)); print("  (%s) %s" % (kind, text[:900]))
    cov = {"evaluations": len(eps), "distinct_nontrivial": len(distinct),
           "rule": "evaluation = one run of a scenario (version x key exchange x verifier role x credential / proof class from the C04 generator, incl. key loading, handshake, data, closure, deletion) with the k-th library allocation failing; k ranges over every allocation of scenarios with up to 3000 allocations and over every call site (first, last and up to 12 further allocations of each) of the longer ones (thorough) or every distinct allocation call site - rarest first, up to 240 per scenario - plus the first 8 and a random sample (quick); distinct_nontrivial = distinct (version, kx, role, credential class, proof class, verifier completed?, fault reached?)",
           "samples": [dict(scenario={k: e["sc"][k] for k in ("ver", "kx", "fam", "role", "cb", "cred", "pop")}, k=e["meta"]["k"], allocations=e["meta"]["nalloc"]) for e in eps[:2] + eps[-2:]],
           "scenarios": len(S), "allocation_sites": {"seen": nsites_total[0], "failed_at_least_once": nsites_used[0]} if tier == "quick" else "all", "allocations_per_scenario": {"min": min(nalloc.values()), "max": max(nalloc.values())}, "outcomes": dict(stats),
           "traces_validated_against_impl": nvalid, "known_findings_reported": sorted(known_hit), "trace_states_checked": tstates, "exhaustive": False}
    runner.write_evidence(prop, tier, seed, "fault_enumeration", cov, time.time() - t0, len(violations), ASSUME)
    return 1 if violations else 0
