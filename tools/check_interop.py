#!/usr/bin/env python3
"""C10: interoperability with an independent stack (OpenSSL's libssl).  Every mutually supported combination of
version, cipher suite, key-exchange group, signature algorithm, client authentication and resumption mode is run in
both role assignments with payloads across record boundaries; MxInterop_Trace judges each run."""
import os, sys, json, time, subprocess, collections, itertools
sys.path.insert(0, os.path.dirname(os.path.abspath(__file__)))
import runner, tlcutil
from concurrent.futures import ThreadPoolExecutor

ASSUME = ["the independent implementation is the OpenSSL 3.5 libssl installed in the sandbox, driven through memory BIOs in the same process (harness/mxossl.c); both sides are restricted to exactly one version and one suite per run",
          "OpenSSL runs at security level 0 (TLS 1.1 and SHA-1 suites allowed) and, as a client, with SSL_OP_LEGACY_SERVER_CONNECT because the pinned build of the library has renegotiation and RFC 5746 signalling compiled out",
          "not covered: DTLS (datagram BIOs are not wired), PSK suites (no PSK callbacks on the OpenSSL side), static ECDH suites (not in OpenSSL 3), TLS 1.3 external PSKs, early data"]

SUITES = [  # id, OpenSSL name, versions, key type
    (0x002f, "AES128-SHA", ("T11", "T12"), "rsa"), (0x0035, "AES256-SHA", ("T11", "T12"), "rsa"), (0x003c, "AES128-SHA256", ("T12",), "rsa"), (0x003d, "AES256-SHA256", ("T12",), "rsa"),
    (0x009c, "AES128-GCM-SHA256", ("T12",), "rsa"), (0x009d, "AES256-GCM-SHA384", ("T12",), "rsa"),
    (0xc013, "ECDHE-RSA-AES128-SHA", ("T11", "T12"), "rsa"), (0xc014, "ECDHE-RSA-AES256-SHA", ("T11", "T12"), "rsa"), (0xc027, "ECDHE-RSA-AES128-SHA256", ("T12",), "rsa"),
    (0xc028, "ECDHE-RSA-AES256-SHA384", ("T12",), "rsa"), (0xc02f, "ECDHE-RSA-AES128-GCM-SHA256", ("T12",), "rsa"), (0xc030, "ECDHE-RSA-AES256-GCM-SHA384", ("T12",), "rsa"),
    (0xc009, "ECDHE-ECDSA-AES128-SHA", ("T11", "T12"), "ec"), (0xc00a, "ECDHE-ECDSA-AES256-SHA", ("T11", "T12"), "ec"), (0xc023, "ECDHE-ECDSA-AES128-SHA256", ("T12",), "ec"),
    (0xc024, "ECDHE-ECDSA-AES256-SHA384", ("T12",), "ec"), (0xc02b, "ECDHE-ECDSA-AES128-GCM-SHA256", ("T12",), "ec"), (0xc02c, "ECDHE-ECDSA-AES256-GCM-SHA384", ("T12",), "ec"),
    (0x1301, "TLS_AES_128_GCM_SHA256", ("T13",), "rsa"), (0x1302, "TLS_AES_256_GCM_SHA384", ("T13",), "rsa"), (0x1303, "TLS_CHACHA20_POLY1305_SHA256", ("T13",), "rsa"),
    (0x1301, "TLS_AES_128_GCM_SHA256", ("T13",), "ec"), (0x1303, "TLS_CHACHA20_POLY1305_SHA256", ("T13",), "ec"),
]
GROUPS = [("P-256", 23), ("P-384", 24), ("P-521", 25), ("X25519", 29)]     # X25519: TLS 1.3 only in the library
SIGALGS13 = {"rsa": ["rsa_pss_rsae_sha256", "rsa_pss_rsae_sha384", "rsa_pss_rsae_sha512"], "ec": ["ecdsa_secp256r1_sha256"]}
SIGALGS12 = {"rsa": ["RSA+SHA256", "RSA+SHA384", "RSA+SHA512", "RSA+SHA1"], "ec": ["ECDSA+SHA256", "ECDSA+SHA384", "ECDSA+SHA512"]}

def combos(tier):
    C = []
    sizes_all = "1,100,16383,16384,16385,20000,40000"
    for (sid, oname, vers, key) in SUITES:
        for ver in vers:
            for role in ("client", "server"):
                base = dict(role=role, ver=ver, suite=hex(sid), oname=oname, key=key)
                C.append(dict(base, sizes=sizes_all))
                C.append(dict(base, cauth=1, sizes="1,3000"))
                for rm in ("id", "ticket"):
                    if ver == "T13" and rm == "id": continue
                    C.append(dict(base, resume=rm, sizes="5,17000"))
                C.append(dict(base, cauth=1, resume="ticket", sizes="2"))
                ecdhe = oname.startswith("ECDHE") or ver == "T13"
                if ecdhe:
                    for gname, gid in GROUPS:
                        if gid == 29 and ver != "T13": continue
                        # TLS <= 1.2: supported_groups also covers the curve of an ECDSA certificate (P-256 here)
                        glist = gname + ":P-256" if (key == "ec" and ver != "T13" and gname != "P-256") else gname
                        C.append(dict(base, group=glist, gid=gid if glist == gname else 0, sizes="10"))
                if ver != "T13":
                    # RFC 7507: a fallback retry (TLS_FALLBACK_SCSV) at the highest version the server enables is an ordinary handshake
                    C.append(dict(base, scsv=1, sizes="10"))
                if ver == "T13":
                    # HelloRetryRequest: the client's only key share is for a group the server does not take
                    if role == "server":
                        C.append(dict(base, group="X25519:P-384", gid=24, hrr=1, sizes="10,17000"))
                        C.append(dict(base, group="P-256:P-521", gid=25, hrr=1, resume="ticket", sizes="10"))
                    else:
                        C.append(dict(base, group="P-384", gids="23,24", shares=1, hrr=1, sizes="10,17000"))
                        C.append(dict(base, group="P-521", gids="29,25", shares=1, hrr=1, resume="ticket", sizes="10"))
                if ver in ("T12", "T13") and sid in (0xc02f, 0x003d, 0x1301, 0x1303):
                    # RFC 6066 max_fragment_length asked for by the client (whichever stack that is)
                    for mf in (512, 2048):
                        C.append(dict(base, maxfrag=mf, sizes="1,600,5000,17000"))
                if ver == "T13":
                    # record padding on both sides (RFC 8446 5.4), 0-RTT data from the independent client (which sends a
                    # compatibility ChangeCipherSpec between ClientHello and early data), and a second connection restricted to a
                    # suite of the other hash (the ticket cannot be used: full handshake, not a failure)
                    for pad in (512, 4096):
                        C.append(dict(base, pad=pad, sizes="1,300,16384,20000"))
                    C.append(dict(base, pad=1024, resume="ticket", sizes="5,17000"))
                    if role == "client":
                        # resumption by PSK alone (psk_ke): the OpenSSL server allows it and shares no group with the client the second time
                        C.append(dict(base, resume="ticket", pskke=1, sizes="5,300"))
                    if role == "server":
                        for en in (1, 100, 5000):
                            C.append(dict(base, resume="ticket", early=en, sizes="5,300"))
                        # 0-RTT data sent with a ClientHello that the server answers with HelloRetryRequest: skipped, the handshake goes on
                        C.append(dict(base, resume="ticket", early=300, group="X25519:P-384", gid=24, hrr=1, sizes="5,300"))
                    other = [(i2, n2) for (i2, n2, v2, k2) in SUITES if "T13" in v2 and k2 == key and (("SHA384" in n2) != ("SHA384" in oname))]
                    if other:
                        C.append(dict(base, resume="ticket", suite2=hex(other[0][0]), oname2=other[0][1], sizes="5"))
                sal = (SIGALGS13 if ver == "T13" else SIGALGS12 if ver == "T12" and ecdhe else {}).get(key, [])
                certsig = {("T13", "rsa"): "rsa_pkcs1_sha256", ("T13", "ec"): "ecdsa_secp256r1_sha256", ("T12", "rsa"): "RSA+SHA256", ("T12", "ec"): "ECDSA+SHA256"}.get((ver, key), "")
                for sa in sal:
                    lst = sa if sa == certsig else sa + ":" + certsig
                    C.append(dict(base, sigalgs=lst, sizes="10"))
                    C.append(dict(base, sigalgs=lst, cauth=1, sizes="10"))
    if tier == "quick":
        C = [c for i, c in enumerate(C) if "group" not in c and "sigalgs" not in c or i % 2 == 0]
    # Ed25519 identities (generated by the check: the repository's test keys have none), TLS 1.3, both roles, with and without client
    # authentication, with resumption
    for role in ("client", "server"):
        for (sid, oname) in ((0x1301, "TLS_AES_128_GCM_SHA256"), (0x1303, "TLS_CHACHA20_POLY1305_SHA256")):
            base = dict(role=role, ver="T13", suite=hex(sid), oname=oname, key="ed", certdir=EDDIR)
            C.append(dict(base, sizes="1,100,17000"))
            C.append(dict(base, cauth=1, sizes="1,3000"))
            C.append(dict(base, cauth=1, resume="ticket", sizes="2"))
    # RSASSA-PSS signed certificates (rsaEncryption keys): TLS 1.3 both roles with and without client authentication; TLS 1.2 only where
    # MatrixSSL is the one that verifies (it does not present PSS-signed certificates below TLS 1.3: stated limit)
    for role in ("client", "server"):
        for ca_ in (0, 1):
            C.append(dict(role=role, ver="T13", suite=hex(0x1301), oname="TLS_AES_128_GCM_SHA256", key="pss", certdir=EDDIR, cauth=ca_, sizes="1,3000"))
    C.append(dict(role="client", ver="T12", suite=hex(0xc02f), oname="ECDHE-RSA-AES128-GCM-SHA256", key="pss", certdir=EDDIR, sizes="1,3000"))
    # larger keys: P-384 / P-521 ECDSA and RSA-3072 identities under RSA-4096 / P-384 / P-521 roots (SHA-384 / SHA-512 certificate signatures),
    # client authentication on, TLS 1.2 and 1.3, both roles
    for leaf, lkey, root, on12, s12 in (("l384", "k384L", "r384", "ECDHE-ECDSA-AES128-GCM-SHA256", 0xc02b), ("l521", "k521L", "r521", "ECDHE-ECDSA-AES256-GCM-SHA384", 0xc02c),
                                        ("l4", "k4L", "r4", "ECDHE-RSA-AES128-GCM-SHA256", 0xc02f)):
        for ver in ("T13", "T12"):
            for role in ("client", "server"):
                C.append(dict(role=role, ver=ver, suite=hex(0x1301 if ver == "T13" else s12), oname="TLS_AES_128_GCM_SHA256" if ver == "T13" else on12,
                              key="gen", certdir=EDDIR, leaf=leaf, lkey=lkey, root=root, cauth=1, sizes="1,3000"))
    return C

EDDIR = os.path.join(runner.WORK, "pki_C10")
def make_ed_pki():
    os.makedirs(EDDIR, exist_ok=True)
    subprocess.run(["gcc", "-O1", "-w", "-o", os.path.join(runner.ROOT, "build/certgen"), os.path.join(runner.ROOT, "harness/certgen.c"), "-lcrypto"], check=True)
    L = ["key kER ed", "key kEL ed", "cert edroot subj=EDR iss=EDR key=kER signkey=kER ca=1 ku=certSign",
         "cert edleaf subj=localhost iss=EDR key=kEL signkey=kER ca=0 ku=digSig san=DNS:localhost",
         "key kPR rsa", "key kPL rsa", "cert proot subj=PR iss=PR key=kPR signkey=kPR ca=1 ku=certSign pad=pss",
         "cert pleaf subj=localhost iss=PR key=kPL signkey=kPR ca=0 ku=digSig san=DNS:localhost pad=pss",
         "key k384R ec384", "key k384L ec384", "key k521R ec521", "key k521L ec521", "key k4R rsa4096", "key k4L rsa3072",
         "cert r384 subj=R384 iss=R384 key=k384R signkey=k384R ca=1 ku=certSign md=sha384", "cert l384 subj=localhost iss=R384 key=k384L signkey=k384R ca=0 ku=digSig san=DNS:localhost md=sha384",
         "cert r521 subj=R521 iss=R521 key=k521R signkey=k521R ca=1 ku=certSign md=sha512", "cert l521 subj=localhost iss=R521 key=k521L signkey=k521R ca=0 ku=digSig san=DNS:localhost md=sha512",
         "cert r4 subj=R4 iss=R4 key=k4R signkey=k4R ca=1 ku=certSign md=sha512", "cert l4 subj=localhost iss=R4 key=k4L signkey=k4R ca=0 ku=digSig san=DNS:localhost md=sha384"]
    p = subprocess.run([os.path.join(runner.ROOT, "build/certgen"), EDDIR], input="\n".join(L) + "\n", capture_output=True, text=True)
    if p.returncode != 0:
        raise SystemExit("INFRA: certgen failed: " + p.stderr[-1000:])

def run(tier, seed):
    prop = "C10"
    t0 = time.time()
    bdir = runner.build()
    p = subprocess.run(["make", "-s", "-f", os.path.join(runner.ROOT, "harness/Makefile"), "B=" + bdir, os.path.join(bdir, "mxossl")], cwd=runner.ROOT, capture_output=True, text=True)
    if p.returncode != 0:
        print(p.stderr[-3000:]); raise SystemExit("INFRA: mxossl build failed")
    wd = runner.workdir("check_C10")
    make_ed_pki()
    C = combos(tier)
    env = dict(os.environ); env["ASAN_OPTIONS"] = "detect_leaks=1:exitcode=77"; env["UBSAN_OPTIONS"] = "halt_on_error=1:exitcode=78"
    def one(ic):
        i, c = ic
        args = [os.path.join(bdir, "mxossl"), "tag=I%d" % i] + ["%s=%s" % (k, v) for k, v in c.items()]
        try:
            q = subprocess.run(args, capture_output=True, text=True, timeout=120, env=env)
            return i, c, q.returncode, q.stdout, q.stderr[-1500:]
        except subprocess.TimeoutExpired:
            return i, c, -9, "", "TIMEOUT"
    with ThreadPoolExecutor(max_workers=16) as ex:
        res = list(ex.map(one, enumerate(C)))
    violations = []
    lines = []; idx = {}
    notapp = 0
    for i, c, rc, out, err in res:
        if rc != 0:
            rp = os.path.join(runner.REPLAY, "C10_I%d.sh" % i); os.makedirs(runner.REPLAY, exist_ok=True)
            open(rp, "w").write(os.path.join(bdir, "mxossl") + " " + " ".join("%s=%s" % kv for kv in c.items()) + "\n")
            violations.append(("sanitizer", "mxossl ended with rc=%s for %s: %s" % (rc, c, " ".join(x.strip() for x in err.splitlines() if "ERROR" in x or "#0" in x or "#1" in x)[:300]), rp)); continue
        ol = [x for x in out.splitlines() if x.startswith("{")]
        if not ol:
            raise SystemExit("INFRA: no result line from mxossl for %s" % c)
        d = json.loads(ol[-1])
        if "infra" in d:
            notapp += 1; continue
        idx[len(lines) + 1] = (i, c); lines.append(json.dumps(d))
    tp = os.path.join(wd, "interop.nd"); open(tp, "w").write("\n".join(lines) + "\n")
    v = tlcutil.validate_trace(tp, "MxInterop_Trace.tla", "MxInterop_Trace.cfg", 1800)
    if v["infra"]:
        print(v["out"][-3000:]); raise SystemExit("INFRA: TLC failed on MxInterop_Trace")
    known = runner.load_known(prop); known_hit = {}
    for ln in v["rejects"]:
        i, c = idx[ln]; d = json.loads(lines[ln - 1])
        sig = {k: str(c.get(k, "")) for k in ("role", "ver", "oname", "key", "cauth", "resume", "group", "sigalgs", "pad", "early", "oname2", "maxfrag", "pskke", "scsv", "leaf")}
        sig["obs"] = "done=%s odone=%s mres=%s ores=%s dataok=%s odataok=%s mver=%s ocipher=%s" % (d["done"], d["odone"], d["mres"], d["ores"], d["dataok"], d["odataok"], d["mver"], d["ocipher"]) + (" earlyok=%s oearly=%s" % (d.get("earlyok"), d.get("oearly")) if c.get("early") else "")
        k = runner.match_known(sig, known)
        if k:
            known_hit[k["id"]] = k; continue
        rp = os.path.join(runner.REPLAY, "C10_I%d.sh" % i); os.makedirs(runner.REPLAY, exist_ok=True)
        open(rp, "w").write(os.path.join(bdir, "mxossl") + " " + " ".join("%s=%s" % kv for kv in c.items()) + "\n")
        violations.append(("trace", "no interoperation for %s: %s" % ({k: v2 for k, v2 in sig.items() if v2 and k != "obs"}, sig["obs"]), rp))
    for k in known_hit.values():
        print("KNOWN-FINDING: property=%s %s" % (prop, k["what"]))
    for kind, text, rp in violations[:40]:
        print("VIOLATION property=%s replay=%s" % (prop, rp)); print("  (%s) %s" % (kind, text[:700]))
    distinct = set((json.loads(l)["role"], json.loads(l)["ver"], json.loads(l)["oname"], json.loads(l)["cauth"], json.loads(l)["resume"], json.loads(l)["ogroup"][0]) for l in lines)
    cov = {"evaluations": len(C), "distinct_nontrivial": len(distinct), "traces_validated_against_impl": len(lines) - len(v["rejects"]), "states": v["states"], "transitions": v["transitions"],
           "rule": "evaluation = one mxossl run: role x version x suite (23 suite/key pairs) [x group | x signature algorithms | x client auth | x resumption by id / ticket / TLS 1.3 ticket] with payloads of 1..40000 bytes both ways; distinct_nontrivial = distinct (role, version, suite, client auth, resumption mode, negotiated group)",
           "samples": [C[0], C[len(C) // 2], C[-1]], "combinations_refused_by_setup": notapp, "known_findings_reported": sorted(known_hit), "exhaustive": tier == "thorough"}
    runner.write_evidence(prop, tier, seed, "model_checking", cov, time.time() - t0, len(violations), ASSUME)
    return 1 if violations else 0
