#!/usr/bin/env python3
"""C12 call patterns for mxcrypto.  A case is one script line; cases are grouped into episodes (closed by a reset line)
so that a rejection can be attributed.  The digest cases cover every transition of MxStream's buffering automaton:
(bytes already buffered f) x (length n of the next Update) - all f and n up to two blocks plus one in the thorough
tier, the boundary fills (0, 1, around the padding threshold B-LB, B-1) with all n in the quick tier."""
import random

DIG = [("md5", 64, 8), ("sha1", 64, 8), ("sha256", 64, 8), ("sha384", 128, 16), ("sha512", 128, 16), ("md5sha1", 64, 8)]
HM = [("md5", 64, 16), ("sha1", 64, 20), ("sha256", 64, 32), ("sha384", 128, 48)]

def cases(tier, seed):
    rnd = random.Random(seed * 101 + 5)
    C = []   # (family, line)
    thorough = tier == "thorough"
    for alg, B, LB in DIG:
        fills = range(B) if thorough else sorted({0, 1, 2, B // 2, B - LB - 2, B - LB - 1, B - LB, B - LB + 1, B - 2, B - 1})
        for f in fills:
            for n in range(0, 2 * B + 2):
                r = rnd.choice([0, 1, B - LB - 1 - ((f + n) % B), rnd.randrange(B), rnd.randrange(3 * B)])
                r = r if r >= 0 else 0
                C.append(("dig-edge", "dig %s seed=%d al=%d %d %d %d" % (alg, rnd.randrange(50), rnd.choice([0, 0, 1, 3]), f, n, r)))
        # every total length up to three blocks in one call, at several alignments; zero-length calls in between
        for L in range(0, 3 * B + 2):
            C.append(("dig-length", "dig %s seed=%d al=%d %d" % (alg, rnd.randrange(50), L % 8, L)))
            C.append(("dig-length", "dig %s seed=%d al=%d 0 %d 0" % (alg, rnd.randrange(50), (L + 3) % 8, L)))
        # byte at a time, and long random chunkings with large pieces
        C.append(("dig-bytewise", "dig %s seed=3 al=0 %s" % (alg, " ".join(["1"] * (2 * B + 3)))))
        for _ in range(40 if thorough else 8):
            k = rnd.randrange(1, 12)
            C.append(("dig-random", "dig %s seed=%d al=%d %s" % (alg, rnd.randrange(50), rnd.randrange(8),
                     " ".join(str(rnd.choice([rnd.randrange(0, 20), rnd.randrange(0, 4 * B), rnd.randrange(0, 6000)])) for _ in range(k)))))
    for alg, B, H in HM:
        for klen in sorted({0, 1, H, B - 1, B}):
            for f in (0, 1, B - 9, B - 1):
                for n in (0, 1, B - 1, B, B + 1, 2 * B + 3):
                    C.append(("hmac-stream", "hmac %s seed=%d klen=%d mode=init %d %d" % (alg, rnd.randrange(50), klen, f, n)))
        for klen in sorted({0, 1, H - 1, H, H + 1, B - 1, B, B + 1, 2 * B, 2 * B + 7, 300, 512}):
            for n in sorted({0, 1, H, B - 9, B - 1, B, B + 1, 3 * B + 5, 1000}):
                C.append(("hmac-single", "hmac %s seed=%d klen=%d mode=single %d" % (alg, rnd.randrange(50), klen, n)))
    for alg, B, H in HM[2:]:
        for out in sorted({0, 1, H - 1, H, H + 1, 2 * H, 3 * H + 1, 254 * H + 1, 255 * H - 1, 255 * H, 255 * H + 1, 256 * H, 65535}):
            for salt in (0, 1, H, B + 1):
                for info in (0, 1, 10, B, 200, 1024):
                    if thorough or (salt in (0, H) and info in (0, 10, 200)) or out in (255 * H, 255 * H + 1):
                        C.append(("hkdf", "hkdf %s seed=%d salt=%d ikm=%d info=%d out=%d" % (alg, rnd.randrange(50), salt, rnd.choice([0, 1, H, 100]), info, out)))
    for plen in (1, 8, 64, 65, 100):
        for slen in (0, 8, 20):
            for rounds in (1, 2, 5):
                for klen in (1, 19, 20, 21, 40, 41, 100):
                    if thorough or (plen in (8, 65) and rounds in (1, 2)):
                        C.append(("pbkdf2", "pbkdf2 seed=%d plen=%d slen=%d rounds=%d klen=%d" % (rnd.randrange(50), plen, slen, rounds, klen)))
    # AES-GCM streaming: every (keystream offset f mod 16) x (next piece n), AAD lengths around the block and buffer sizes
    for klen in (16, 32):
        for aad in (0, 1, 13, 15, 16, 17, 127, 128, 129, 255):
            for f in ((0, 1, 5, 15, 16, 17, 31) if not thorough else range(0, 33)):
                for n in list(range(0, 35)) + [63, 64, 65, 127, 128, 129, 255, 256, 257, 1000]:
                    if thorough or aad in (0, 13, 16, 129) or n in (0, 1, 16):
                        C.append(("gcm-stream", "gcm seed=%d klen=%d aad=%d al=%d inplace=%d dir=%s %d %d %d" % (rnd.randrange(50), klen, aad, rnd.choice([0, 1, 5]), rnd.randrange(2),
                                 rnd.choice(["enc", "dec"]), f, n, rnd.randrange(0, 40))))
    # a context that has already protected a message (tag fetched with 16 / 12 / 8 / 4 bytes) is readied for the next one
    for reuse in (16, 12, 8, 4):
        for klen in (16, 32):
            for n in (0, 1, 15, 16, 17, 40):
                C.append(("gcm-reuse", "gcm seed=%d klen=%d aad=%d al=0 inplace=%d dir=%s reuse=%d %d %d" % (rnd.randrange(50), klen, rnd.choice([0, 13]), rnd.randrange(2),
                         rnd.choice(["enc", "dec"]), reuse, n, rnd.randrange(0, 20))))
    # every single-bit modification of a sealed record, both decrypt interfaces, full and truncated tags
    for pt, aad in ((0, 0), (1, 13), (16, 13), (33, 5)) + (((100, 21),) if thorough else ()):
        for api in (1, 2):
            for taglen in (16, 12, 8, 4):      # a shorter tag would accept a modified record by chance (2^-8 per case for one byte)
                C.append(("aead-open", "gcmopen seed=%d klen=16 aad=%d pt=%d taglen=%d api=%d tamper=none" % (rnd.randrange(50), aad, pt, taglen, api)))
                for fld, nbits in (("ct", pt * 8), ("tag", taglen * 8), ("nonce", 96), ("aad", aad * 8), ("key", 128)):
                    for bit in range(nbits):
                        if thorough or taglen in (16, 8) or bit % 7 == 0:
                            C.append(("aead-open", "gcmopen seed=%d klen=%d aad=%d pt=%d taglen=%d api=%d tamper=%s bit=%d" % (rnd.randrange(50), 16, aad, pt, taglen, api, fld, bit)))
    for pt, aad in ((0, 0), (1, 13), (63, 16), (64, 17), (65, 13)) + (((200, 30),) if thorough else ()):
        for api in ("att", "det"):
            for al, inplace in ((0, 0), (1, 1), (3, 0)):
                C.append(("aead-seal", "chacha seed=%d aad=%d pt=%d al=%d inplace=%d tamper=none api=%s" % (rnd.randrange(50), aad, pt, al, inplace, api)))
            for fld, nbits in (("ct", pt * 8), ("tag", 128), ("nonce", 96), ("aad", aad * 8), ("key", 256)):
                for bit in range(nbits):
                    if thorough or pt <= 1 or bit % 5 == 0:
                        C.append(("aead-open", "chacha seed=%d aad=%d pt=%d al=0 inplace=%d tamper=%s bit=%d api=%s" % (rnd.randrange(50), aad, pt, bit & 1, fld, bit, api)))
    for nm, blk, klens in (("cbc", 16, (16, 32)), ("des3", 8, (24,))):
        for klen in klens:
            for d in ("enc", "dec"):
                for inplace in (0, 1):
                    for a in range(4):
                        for b in range(4):
                            for c in (0, 1, 5):
                                C.append(("cbc-chain", "%s seed=%d %sdir=%s inplace=%d al=%d %d %d %d" % (nm, rnd.randrange(50), "klen=%d " % klen if nm == "cbc" else "", d, inplace,
                                         rnd.choice([0, 1, 4]), a * blk, b * blk, c * blk)))
    return C

def episodes(tier, seed, per=40):
    C = cases(tier, seed)
    eps = []
    for i in range(0, len(C), per):
        chunk = C[i:i + per]
        eps.append(dict(id="E%d" % (i // per), lines=[l for _, l in chunk], fams=[f for f, _ in chunk]))
    return eps

if __name__ == "__main__":
    import sys, collections
    C = cases(sys.argv[1] if len(sys.argv) > 1 else "quick", 1)
    print(len(C), collections.Counter(f for f, _ in C))
