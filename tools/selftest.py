#!/usr/bin/env python3
"""Demonstrates the binding between the specifications and the recorded executions: a trace of the real library that a trace
specification accepts is corrupted in ONE recorded field and must then be rejected.  (The other half of the demonstration -
changes to the library that a check must notice - is the seeded-defect table of DESIGN.md, `tools/try_seed.sh`.)"""
import os, sys, json, copy
sys.path.insert(0, os.path.dirname(os.path.abspath(__file__)))
import runner, tlcutil, sessgen, crlgen

def validate(lines, path, module, cfg):
    open(path, "w").write("\n".join(json.dumps(d) for d in lines) + "\n")
    v = tlcutil.validate_trace(path, module, cfg, 900)
    if v["infra"]:
        print(v["out"][-2000:]); raise SystemExit("INFRA: TLC failed on " + path)
    return v["rejects"]

def main():
    bdir = runner.build()
    wd = runner.workdir("selftest")
    ok = True
    # 1. MxSession_Trace: an honest TLS 1.2 handshake with data and closure
    cfg = [c for c in sessgen.cfgs() if c["name"] == "T12-ecdhe-rsa-gcm"][0]
    L = [cfg["ks"], cfg["kc"], "new s0 server keys=ks %s" % cfg["so"], "new c0 client keys=kc %s" % cfg["co"], "link c0 s0", "pump c0 s0 max=40",
         "send c0 7", "send s0 9", "pump c0 s0 max=8", "close c0", "pump c0 s0 max=6", "reset S0"]
    sp = os.path.join(wd, "a.mx"); tp = os.path.join(wd, "a.nd"); open(sp, "w").write("\n".join(L) + "\n")
    r = runner.run_driver(bdir, sp, tp, 300)
    if r["rc"] != 0: raise SystemExit("INFRA: driver failed: " + r["stderr"][-500:])
    T = [json.loads(x) for x in open(tp)]
    base = validate(T, os.path.join(wd, "a0.nd"), "MxSession_Trace.tla", "MxSession_Trace.cfg")
    print("MxSession_Trace: honest trace, %d lines, rejected lines: %s" % (len(T), base))
    ok &= (base == [])
    muts = []
    i = [k for k, d in enumerate(T) if d.get("ev") == "deliver" and d.get("imsg") == "FINISHED"][0]
    m = copy.deepcopy(T); m[i]["hs"] = "CERTIFICATE"; muts.append(("state after Finished recorded as CERTIFICATE", m))
    i = [k for k, d in enumerate(T) if d.get("ev") == "deliver" and d.get("dlv")][0]
    m = copy.deepcopy(T); m[i]["dlv"] = m[i]["dlv"] + m[i]["dlv"]; muts.append(("one application record recorded as delivered twice", m))
    i = [k for k, d in enumerate(T) if d.get("ev") == "deliver" and d.get("imsg") == "SERVER_HELLO"][0]
    m = copy.deepcopy(T); m[i]["rc"] = "Error"; m[i]["rcn"] = -12; muts.append(("ServerHello delivery recorded as an error return", m))
    for k, (what, m) in enumerate(muts):
        rj = validate(m, os.path.join(wd, "a%d.nd" % (k + 1)), "MxSession_Trace.tla", "MxSession_Trace.cfg")
        print("  corrupted (%s): rejected lines %s" % (what, rj)); ok &= bool(rj)
    # 2. MxCrl_Trace: a revocation history; the verdict on the revoked certificate flipped
    pk = os.path.join(runner.WORK, "pki_selftest"); crlgen.materialise(pk, os.path.join(runner.ROOT, "build/certgen"))
    h = [("crl", "r1", "root"), ("val", ["leafA"]), ("val", ["leafB"])]
    L, M = crlgen.render(h, pk, "R0")
    sp = os.path.join(wd, "b.mx"); tp = os.path.join(wd, "b.nd"); open(sp, "w").write("\n".join(L) + "\n")
    r = runner.run_driver(bdir, sp, tp, 300)
    if r["rc"] != 0: raise SystemExit("INFRA: driver failed: " + r["stderr"][-500:])
    T = []; k = 0
    for x in open(tp):
        d = json.loads(x)
        if d.get("ev") in ("crl", "validate", "Reset") and d.get("tag") != "end": d.update(M[k]); k += 1
        T.append(d)
    base = validate(T, os.path.join(wd, "b0.nd"), "MxCrl_Trace.tla", "MxCrl_Trace.cfg")
    print("MxCrl_Trace: history, rejected lines: %s" % base); ok &= (base == [])
    i = [k for k, d in enumerate(T) if d.get("ev") == "validate"][0]
    m = copy.deepcopy(T); m[i]["rcn"] = 0; m[i]["st"] = [1]
    rj = validate(m, os.path.join(wd, "b1.nd"), "MxCrl_Trace.tla", "MxCrl_Trace.cfg")
    print("  corrupted (revoked certificate recorded as accepted): rejected lines %s" % rj); ok &= bool(rj)
    print("SELFTEST %s" % ("PASS" if ok else "FAIL"))
    return 0 if ok else 1

if __name__ == "__main__":
    sys.exit(main())
