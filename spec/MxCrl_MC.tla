----------------------------- MODULE MxCrl_MC -----------------------------
(* A universe with an impostor: a second self-signed certificate carrying the trust anchor's name (other key), leaves issued   *)
(* by the anchor, by the impostor and by an intermediate; CRLs signed by the anchor's key and by the impostor's.                *)
EXTENDS MxCrl
C(id, subj, iss, key, signer, serial) == [id |-> id, subj |-> subj, iss |-> iss, key |-> key, signer |-> signer, serial |-> serial]
root  == C("root", "R", "R", "kR", "kR", 100)
fake  == C("fakeroot", "R", "R", "kF", "kF", 101)
inter == C("inter", "I", "R", "kI", "kR", 3)
leafA == C("leafA", "A", "R", "kA", "kR", 1)
leafB == C("leafB", "B", "R", "kB", "kR", 2)
fleaf == C("fleaf", "X", "R", "kX", "kF", 1)
leafC == C("leafC", "C", "I", "kC", "kI", 1)
MCCerts == {root, fake, inter, leafA, leafB, fleaf, leafC}
MCAnchors == {root}
MCChains == {<<leafA>>, <<leafB>>, <<leafA, root>>, <<fleaf, fake>>, <<leafA, fake>>, <<leafC, inter>>, <<leafC, inter, root>>, <<inter>>}
L(id, iss, signer, revoked, expired) == [id |-> id, iss |-> iss, signer |-> signer, revoked |-> revoked, expired |-> expired]
MCCrls == {L("r1", "R", "kR", {1}, FALSE), L("r13", "R", "kR", {1, 3}, FALSE), L("r0", "R", "kR", {}, FALSE), L("rx", "R", "kR", {1}, TRUE),
           L("f2", "R", "kF", {2}, FALSE), L("i1", "I", "kI", {1}, FALSE)}
=============================================================================
