SPECIFICATION DOnly
CONSTANTS B = 64
 LB = 8
 MaxMsg = 200
 Chunks <- Chunks64
INVARIANTS NeverSpills
CHECK_DEADLOCK FALSE
