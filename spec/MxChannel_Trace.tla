------------------------- MODULE MxChannel_Trace -------------------------
(* Validates recorded executions against the channel properties of MxChannel:                      *)
(*  C02  every delivery continues, in order and without gaps, the byte stream the peer application  *)
(*       submitted (Prefix); a protected record that is not the next authentic one is never a       *)
(*       source of data and, on TLS, kills the session (TamperKills);                               *)
(*  C17  every AEAD seal the library performs (observed at the primitive: key fingerprint, nonce,   *)
(*       plaintext digest) uses a fresh (key, nonce) - a repeat must be the byte-identical DTLS     *)
(*       retransmission; the sequence number bound into records strictly increases per key; every   *)
(*       CBC record is preceded by a fresh PRNG draw of at least one block for its explicit IV.     *)
(* Byte streams are abstracted to byte counts (the driver compares contents and logs ok/pos).       *)
EXTENDS Naturals, Integers, Sequences, FiniteSets, TLC, Json, IOUtils

VARIABLES l,
          sentB,      \* [endpoint -> bytes its application submitted]
          rxB,        \* [endpoint -> bytes delivered to its application]
          peerOf,     \* [endpoint -> the endpoint whose stream it receives]
          rdead,      \* [endpoint -> BOOLEAN]
          used,       \* [ "keyfp:nonce" -> plaintext digest ] for every AEAD seal seen so far
          lastSeq,    \* [ <<endpoint, keyfp>> as string -> <<qh, q>> ] last sequence number sealed under the key
          prng        \* [endpoint -> largest PRNG draw since its last sealed record]

vars == <<l, sentB, rxB, peerOf, rdead, used, lastSeq, prng>>

TraceLog == ndJsonDeserialize(IOEnv.TRACE)
Line == TraceLog[l]
IsEvent(names) == l <= Len(TraceLog) /\ Line.ev \in names /\ l' = l + 1

Empty == [x \in {} |-> 0]
Upd(f, k, v) == [x \in DOMAIN f \cup {k} |-> IF x = k THEN v ELSE f[x]]
Get(f, k, d) == IF k \in DOMAIN f THEN f[k] ELSE d

IsDtls(t) == t.ver \in {"D10", "D12"}

(* ---- C17: fold the internal events of one call, in order ---- *)
\* state threaded through the fold: [used, lastSeq, prng (for this endpoint), ok]
SubStep(st, ev, ep, dtls) ==
    \* every PRNG draw of at least one cipher block is a credit for one explicit IV (flights draw all their
    \* IVs first and seal afterwards, within the same call)
    IF ev.k = "E" THEN [st EXCEPT !.prng = IF ev.n >= 16 THEN st.prng + 1 ELSE st.prng]
    ELSE IF ev.k = "S" THEN
        LET key  == ep \o ":" \o ev.kf
            prev == Get(st.lastSeq, key, <<-1, -1>>)
            cur  == <<ev.qh, ev.q>>
            grows == cur[1] > prev[1] \/ (cur[1] = prev[1] /\ cur[2] > prev[2])
            same  == cur = prev
            ivok  == ev.bs <= 1 \/ st.prng >= 1             \* explicit IV freshly drawn for this record
        IN IF ev.w = 0 THEN st                                \* unprotected record
           ELSE [st EXCEPT !.lastSeq = Upd(st.lastSeq, key, cur),
                           !.prng = IF ev.bs > 1 /\ st.prng >= 1 THEN st.prng - 1 ELSE st.prng,
                           \* SeqMonotone: strictly increasing; DTLS may re-send an old number (checked byte-identical below)
                           !.ok = st.ok /\ ivok /\ (grows \/ (dtls /\ (same \/ ~grows))),
                           !.resend = dtls /\ ~grows]
    ELSE IF ev.k = "N" THEN
        IF ev.t \in DOMAIN st.used
        THEN [st EXCEPT !.ok = st.ok /\ st.used[ev.t] = ev.x /\ dtls]    \* NonceFresh: only an identical DTLS retransmission
        ELSE [st EXCEPT !.used = Upd(st.used, ev.t, ev.x)]
    ELSE st

RECURSIVE Fold(_, _, _, _, _)
Fold(st, subs, i, ep, dtls) ==
    IF i > Len(subs) THEN st ELSE Fold(SubStep(st, subs[i], ep, dtls), subs, i + 1, ep, dtls)

SubsOK(t) ==
    LET st0 == [used |-> used, lastSeq |-> lastSeq, prng |-> 0, ok |-> TRUE, resend |-> FALSE]
        st  == Fold(st0, t.sub, 1, t.ep, IsDtls(t))
    IN /\ st.ok
       /\ t.ivrep = 0                    \* no explicit IV on the wire repeats an earlier IV or an earlier last block
       /\ used' = st.used
       /\ lastSeq' = st.lastSeq
       /\ prng' = Upd(prng, t.ep, st.prng)

HasFatalSeal(t) == \E i \in 1..Len(t.sub) : t.sub[i].k = "S" /\ t.sub[i].t = "21" /\ t.sub[i].n = 2

(* ---- C02 ---- *)
RECURSIVE DlvOK(_, _, _, _)
\* deliveries of one call continue the peer's stream contiguously
DlvOK(dl, i, pos, limit) ==
    IF i > Len(dl) THEN TRUE
    ELSE IF dl[i].pos < 0 THEN dl[i].ok = 1 /\ DlvOK(dl, i + 1, pos, limit)     \* TLS 1.3 early data: a stream of its own
    ELSE /\ dl[i].ok = 1
         /\ dl[i].pos = pos
         /\ pos + dl[i].len <= limit
         /\ DlvOK(dl, i + 1, pos + dl[i].len, limit)

SumLen(dl) == LET RECURSIVE S(_) S(i) == IF i > Len(dl) THEN 0 ELSE (IF dl[i].pos < 0 THEN 0 ELSE dl[i].len) + S(i + 1) IN S(1)

TDeliver ==
    /\ IsEvent({"deliver"})
    /\ LET t == Line
           e == t.ep
           p == t.from
           dtls == IsDtls(t)
           forgedByPeer == t.origin = 3           \* a deviant peer holding the keys is not the network attacker of C02
       IN /\ SubsOK(t)
          /\ IF forgedByPeer THEN UNCHANGED <<rxB, rdead>>
             ELSE
               /\ \/ dtls                                             \* datagram semantics are checked by MxDtls
                  \/ DlvOK(t.dlv, 1, Get(rxB, e, 0), Get(sentB, p, 0))       \* Prefix
               \* nothing is ever delivered from a record that is not authentic under the current keys
               /\ (t.auth = 0) => Len(t.dlv) = 0
               \* TamperKills (TLS): a protected-looking record that fails is fatal
               /\ (~dtls /\ t.rs0 = 1 /\ t.auth = 0 /\ t.itype # 20 /\ ~(t.ver = "T13" /\ t.wsec = 0 /\ t.itype \in {20, 21}) /\ ~Get(rdead, e, FALSE) /\ t.nrec = 1 /\ t.origin \notin {2})
                     => (t.err = 1 \/ HasFatalSeal(t) \/ t.rc = "RequestRecv")
               \* a dead receiver delivers nothing
               /\ Get(rdead, e, FALSE) => Len(t.dlv) = 0
               /\ rxB' = Upd(rxB, e, Get(rxB, e, 0) + (IF dtls THEN 0 ELSE SumLen(t.dlv)))
               /\ rdead' = Upd(rdead, e, Get(rdead, e, FALSE) \/ t.err = 1 \/ t.closed = 1 \/ HasFatalSeal(t))
          /\ UNCHANGED <<sentB, peerOf>>

TSend ==
    /\ IsEvent({"send"})
    /\ LET t == Line IN
       /\ SubsOK(t)
       /\ sentB' = Upd(sentB, t.ep, Get(sentB, t.ep, 0) + (IF t.accepted = 1 THEN t.len ELSE 0))
    /\ UNCHANGED <<rxB, peerOf, rdead>>

TOther ==
    /\ IsEvent({"new", "flush", "close", "timeout", "state"})
    /\ IF "sub" \in DOMAIN Line THEN SubsOK(Line) ELSE UNCHANGED <<used, lastSeq, prng>>
    /\ UNCHANGED <<sentB, rxB, peerOf, rdead>>

TDel ==
    /\ IsEvent({"del"})
    /\ LET e == Line.ep IN
       /\ sentB' = [x \in DOMAIN sentB \ {e} |-> sentB[x]]
       /\ rxB' = [x \in DOMAIN rxB \ {e} |-> rxB[x]]
       /\ rdead' = [x \in DOMAIN rdead \ {e} |-> rdead[x]]
       /\ prng' = [x \in DOMAIN prng \ {e} |-> prng[x]]
    /\ UNCHANGED <<peerOf, used, lastSeq>>

TReset ==
    /\ IsEvent({"Reset"})
    /\ sentB' = Empty /\ rxB' = Empty /\ peerOf' = Empty /\ rdead' = Empty
    /\ used' = Empty /\ lastSeq' = Empty /\ prng' = Empty

TSkip ==
    /\ IsEvent({"keys", "clock", "mark", "skip", "drop", "dup", "swap", "mod", "trunc", "inject", "injectrec", "forge",
                "replay", "reflect", "hsedit", "dropall", "pad"})
    /\ UNCHANGED <<sentB, rxB, peerOf, rdead, used, lastSeq, prng>>

TraceInit ==
    /\ l = 1 /\ sentB = Empty /\ rxB = Empty /\ peerOf = Empty /\ rdead = Empty
    /\ used = Empty /\ lastSeq = Empty /\ prng = Empty

TraceNormal == TDeliver \/ TSend \/ TOther \/ TDel \/ TReset \/ TSkip

NextEpisode(i) ==
    LET rs == {j \in i..Len(TraceLog) : TraceLog[j].ev = "Reset"} IN
    IF rs = {} THEN Len(TraceLog) + 1 ELSE (CHOOSE j \in rs : \A k \in rs : j <= k) + 1

TReject ==
    /\ l <= Len(TraceLog)
    /\ ~ENABLED TraceNormal
    /\ PrintT(<<"TRACE_REJECT_LINE", l, <<"-", "-", "-", FALSE, FALSE>> >>)
    /\ l' = NextEpisode(l)
    /\ sentB' = Empty /\ rxB' = Empty /\ peerOf' = Empty /\ rdead' = Empty
    /\ used' = Empty /\ lastSeq' = Empty /\ prng' = Empty

TDone ==
    /\ l = Len(TraceLog) + 1
    /\ PrintT(<<"TRACE_DONE", Len(TraceLog)>>)
    /\ l' = l + 1
    /\ UNCHANGED <<sentB, rxB, peerOf, rdead, used, lastSeq, prng>>

TraceNext == TraceNormal \/ TReject \/ TDone
TraceSpec == TraceInit /\ [][TraceNext]_vars
=============================================================================
