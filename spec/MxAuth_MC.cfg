SPECIFICATION Spec
INVARIANT InvAuth
INVARIANT InvNoCb
INVARIANT InvTold
INVARIANT InvGood
CHECK_DEADLOCK FALSE
