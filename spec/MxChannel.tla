---------------------------- MODULE MxChannel ----------------------------
(***************************************************************************)
(* One direction of an established connection: the sending application     *)
(* submits messages, the record layer seals them under (key phase, seq),   *)
(* an on-path attacker edits the stream of records (drop, duplicate,       *)
(* reorder, modify, replay, reflect from the other direction, inject),     *)
(* the receiver opens records and hands plaintext to its application.      *)
(*                                                                          *)
(* C02: what is delivered is always an in-order prefix of what was sent,    *)
(*      and a record that is not the next authentic one kills the session.  *)
(* C17: no two different records are sealed under one (key, nonce); the      *)
(*      sequence number bound into a record strictly increases per key.     *)
(* The record acceptance rule is the code's: sslDecode.c (MAC over          *)
(* seq||type||version||length||data; AEAD AAD the same; remSeq incremented   *)
(* only on success), tls13CipherSuite.c (nonce = iv XOR seq).                *)
(***************************************************************************)
EXTENDS Naturals, Sequences, FiniteSets, SequencesExt, TLC

CONSTANTS MaxMsgs,      \* messages the application submits
          MaxEdits,     \* attacker operations
          MaxPhases     \* key phases on the sending side (TLS 1.3 hs -> app, rekey)

VARIABLES sent,        \* Seq of message ids submitted by the sending application
          wire,        \* Seq of records in flight: [key, seq, id, ok] (ok = bytes untouched, sealed by this direction's sender)
          hist,        \* every record the sender ever emitted (what a replaying attacker can draw from)
          wkey, wseq,  \* sender's key phase and next sequence number
          rkey, rseq,  \* receiver's key phase and next expected sequence number
          delivered,   \* Seq of message ids handed to the receiving application
          dead,        \* receiver has sent a fatal alert
          sealed,      \* ghost: set of <<key, seq>> ever used for sealing, with the id sealed
          edits

vars == <<sent, wire, hist, wkey, wseq, rkey, rseq, delivered, dead, sealed, edits>>

Rec(k, s, i, ok) == [key |-> k, seq |-> s, id |-> i, ok |-> ok]

Init ==
    /\ sent = <<>> /\ wire = <<>> /\ hist = <<>>
    /\ wkey = 1 /\ wseq = 0 /\ rkey = 1 /\ rseq = 0
    /\ delivered = <<>> /\ dead = FALSE /\ sealed = {} /\ edits = 0

(* sender *)
Send ==
    /\ Len(sent) < MaxMsgs /\ ~dead
    /\ LET id == Len(sent) + 1
           r  == Rec(wkey, wseq, id, TRUE)
       IN /\ sent' = Append(sent, id)
          /\ wire' = Append(wire, r)
          /\ hist' = Append(hist, r)
          /\ sealed' = sealed \cup {<<wkey, wseq, id>>}
          /\ wseq' = wseq + 1
    /\ UNCHANGED <<wkey, rkey, rseq, delivered, dead, edits>>

\* Key change (TLS 1.3: handshake keys -> application keys).  It is signalled IN BAND: the sender emits a
\* control record (its Finished) sealed under the OLD key and sequence number, then continues under the new
\* key from sequence 0; the receiver switches only when it has ACCEPTED that record.  (MatrixSSL implements
\* no KeyUpdate, so there is one such change per direction.)
KeyChange ==
    /\ wkey < MaxPhases /\ ~dead
    /\ LET r == Rec(wkey, wseq, 0, TRUE) IN
       /\ wire' = Append(wire, r)
       /\ hist' = Append(hist, r)
       /\ sealed' = sealed \cup {<<wkey, wseq, 0>>}
    /\ wkey' = wkey + 1 /\ wseq' = 0
    /\ UNCHANGED <<sent, rkey, rseq, delivered, dead, edits>>

(* attacker: all edits of the in-flight stream *)
Edit(w2) == /\ edits < MaxEdits /\ wire' = w2 /\ edits' = edits + 1
            /\ UNCHANGED <<sent, hist, wkey, wseq, rkey, rseq, delivered, dead, sealed>>

Drop   == \E i \in 1..Len(wire) : Edit(RemoveAt(wire, i))
Dup    == \E i \in 1..Len(wire) : Edit(InsertAt(wire, i, wire[i]))
Swap   == \E i \in 1..(Len(wire) - 1) : Edit([wire EXCEPT ![i] = wire[i + 1], ![i + 1] = wire[i]])
Modify == \E i \in 1..Len(wire) : Edit([wire EXCEPT ![i].ok = FALSE])      \* any bit of header, nonce, body, tag, padding
Replay == \E h \in 1..Len(hist) : Edit(<<hist[h]>> \o wire)
Inject == Edit(<<Rec(0, 0, 99, FALSE)>> \o wire)       \* bytes of the attacker's own making (or the other direction's records: foreign key)

(* receiver: opens the record at the head of the stream *)
Accepts(r) == r.ok /\ r.key = rkey /\ r.seq = rseq

Open ==
    /\ wire # <<>> /\ ~dead
    /\ LET r == Head(wire) IN
       IF Accepts(r)
       THEN IF r.id = 0
            THEN /\ rkey' = rkey + 1 /\ rseq' = 0
                 /\ UNCHANGED <<delivered, dead>>
            ELSE /\ delivered' = Append(delivered, r.id)
                 /\ rseq' = rseq + 1
                 /\ UNCHANGED <<dead, rkey>>
       ELSE /\ dead' = TRUE                 \* bad_record_mac, nothing from this record is delivered
            /\ UNCHANGED <<delivered, rseq, rkey>>
    /\ wire' = Tail(wire)
    /\ UNCHANGED <<sent, hist, wkey, wseq, sealed, edits>>

\* a dead receiver consumes and ignores
Ignore ==
    /\ wire # <<>> /\ dead
    /\ wire' = Tail(wire)
    /\ UNCHANGED <<sent, hist, wkey, wseq, rkey, rseq, delivered, dead, sealed, edits>>

Next == Send \/ KeyChange \/ Drop \/ Dup \/ Swap \/ Modify \/ Replay \/ Inject \/ Open \/ Ignore

Spec == Init /\ [][Next]_vars

-----------------------------------------------------------------------------
\* C02
Prefix == IsPrefix(delivered, sent)

\* C02: a record that is not the next authentic one is never the source of delivered data
TamperKills == [][(wire # <<>> /\ ~dead /\ ~Accepts(Head(wire)) /\ wire' = Tail(wire) /\ edits' = edits) => (dead' /\ delivered' = delivered)]_vars

\* C17: one (key, nonce = f(seq)) never seals two different records
NonceFresh == \A a, b \in sealed : (a[1] = b[1] /\ a[2] = b[2]) => a[3] = b[3]

\* C17: within a key phase the sequence numbers used so far are exactly 0..wseq-1 (strictly increasing, no gaps)
SeqMonotone == \A a \in sealed : a[1] = wkey => a[2] < wseq
=============================================================================
