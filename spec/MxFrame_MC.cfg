SPECIFICATION Spec
CONSTANTS
  Bodies <- BodiesA
  HdrLen = 2
INVARIANT ChunkIndependent
CHECK_DEADLOCK FALSE
