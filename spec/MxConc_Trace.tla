--------------------------- MODULE MxConc_Trace ---------------------------
(* C20 on the implementation: the merged log of harness/mxthreads (N threads against one shared key set and the    *)
(* global tables), ordered by the stamps of a global atomic counter.  Checked while walking the log:               *)
(*   lock discipline   a mutex of the library is acquired only when free, released by its holder, and the           *)
(*                     nesting of mutexes never forms a cycle (MxConc: one nesting order, hence no deadlock)        *)
(*   outcomes          every connection completes with its data intact and both ends agreeing on "resumed";        *)
(*                     a full handshake is not resumed; a session-id resumption is; a ticket / TLS 1.3 PSK         *)
(*                     resumption obeys MxConc!Serializable: resumed if its key was surely in the list during     *)
(*                     the whole operation, not resumed if it was surely out of it                                  *)
(*   callback window   with a session ticket callback registered: a ticket key found for a resumption stays in the   *)
(*                     list until that resumption has used it (DelRespectsWindow, FoundMeansResumed of MxConc)      *)
(* Data races themselves are the business of the ThreadSanitizer build that produced the log.                       *)
EXTENDS Naturals, Integers, Sequences, FiniteSets, Json, IOUtils, TLC

VARIABLES l, held, order
TraceLog == ndJsonDeserialize(IOEnv.TRACE)
Line == TraceLog[l]
InitKeys == {0}

KeyOps == {TraceLog[i] : i \in {j \in 1..Len(TraceLog) : TraceLog[j].op \in {"keyadd", "keydel"} /\ TraceLog[j].rcn >= 0}}
SurelyPresent(k, a, b) ==
    /\ (k \in InitKeys \/ \E x \in KeyOps : x.op = "keyadd" /\ x.k = k /\ x.t1 < a)
    /\ ~\E d \in KeyOps : d.op = "keydel" /\ d.k = k /\ d.t0 < b
SurelyAbsent(k, a, b) ==
    \/ (k \notin InitKeys /\ ~\E x \in KeyOps : x.op = "keyadd" /\ x.k = k /\ x.t0 < b)
    \/ \E d \in KeyOps : /\ d.op = "keydel" /\ d.k = k /\ d.t1 < a
                         /\ \A x \in KeyOps : (x.op = "keyadd" /\ x.k = k) => x.t1 < d.t0
                         /\ (k \in InitKeys => TRUE)

\* the callback windows of the run (op "cb": a session ticket callback invocation, t0 / t1 stamped inside the callback)
CbWins == {TraceLog[i] : i \in {j \in 1..Len(TraceLog) : TraceLog[j].op = "cb"}}
\* MxConc!DelRespectsWindow: a deletion lying entirely inside the callback window of a resumption that had found the key
\* must have been refused (the key is pinned from before the callback until after its use)
DelRespectsWindow(d) == d.rcn >= 0 => ~\E r \in CbWins : r.k = d.k /\ r.found = 1 /\ r.t0 < d.t0 /\ d.t1 < r.t1

HeldBy(th) == {lk \in DOMAIN held : held[lk] = th}
Put(f, k, v) == [x \in DOMAIN f \cup {k} |-> IF x = k THEN v ELSE f[x]]

\* order: pairs <<outer, inner>> of mutexes seen nested.  Nesting is fine as long as the pairs never form a cycle
\* (MxConc: one order only, hence no deadlock).
Comp(R) == R \cup {p \in {<<x[1], y[2]>> : x \in R, y \in R} : \E x \in R, y \in R : x[2] = y[1] /\ p = <<x[1], y[2]>>}
Closure(R) == Comp(Comp(Comp(R)))
Acyclic(R) == \A p \in Closure(R) : p[1] # p[2]
TLock == /\ l <= Len(TraceLog) /\ Line.op = "lock"
         /\ (IF Line.lk \in DOMAIN held THEN held[Line.lk] = -1 ELSE TRUE)   \* mutual exclusion
         /\ order' = order \cup {<<h, Line.lk>> : h \in HeldBy(Line.th)}
         /\ Acyclic(order')                                                 \* consistent nesting order
         /\ held' = Put(held, Line.lk, Line.th) /\ l' = l + 1
TUnlock == /\ l <= Len(TraceLog) /\ Line.op = "unlock"
           /\ (IF Line.lk \in DOMAIN held THEN held[Line.lk] = Line.th ELSE FALSE)
           /\ held' = Put(held, Line.lk, -1) /\ l' = l + 1 /\ UNCHANGED order
TConn == /\ l <= Len(TraceLog) /\ Line.op = "conn"
         /\ LET t == Line IN
            /\ t.rcn >= 0 /\ t.hc = 1 /\ t.dataok = 1 /\ t.resc = t.ress
            /\ t.want = "full" => t.ress = 0
            /\ (t.want = "id" /\ t.hadid = 1) => t.ress = 1        \* (a session the full cache could not register has no id)
            /\ (t.want = "id" /\ t.hadid = 0) => t.ress = 0
            /\ t.want = "idems" => t.ress = 0               \* RFC 7627 5.3: a session made without extended master secret is not resumed when it is offered with it
            /\ (t.want \in {"ticket", "psk"} /\ t.tk0 >= 0) =>
                   /\ SurelyPresent(t.tk0, t.t0, t.t1) => t.ress = 1
                   /\ SurelyAbsent(t.tk0, t.t0, t.t1) => t.ress = 0
            /\ (t.want = "ticket" /\ t.cbf = 1) => t.ress = 1      \* MxConc!FoundMeansResumed: the callback accepted a key the library had found
         /\ UNCHANGED <<held, order>> /\ l' = l + 1
TKey == /\ l <= Len(TraceLog) /\ Line.op \in {"keyadd", "keydel", "shut", "cb"}
        /\ Line.op = "keydel" => DelRespectsWindow(Line)
        /\ UNCHANGED <<held, order>> /\ l' = l + 1

TraceNormal == TLock \/ TUnlock \/ TConn \/ TKey
TReject == /\ l <= Len(TraceLog) /\ ~ENABLED TraceNormal
           /\ PrintT(<<"TRACE_REJECT_LINE", l, <<"-", "-", "-", FALSE, FALSE>> >>) /\ l' = l + 1 /\ UNCHANGED <<held, order>>
TDone == /\ l = Len(TraceLog) + 1 /\ PrintT(<<"TRACE_DONE", Len(TraceLog)>>) /\ PrintT(<<"LOCK_ORDER", order>>) /\ l' = l + 1 /\ UNCHANGED <<held, order>>
TraceSpec == l = 1 /\ held = [x \in {} |-> -1] /\ order = {} /\ [][TraceNormal \/ TReject \/ TDone]_<<l, held, order>>
=============================================================================
