SPECIFICATION Spec
CONSTANTS
  Threads = {t1, t2, t3}
  Keys = {k1}
  MaxOps = 3
  KeygenOrder <- OrderAsCoded
  PinIsCounter = TRUE
  WithCallback = TRUE
INVARIANT MutualExclusion
INVARIANT NoUseOfDeletedKey
INVARIANT PinCountsHolders
INVARIANT DelRespectsWindow
INVARIANT FoundMeansResumed
CHECK_DEADLOCK FALSE
