------------------------------ MODULE MxSigNeg ------------------------------
(* Signature algorithms - the fourth negotiated parameter of C07 - kept apart from the version / suite / group product of   *)
(* MxNegotiate so that both state spaces stay small.  The client offers a set (signature_algorithms), the server has a set   *)
(* it enabled (per-session option), its key can produce a set; the server signs (TLS 1.2: ServerKeyExchange, TLS 1.3:        *)
(* CertificateVerify) with an algorithm that is in all three, and when there is none the handshake fails - it must not fall   *)
(* back to an algorithm only the client listed.  ServerSignsFromClientListOnly = TRUE is the TLS 1.2 code as found            *)
(* (finding F77): SigBothEnabled fails (MxSigNeg_AsFound.cfg, a sensitivity run that must fail).                              *)
(* Bound to the code by MxNegotiate_Trace: the algorithm seen on the wire (skesig / sig13) must be on both configured lists,  *)
(* and with disjoint lists a signing suite does not complete.                                                                 *)
EXTENDS FiniteSets
CONSTANTS SigAlgs, KeyCanSign, ServerSignsFromClientListOnly
VARIABLES csig, ssig, sres
sigvars == <<csig, ssig, sres>>
SigInit == csig \in (SUBSET SigAlgs) \ {{}} /\ ssig \in (SUBSET SigAlgs) \ {{}} /\ sres = [done |-> FALSE, why |-> "start"]
SigHandshake ==
    /\ sres.why = "start"
    /\ LET usable == IF ServerSignsFromClientListOnly THEN csig \cap KeyCanSign ELSE csig \cap ssig \cap KeyCanSign IN
       IF usable = {} THEN sres' = [done |-> FALSE, why |-> "no common signature algorithm"]
       ELSE \E a \in usable : sres' = [done |-> TRUE, why |-> "ok", sig |-> a]
    /\ UNCHANGED <<csig, ssig>>
SigSpec == SigInit /\ [][SigHandshake]_sigvars
SigBothEnabled == sres.done => sres.sig \in csig \cap ssig
SigNoCommonNoHandshake == (csig \cap ssig = {}) => ~sres.done
=============================================================================
