SPECIFICATION Spec
CONSTANTS
  Bodies <- BodiesB
  HdrLen = 2
INVARIANT ChunkIndependent
CHECK_DEADLOCK FALSE
