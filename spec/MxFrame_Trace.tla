--------------------------- MODULE MxFrame_Trace ---------------------------
(* C18 on the implementation: every scenario is run once with everything in flight handed over in one receive     *)
(* call and the output drained in one send (the reference), then again under other partitions of both byte streams *)
(* (fixed piece sizes from 1 byte up, pseudo-random piece sizes, partial sends).  The random source and the clock  *)
(* are pinned, so MxFrame's ChunkIndependent predicts identical behaviour: the final view of each endpoint -       *)
(* handshake result, alerts received, bytes emitted (digest and count over every byte that left the session),     *)
(* plaintext delivered (digest and count) - must equal the reference's.                                            *)
EXTENDS Naturals, Sequences, FiniteSets, Json, IOUtils, TLC

VARIABLES l, cur, ref
TraceLog == ndJsonDeserialize(IOEnv.TRACE)
Line == TraceLog[l]
Put(f, k, v) == [x \in DOMAIN f \cup {k} |-> IF x = k THEN v ELSE f[x]]

View(t) == IF t.hs = "NOSESSION" THEN [hs |-> "NOSESSION"]
           ELSE [hs |-> t.hs, hc |-> t.hc, err |-> t.err, closed |-> t.closed, ver |-> t.ver, suite |-> t.suite, resumed |-> t.resumed,
                 alin |-> t.alin, outd |-> t.outd, outn |-> t.outn, dlvd |-> t.dlvd, dlvn |-> t.dlvn]

TState == /\ l <= Len(TraceLog) /\ Line.ev = "state"
          /\ cur' = Put(cur, Line.ep, View(Line)) /\ UNCHANGED ref /\ l' = l + 1

TReset == /\ l <= Len(TraceLog) /\ Line.ev = "Reset"
          /\ IF "scn" \notin DOMAIN Line THEN UNCHANGED ref
             ELSE IF Line.isref = 1 THEN ref' = Put(ref, Line.scn, cur)
             ELSE /\ Line.scn \in DOMAIN ref
                  /\ cur = ref[Line.scn]                      \* ChunkIndependent
                  /\ UNCHANGED ref
          /\ cur' = [x \in {} |-> 0] /\ l' = l + 1

TOther == /\ l <= Len(TraceLog) /\ Line.ev \notin {"state", "Reset"} /\ UNCHANGED <<cur, ref>> /\ l' = l + 1

TraceNormal == TState \/ TReset \/ TOther
TReject == /\ l <= Len(TraceLog) /\ ~ENABLED TraceNormal
           /\ PrintT(<<"TRACE_REJECT_LINE", l, <<"-", "-", "-", FALSE, FALSE>> >>)
           /\ l' = l + 1 /\ cur' = [x \in {} |-> 0] /\ UNCHANGED ref
TDone == /\ l = Len(TraceLog) + 1 /\ PrintT(<<"TRACE_DONE", Len(TraceLog)>>) /\ l' = l + 1 /\ UNCHANGED <<cur, ref>>
TraceSpec == l = 1 /\ cur = [x \in {} |-> 0] /\ ref = [x \in {} |-> 0] /\ [][TraceNormal \/ TReject \/ TDone]_<<l, cur, ref>>
=============================================================================
