------------------------------ MODULE MxStream ------------------------------
(* The call-pattern side of MatrixSSL's symmetric primitives (property C12): what the streaming interfaces  *)
(* carry from one call to the next, transcribed from the code, and the decision an AEAD open has to take.  *)
(*                                                                                                          *)
(*  1. Merkle-Damgard digests (MD5, SHA-1, SHA-256: 64-byte blocks, 8-byte length; SHA-384/512: 128-byte   *)
(*     blocks, 16-byte length).  Update is psSha256Update's loop - whole blocks straight from the input    *)
(*     when the buffer is empty, otherwise copy min(len, B - curlen) into the buffer and compress when it  *)
(*     is full; Final is the padding code (0x80, zeros, spill into a second block when fewer than LB bytes *)
(*     are left, length field).  Message bytes are represented by their POSITION in the message, so that   *)
(*     the ghost log `blocks` says exactly which message bytes, in which order, reached the compression    *)
(*     function.  The invariants state the mathematical definition: the blocks are the consecutive B-byte  *)
(*     slices of  message || 0x80 || 0^k || bitlength  with k minimal - whatever the chunking.             *)
(*  2. AES-GCM streaming: keystream offset (OutputBufferCount), block counter, the lazily flushed 128-byte *)
(*     GHASH input buffer (InputBufferCount), the AAD / ciphertext bit counters.  Invariants: every        *)
(*     keystream byte is used exactly once and in order; GHASH receives  AAD || 0-pad || ciphertext.        *)
(*  3. AEAD open: accept iff nothing was modified; plaintext only on accept.                                *)
(*  4. HKDF-Expand: ceil(L / HashLen) blocks, refused iff more than 255.                                    *)
(* Bound to the code by MxStream_Trace (every call of the real functions logs the projection of the real   *)
(* context: curlen, bit counter, buffer counts) and an independent implementation judges every output.     *)
EXTENDS Integers, Sequences, FiniteSets

CONSTANTS B,        \* block size in bytes (model checking)
          LB,       \* bytes of the length field in the padding
          MaxMsg,   \* bound on the message length explored
          Chunks    \* the chunk lengths Update is called with

PAD80 == -1         \* the 0x80 byte
ZERO  == -2         \* a padding zero
LENB  == -3         \* one byte of the length field

Min(a, b) == IF a < b THEN a ELSE b
Ident(from, n) == [k \in 1..n |-> from + k - 1]             \* message bytes from, from+1, ...
Rep(x, n) == [k \in 1..n |-> x]
RECURSIVE Flatten(_)
Flatten(ss) == IF ss = <<>> THEN <<>> ELSE Head(ss) \o Flatten(Tail(ss))

(* ---------------------------------------------------------------- digests: the code, transcribed *)
RECURSIVE Feed(_, _, _, _, _, _)
\* psXxxUpdate(ctx, in, len): bb = block size; b = ctx->buf[0..curlen); bt = ctx->length; bl = ghost; pos = position of in[0]
Feed(bb, b, bt, bl, pos, len) ==
    IF len = 0 THEN [buf |-> b, bits |-> bt, blocks |-> bl]
    ELSE IF Len(b) = 0 /\ len >= bb
         THEN Feed(bb, <<>>, bt + 8 * bb, Append(bl, Ident(pos, bb)), pos + bb, len - bb)       \* compress straight from the input
         ELSE LET n == Min(len, bb - Len(b))
                  b2 == b \o Ident(pos, n)
              IN IF Len(b2) = bb THEN Feed(bb, <<>>, bt + 8 * bb, Append(bl, b2), pos + n, len - n)
                 ELSE Feed(bb, b2, bt, bl, pos + n, len - n)

\* psXxxFinal: returns the ghost log with the padding blocks and the value written into the length field
Fin(bb, lb, b, bt, bl) ==
    LET bt2 == bt + 8 * Len(b)
        b1 == Append(b, PAD80)
        spill == Len(b1) > bb - lb
        bl1 == IF spill THEN Append(bl, b1 \o Rep(ZERO, bb - Len(b1))) ELSE bl
        b2 == IF spill THEN <<>> ELSE b1
        b3 == b2 \o Rep(ZERO, bb - lb - Len(b2)) \o Rep(LENB, lb)
    IN [blocks |-> Append(bl1, b3), lenv |-> bt2]

\* the definition: message || 0x80 || 0^k || length, k >= 0 minimal such that the total is a multiple of the block size
PadZeros(bb, lb, n) == (bb - ((n + 1 + lb) % bb)) % bb
Padded(bb, lb, n) == Ident(0, n) \o <<PAD80>> \o Rep(ZERO, PadZeros(bb, lb, n)) \o Rep(LENB, lb)

VARIABLES phase, buf, bits, fed, blocks, lenv
dvars == <<phase, buf, bits, fed, blocks, lenv>>

DInit == phase = "run" /\ buf = <<>> /\ bits = 0 /\ fed = 0 /\ blocks = <<>> /\ lenv = -1
DUpdate(n) ==
    /\ phase = "run" /\ fed + n <= MaxMsg
    /\ LET r == Feed(B, buf, bits, blocks, fed, n) IN buf' = r.buf /\ bits' = r.bits /\ blocks' = r.blocks
    /\ fed' = fed + n /\ UNCHANGED <<phase, lenv>>
DFinal ==
    /\ phase = "run"
    /\ LET r == Fin(B, LB, buf, bits, blocks) IN blocks' = r.blocks /\ lenv' = r.lenv
    /\ phase' = "done" /\ buf' = <<>> /\ UNCHANGED <<bits, fed>>
DNext == (\E n \in Chunks : DUpdate(n)) \/ DFinal
DSpec == DInit /\ [][DNext]_dvars

\* while running: the blocks compressed so far followed by the buffer are the message so far, in order, each byte once
TailInv == phase = "run" => /\ Flatten(blocks) \o buf = Ident(0, fed)
                            /\ Len(buf) < B /\ Len(buf) = fed % B
                            /\ \A i \in 1..Len(blocks) : Len(blocks[i]) = B
                            /\ bits = 8 * B * Len(blocks)
\* after Final: exactly the padded message, cut into blocks, and the length field holds the message length in bits
PadInv == phase = "done" => /\ Flatten(blocks) = Padded(B, LB, fed)
                            /\ \A i \in 1..Len(blocks) : Len(blocks[i]) = B
                            /\ lenv = 8 * fed
\* vacuity guards (must be violated): both padding cases and the direct path are reached
NeverSpills == ~(phase = "done" /\ Len(blocks) * B >= fed + B + 1)
NeverDone == phase # "done"

(* ---------------------------------------------------------------- AES-GCM streaming state *)
GS == 128                                    \* FLFBLOCKSIZE: size of the GHASH input buffer
Blocker(c, n) == IF n = 0 THEN c ELSE IF c + n <= GS THEN c + n ELSE ((c + n - 1) % GS) + 1      \* flf_blocker: flush lazily
PadUp16(c) == ((c + 15) \div 16) * 16
GcmReady(aad) == [ibc |-> PadUp16(Blocker(0, aad)), obc |-> 0, abits |-> 8 * aad, cbits |-> 0, ctr |-> 0, total |-> 0, gfed |-> PadUp16(aad)]
\* psAesEncryptGCMx over n bytes: a new keystream block whenever the current one is used up
GcmCrypt(g, n) ==
    LET need == IF n > g.obc THEN ((n - g.obc) + 15) \div 16 ELSE 0
        obc2 == IF n <= g.obc THEN g.obc - n ELSE (16 - ((n - g.obc) % 16)) % 16
    IN [ibc |-> Blocker(g.ibc, n), obc |-> obc2, abits |-> g.abits, cbits |-> g.cbits + 8 * n, ctr |-> g.ctr + need,
        total |-> g.total + n, gfed |-> g.gfed + n]
GcmInv(g) == /\ 16 * g.ctr - g.obc = g.total                \* keystream bytes used once each, in order, none skipped
             /\ g.obc \in 0..15 /\ g.ibc \in 0..GS
             /\ (g.gfed - g.ibc) % GS = 0 /\ g.gfed >= g.ibc \* everything not in the buffer was hashed in whole buffers
             /\ g.cbits = 8 * g.total

VARIABLES gst, gphase
gvars == <<gst, gphase>>
GInit == gphase = "idle" /\ gst = GcmReady(0)
GReady(a) == gphase = "idle" /\ gst' = GcmReady(a) /\ gphase' = "run"
GCrypt(n) == gphase = "run" /\ gst.total + n <= MaxMsg /\ gst' = GcmCrypt(gst, n) /\ UNCHANGED gphase
GNext == (\E a \in Chunks : GReady(a)) \/ (\E n \in Chunks : GCrypt(n))
GSpec == GInit /\ [][GNext]_gvars
GInvariant == gphase = "run" => GcmInv(gst)

(* ---------------------------------------------------------------- decisions *)
TamperClasses == {"none", "ct", "tag", "nonce", "aad", "key"}
OpenVerdict(tamper) == tamper = "none"                         \* accept iff nothing was modified
HkdfBlocks(out, h) == (out + h - 1) \div h
HkdfRefused(out, h) == HkdfBlocks(out, h) > 255
HkdfInfoLimit == 80                                            \* HKDF_MAX_INFO_LEN: longer info is refused (PS_LIMIT_FAIL), never mis-derived
=============================================================================
