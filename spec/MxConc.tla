------------------------------- MODULE MxConc -------------------------------
(***************************************************************************)
(* Sessions driven concurrently from several threads against one shared    *)
(* key set and the global tables (C20).  Each operation of a thread is a    *)
(* Begin step, a critical section entered by taking the mutex that guards   *)
(* the data it touches (g_sessionTableLock, g_sessTicketLock, the key       *)
(* set's ECDHE cache lock, the PRNG lock) and an End step.  Mutexes nest in *)
(* one order only: the ECDHE cache lock is held while the PRNG lock is      *)
(* taken for the new ephemeral key (matrixsslKeys.c 1111-1163).  Modelled:  *)
(* the session ticket key list under rotation, resumptions that need a key  *)
(* of that list, and ephemeral key generation.                              *)
(*                                                                         *)
(* The implementation is judged from the outside, by the stamps of a global *)
(* counter taken at Begin and End.  Serializable says what those stamps     *)
(* allow one to conclude: a resumption attempt whose key was in the list    *)
(* during the whole operation succeeds, one whose key was absent during the *)
(* whole operation does not; in between both outcomes are explained by some *)
(* order.  TLC checks that this rule follows from the locking discipline    *)
(* (so the trace checker MxConc_Trace, which applies the same rule to real  *)
(* executions, raises no false alarm), together with mutual exclusion and   *)
(* freedom from deadlock.                                                   *)
(***************************************************************************)
EXTENDS Naturals, Sequences, FiniteSets, TLC

CONSTANTS Threads, Keys, MaxOps, KeygenOrder

VARIABLES keylist,   \* set of ticket keys currently loaded
          owner,     \* [lock -> thread holding it or "none"]
          pc,        \* [thread -> "idle" | "begun" | "locked" | "done-cs"]
          cur,       \* [thread -> current operation record]
          clock,     \* global stamp counter
          hist,      \* completed operations with their stamps and outcomes
          nops, init0
vars == <<keylist, owner, pc, cur, clock, hist, nops, init0>>
Locks == {"tickets", "cache", "prng"}
\* the mutexes an operation takes, outermost first
LockSeq(op) == CASE op.kind = "keygen" -> KeygenOrder [] op.kind = "rand" -> <<"prng">> [] OTHER -> <<"tickets">>
NoOp == [kind |-> "none"]

Init == /\ keylist \in SUBSET Keys /\ owner = [l \in Locks |-> "none"]
        /\ pc = [t \in Threads |-> "idle"] /\ cur = [t \in Threads |-> NoOp]
        /\ clock = 0 /\ hist = {} /\ nops = 0 /\ init0 = keylist

Begin(t, op) ==
    /\ pc[t] = "idle" /\ nops < MaxOps
    /\ cur' = [cur EXCEPT ![t] = op @@ [t0 |-> clock, out |-> "?", nheld |-> 0]]
    /\ pc' = [pc EXCEPT ![t] = "begun"] /\ clock' = clock + 1 /\ nops' = nops + 1
    /\ UNCHANGED <<keylist, owner, hist, init0>>

Acquire(t) ==
    /\ pc[t] = "begun"
    /\ LET sq == LockSeq(cur[t])
           lk == sq[cur[t].nheld + 1] IN
       /\ owner[lk] = "none"
       /\ owner' = [owner EXCEPT ![lk] = t]
       /\ cur' = [cur EXCEPT ![t].nheld = @ + 1]
       /\ pc' = [pc EXCEPT ![t] = IF cur[t].nheld + 1 = Len(sq) THEN "locked" ELSE "begun"]
    /\ UNCHANGED <<keylist, clock, hist, nops, init0>>

\* the critical section: the linearization point of the operation
Critical(t) ==
    /\ pc[t] = "locked"
    /\ LET op == cur[t] IN
       CASE op.kind \in {"keygen", "rand"} -> UNCHANGED keylist /\ cur' = [cur EXCEPT ![t].out = "ok"]
         [] op.kind = "add" -> keylist' = keylist \cup {op.k} /\ cur' = [cur EXCEPT ![t].out = "ok"]
         [] op.kind = "del" -> keylist' = keylist \ {op.k} /\ cur' = [cur EXCEPT ![t].out = "ok"]
         [] op.kind = "resume" -> /\ cur' = [cur EXCEPT ![t].out = IF op.k \in keylist THEN "resumed" ELSE "full"]
                                  /\ UNCHANGED keylist
    /\ owner' = [lk \in Locks |-> IF owner[lk] = t THEN "none" ELSE owner[lk]] /\ pc' = [pc EXCEPT ![t] = "done-cs"]
    /\ UNCHANGED <<clock, hist, nops, init0>>

End(t) ==
    /\ pc[t] = "done-cs"
    /\ hist' = hist \cup {cur[t] @@ [t1 |-> clock, th |-> t]}
    /\ clock' = clock + 1 /\ pc' = [pc EXCEPT ![t] = "idle"] /\ cur' = [cur EXCEPT ![t] = NoOp]
    /\ UNCHANGED <<keylist, owner, nops, init0>>

Ops == [kind : {"add", "del", "resume"}, k : Keys] \cup {[kind |-> "keygen", k |-> CHOOSE k \in Keys : TRUE], [kind |-> "rand", k |-> CHOOSE k \in Keys : TRUE]}
Next == \E t \in Threads : (\E op \in Ops : Begin(t, op)) \/ Acquire(t) \/ Critical(t) \/ End(t)
Spec == Init /\ [][Next]_vars /\ \A t \in Threads : WF_vars(Acquire(t) \/ Critical(t) \/ End(t))

MutualExclusion == \A t1, t2 \in Threads : (t1 # t2 /\ pc[t1] = "locked" /\ pc[t2] = "locked") => LockSeq(cur[t1])[Len(LockSeq(cur[t1]))] # LockSeq(cur[t2])[Len(LockSeq(cur[t2]))]
\* every begun operation ends (no deadlock, no starvation under weak fairness)
Progress == \A t \in Threads : pc[t] = "begun" ~> pc[t] = "idle"

(* What the stamps prove about the key list during an operation [a, b] (sufficient conditions):  *)
AllOps == hist \cup {cur[t] @@ [t1 |-> 1000000, th |-> t] : t \in {x \in Threads : cur[x].kind # "none"}}
\* k was in the list throughout: it was loaded initially or an add of k had ended before a, and no del of k began before b
SurelyPresent(k, a, b) ==
    /\ (k \in init0 \/ \E x \in AllOps : x.kind = "add" /\ x.k = k /\ x.t1 < a)
    /\ ~\E d \in AllOps : d.kind = "del" /\ d.k = k /\ d.t0 < b
\* k was out of the list throughout: never loaded and no add of k began before b; or a del of k had ended before a
\* and every add of k had ended before that del began
SurelyAbsent(k, a, b) ==
    \/ (k \notin init0 /\ ~\E x \in AllOps : x.kind = "add" /\ x.k = k /\ x.t0 < b)
    \/ \E d \in AllOps : /\ d.kind = "del" /\ d.k = k /\ d.t1 < a
                           /\ \A x \in AllOps : (x.kind = "add" /\ x.k = k) => x.t1 < d.t0
Serializable == \A r \in hist : r.kind = "resume" =>
    /\ SurelyPresent(r.k, r.t0, r.t1) => r.out = "resumed"
    /\ SurelyAbsent(r.k, r.t0, r.t1) => r.out = "full"
\* vacuity guards (must be violated)
NeverBothOutcomes == ~(\E r1, r2 \in hist : r1.kind = "resume" /\ r2.kind = "resume" /\ r1.out = "resumed" /\ r2.out = "full")
=============================================================================
