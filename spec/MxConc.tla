------------------------------- MODULE MxConc -------------------------------
(***************************************************************************)
(* Sessions driven concurrently from several threads against one shared    *)
(* key set and the global tables (C20).  Each operation of a thread is a    *)
(* Begin step, a critical section entered by taking the mutex that guards   *)
(* the data it touches (g_sessionTableLock, g_sessTicketLock, the key       *)
(* set's ECDHE cache lock, the PRNG lock) and an End step.  Mutexes nest in *)
(* one order only: the ECDHE cache lock is held while the PRNG lock is      *)
(* taken for the new ephemeral key (matrixsslKeys.c 1111-1163).  Modelled:  *)
(* the session ticket key list under rotation, resumptions that need a key  *)
(* of that list, and ephemeral key generation.                              *)
(* With a session ticket callback registered (matrixSslSetSessionTicket-     *)
(* Callback) a resumption is NOT one critical section: getTicketKeys finds   *)
(* the key, pins it (inUse), RELEASES g_sessTicketLock around the callback   *)
(* and takes it again before the key is used (matrixssl.c, getTicketKeys /   *)
(* matrixUnlockSessionTicket).  That is modelled step by step ("resumecb"):  *)
(* Lookup+pin, Callback (no lock held), Use+unpin.  A deletion refuses a     *)
(* pinned key.  PinIsCounter says whether the pin counts its holders (TRUE,  *)
(* the code after fix F71) or is a flag that the first holder to finish      *)
(* clears (FALSE, the code as found: with two resumptions inside their       *)
(* callbacks the key could be deleted under the second - NoUseOfDeletedKey   *)
(* fails, see MxConc_MC_flagpin.cfg).                                        *)
(*                                                                         *)
(* The implementation is judged from the outside, by the stamps of a global *)
(* counter taken at Begin and End.  Serializable says what those stamps     *)
(* allow one to conclude: a resumption attempt whose key was in the list    *)
(* during the whole operation succeeds, one whose key was absent during the *)
(* whole operation does not; in between both outcomes are explained by some *)
(* order.  TLC checks that this rule follows from the locking discipline    *)
(* (so the trace checker MxConc_Trace, which applies the same rule to real  *)
(* executions, raises no false alarm), together with mutual exclusion and   *)
(* freedom from deadlock.                                                   *)
(***************************************************************************)
EXTENDS Integers, Sequences, FiniteSets, TLC

CONSTANTS Threads, Keys, MaxOps, KeygenOrder, PinIsCounter, WithCallback

VARIABLES keylist,   \* set of ticket keys currently loaded
          owner,     \* [lock -> thread holding it or "none"]
          pc,        \* [thread -> "idle" | "begun" | "locked" | "done-cs"]
          cur,       \* [thread -> current operation record]
          clock,     \* global stamp counter
          hist,      \* completed operations with their stamps and outcomes
          nops, init0,
          pin        \* [key -> Nat]: psSessionTicketKeys_t.inUse
vars == <<keylist, owner, pc, cur, clock, hist, nops, init0, pin>>
Locks == {"tickets", "cache", "prng"}
\* the mutexes an operation takes, outermost first
LockSeq(op) == CASE op.kind = "keygen" -> KeygenOrder [] op.kind = "rand" -> <<"prng">> [] OTHER -> <<"tickets">>
NoOp == [kind |-> "none"]

Init == /\ keylist \in SUBSET Keys /\ owner = [l \in Locks |-> "none"]
        /\ pc = [t \in Threads |-> "idle"] /\ cur = [t \in Threads |-> NoOp]
        /\ clock = 0 /\ hist = {} /\ nops = 0 /\ init0 = keylist
        /\ pin = [k \in Keys |-> 0]

Begin(t, op) ==
    /\ pc[t] = "idle" /\ nops < MaxOps
    /\ cur' = [cur EXCEPT ![t] = op @@ [t0 |-> clock, out |-> "?", nheld |-> 0, phase |-> 1, found |-> FALSE, c0 |-> -1, c1 |-> -1]]
    /\ pc' = [pc EXCEPT ![t] = "begun"] /\ clock' = clock + 1 /\ nops' = nops + 1
    /\ UNCHANGED <<keylist, owner, hist, init0, pin>>

Acquire(t) ==
    /\ pc[t] = "begun"
    /\ LET sq == LockSeq(cur[t])
           lk == sq[cur[t].nheld + 1] IN
       /\ owner[lk] = "none"
       /\ owner' = [owner EXCEPT ![lk] = t]
       /\ cur' = [cur EXCEPT ![t].nheld = @ + 1]
       /\ pc' = [pc EXCEPT ![t] = IF cur[t].nheld + 1 = Len(sq) THEN "locked" ELSE "begun"]
    /\ UNCHANGED <<keylist, clock, hist, nops, init0, pin>>

Pin(k) == [pin EXCEPT ![k] = IF PinIsCounter THEN @ + 1 ELSE 1]
Unpin(k) == [pin EXCEPT ![k] = IF PinIsCounter THEN @ - 1 ELSE 0]

\* the critical section: the linearization point of the operation
Critical(t) ==
    /\ pc[t] = "locked"
    /\ LET op == cur[t] IN
       CASE op.kind \in {"keygen", "rand"} -> UNCHANGED <<keylist, pin>> /\ cur' = [cur EXCEPT ![t].out = "ok"] /\ pc' = [pc EXCEPT ![t] = "done-cs"]
         [] op.kind = "add" -> keylist' = keylist \cup {op.k} /\ cur' = [cur EXCEPT ![t].out = "ok"] /\ UNCHANGED pin /\ pc' = [pc EXCEPT ![t] = "done-cs"]
         [] op.kind = "del" -> \* matrixSslDeleteSessionTicketKey: only a key nobody has pinned
                               /\ IF pin[op.k] = 0 THEN keylist' = keylist \ {op.k} /\ cur' = [cur EXCEPT ![t].out = "ok"]
                                                    ELSE UNCHANGED keylist /\ cur' = [cur EXCEPT ![t].out = "refused"]
                               /\ UNCHANGED pin /\ pc' = [pc EXCEPT ![t] = "done-cs"]
         [] op.kind = "resume" -> /\ cur' = [cur EXCEPT ![t].out = IF op.k \in keylist THEN "resumed" ELSE "full"]
                                  /\ UNCHANGED <<keylist, pin>> /\ pc' = [pc EXCEPT ![t] = "done-cs"]
         [] op.kind = "resumecb" /\ op.phase = 1 ->       \* getTicketKeys: look the key up, pin it, leave the lock for the callback
                                  /\ cur' = [cur EXCEPT ![t].found = (op.k \in keylist), ![t].nheld = 0]
                                  /\ pin' = IF op.k \in keylist THEN Pin(op.k) ELSE pin
                                  /\ UNCHANGED keylist /\ pc' = [pc EXCEPT ![t] = "cb"]
         [] op.kind = "resumecb" /\ op.phase = 2 ->       \* matrixUnlockSessionTicket: MAC and decrypt with the key, then unpin
                                  /\ cur' = [cur EXCEPT ![t].out = "resumed"]
                                  /\ pin' = Unpin(op.k) /\ UNCHANGED keylist /\ pc' = [pc EXCEPT ![t] = "done-cs"]
    /\ owner' = [lk \in Locks |-> IF owner[lk] = t THEN "none" ELSE owner[lk]]
    /\ UNCHANGED <<clock, hist, nops, init0>>

\* the application's ticket callback, no library lock held: told whether the key was found, it accepts a found key and
\* (this application) does not supply missing ones; stamps c0 / c1 bracket the window
CallbackEnter(t) ==
    /\ pc[t] = "cb" /\ cur[t].c0 = -1
    /\ cur' = [cur EXCEPT ![t].c0 = clock] /\ clock' = clock + 1
    /\ UNCHANGED <<keylist, owner, pc, hist, nops, init0, pin>>
CallbackReturn(t) ==
    /\ pc[t] = "cb" /\ cur[t].c0 # -1
    /\ clock' = clock + 1
    /\ IF cur[t].found
         THEN cur' = [cur EXCEPT ![t].c1 = clock, ![t].phase = 2] /\ pc' = [pc EXCEPT ![t] = "begun"]
         ELSE cur' = [cur EXCEPT ![t].c1 = clock, ![t].out = "full"] /\ pc' = [pc EXCEPT ![t] = "done-cs"]
    /\ UNCHANGED <<keylist, owner, hist, nops, init0, pin>>

End(t) ==
    /\ pc[t] = "done-cs"
    /\ hist' = hist \cup {cur[t] @@ [t1 |-> clock, th |-> t]}
    /\ clock' = clock + 1 /\ pc' = [pc EXCEPT ![t] = "idle"] /\ cur' = [cur EXCEPT ![t] = NoOp]
    /\ UNCHANGED <<keylist, owner, nops, init0, pin>>

Ops == [kind : {"add", "del", IF WithCallback THEN "resumecb" ELSE "resume"}, k : Keys]
       \cup (IF WithCallback THEN {} ELSE {[kind |-> "keygen", k |-> CHOOSE k \in Keys : TRUE], [kind |-> "rand", k |-> CHOOSE k \in Keys : TRUE]})
Next == \E t \in Threads : (\E op \in Ops : Begin(t, op)) \/ Acquire(t) \/ Critical(t) \/ CallbackEnter(t) \/ CallbackReturn(t) \/ End(t)
Spec == Init /\ [][Next]_vars /\ \A t \in Threads : WF_vars(Acquire(t) \/ Critical(t) \/ CallbackEnter(t) \/ CallbackReturn(t) \/ End(t))

MutualExclusion == \A t1, t2 \in Threads : (t1 # t2 /\ pc[t1] = "locked" /\ pc[t2] = "locked") => LockSeq(cur[t1])[Len(LockSeq(cur[t1]))] # LockSeq(cur[t2])[Len(LockSeq(cur[t2]))]
\* every begun operation ends (no deadlock, no starvation under weak fairness)
Progress == \A t \in Threads : pc[t] = "begun" ~> pc[t] = "idle"

(* What the stamps prove about the key list during an operation [a, b] (sufficient conditions):  *)
AllOps == hist \cup {cur[t] @@ [t1 |-> 1000000, th |-> t] : t \in {x \in Threads : cur[x].kind # "none"}}
\* k was in the list throughout: it was loaded initially or an add of k had ended before a, and no del of k began before b
SurelyPresent(k, a, b) ==
    /\ (k \in init0 \/ \E x \in AllOps : x.kind = "add" /\ x.k = k /\ x.t1 < a)
    /\ ~\E d \in AllOps : d.kind = "del" /\ d.k = k /\ d.t0 < b
\* k was out of the list throughout: never loaded and no add of k began before b; or a del of k had ended before a
\* and every add of k had ended before that del began
SurelyAbsent(k, a, b) ==
    \/ (k \notin init0 /\ ~\E x \in AllOps : x.kind = "add" /\ x.k = k /\ x.t0 < b)
    \/ \E d \in AllOps : /\ d.kind = "del" /\ d.k = k /\ d.t1 < a
                           /\ \A x \in AllOps : (x.kind = "add" /\ x.k = k) => x.t1 < d.t0
Serializable == \A r \in hist : r.kind = "resume" =>
    /\ SurelyPresent(r.k, r.t0, r.t1) => r.out = "resumed"
    /\ SurelyAbsent(r.k, r.t0, r.t1) => r.out = "full"
(* ---- the callback window ---- *)
\* a key somebody found and has not finished using is still in the list (else: use of freed key material)
NoUseOfDeletedKey == \A t \in Threads : (cur[t].kind = "resumecb" /\ cur[t].found /\ pc[t] # "done-cs") => cur[t].k \in keylist
\* the pin counts exactly the resumptions between Lookup and Use
PinCountsHolders == PinIsCounter => \A k \in Keys : pin[k] = Cardinality({t \in Threads : cur[t].kind = "resumecb" /\ cur[t].k = k /\ cur[t].found /\ pc[t] # "done-cs"})
\* what the stamps of an execution show (used by MxConc_Trace): a deletion that lies entirely inside the callback window of a
\* resumption that had found the key was refused; a resumption whose callback was told "found" ends resumed
CbOps == {x \in hist : x.kind = "resumecb"}
DelRespectsWindow == \A d \in hist : (d.kind = "del" /\ d.out = "ok") =>
                         ~\E r \in CbOps \cup {cur[t] : t \in {x \in Threads : cur[x].kind = "resumecb"}} :
                              r.k = d.k /\ r.found /\ r.c0 # -1 /\ r.c0 < d.t0 /\ (r.c1 = -1 \/ d.t1 < r.c1)
FoundMeansResumed == \A r \in CbOps : r.found => r.out = "resumed"
\* vacuity guards (must be violated)
NeverRefused == ~\E d \in hist : d.kind = "del" /\ d.out = "refused"
NeverBothOutcomes == ~(\E r1, r2 \in hist : r1.kind = "resume" /\ r2.kind = "resume" /\ r1.out = "resumed" /\ r2.out = "full")
=============================================================================
