--------------------------- MODULE MxX509_Trace ---------------------------
(* Each line of the trace is one call of the library's path validation on a generated DER chain,      *)
(* together with the abstract description (chain, anchors) the chain was generated from.  The verdict  *)
(* the library returned must be sound and complete with respect to Valid (MxX509), and is compared     *)
(* with the transcribed Walk (a difference there is reported as drift of the transcription).           *)
EXTENDS MxX509, Json, IOUtils

VARIABLE l
TraceLog == ndJsonDeserialize(IOEnv.TRACE)
Line == TraceLog[l]

\* "success" as the API reports it: return code >= 0 AND every presented certificate marked PS_CERT_AUTH_PASS
ObsAccept(t) == t.prc = 0 /\ t.rcn >= 0 /\ \A j \in 1..Len(t.st) : t.st[j] = 1

TValidate ==
    /\ l <= Len(TraceLog) /\ Line.ev = "validate"
    /\ LET t == Line IN
       /\ ObsAccept(t) => Valid(t.chain, t.anchors)
       \* the TLS 1.3 layer and the certificate callback go by the per-certificate status alone (the return code is
       \* consumed by TLS <= 1.2 only): a chain marked PASS throughout must be valid whatever the call returned
       /\ (t.prc = 0 /\ Len(t.st) > 0 /\ \A j \in 1..Len(t.st) : t.st[j] = 1) => Valid(t.chain, t.anchors)
       /\ (Valid(t.chain, t.anchors) /\ Supported(t.chain, t.anchors)) => ObsAccept(t)
       /\ IF ObsAccept(t) # Walk(t.chain, t.anchors).accept THEN PrintT(<<"TRANSCRIPTION_DRIFT_LINE", l>>) ELSE TRUE
    /\ l' = l + 1

TSkip == /\ l <= Len(TraceLog) /\ Line.ev # "validate" /\ l' = l + 1

TReject ==
    /\ l <= Len(TraceLog)
    /\ ~ENABLED (TValidate \/ TSkip)
    /\ PrintT(<<"TRACE_REJECT_LINE", l, <<"-", "-", "-", FALSE, FALSE>> >>)
    /\ l' = l + 1

TDone == /\ l = Len(TraceLog) + 1 /\ PrintT(<<"TRACE_DONE", Len(TraceLog)>>) /\ l' = l + 1

TraceSpec == l = 1 /\ [][TValidate \/ TSkip \/ TReject \/ TDone]_l
=============================================================================
