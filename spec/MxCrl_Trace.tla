--------------------------- MODULE MxCrl_Trace ---------------------------
(* Histories of the real library (harness/mxdrive: `crl`, `validate`, `crlclear`) over the universe of MxCrl_MC,        *)
(* materialised with OpenSSL (harness/certgen.c): every CRL load and every chain validation is replayed on the model's    *)
(* cache; the observed outcome (accepted / turned away as revoked / turned away otherwise, and the authenticated flag a   *)
(* load leaves behind) must be the one MxCrl computes from the history so far.                                            *)
EXTENDS MxCrl_MC, Json, IOUtils

VARIABLE l
TraceLog == ndJsonDeserialize(IOEnv.TRACE)
Line == TraceLog[l]

CertById(i) == IF i = "none" THEN NoCert ELSE CHOOSE c \in MCCerts : c.id = i
CrlById(i) == CHOOSE c \in MCCrls : c.id = i
ChainOf(ids) == [k \in 1..Len(ids) |-> CertById(ids[k])]

ObsOk(t) == t.prc = 0 /\ t.rcn >= 0 /\ \A j \in 1..Len(t.st) : t.st[j] = 1
ObsRevoked(t) == \E j \in 1..Len(t.st) : t.st[j] = -35          \* PS_CERT_AUTH_FAIL_REVOKED

TLoad == /\ l <= Len(TraceLog) /\ Line.ev = "crl"
         /\ LET c == CrlById(Line.crl)
                ca == CertById(Line.ca)
                a == CrlVerifies(c, ca) IN
            /\ Line.prc = 0 /\ Line.urc = 1                       \* parsed and taken into the cache
            /\ Line.authd = (IF a THEN 1 ELSE 0)                  \* psX509AuthenticateCRL decides as the model does
            /\ cache' = [cache EXCEPT ![c.iss] = [crl |-> c, auth |-> a, appAuth |-> a]]
         /\ l' = l + 1 /\ UNCHANGED <<last, steps>>
TValidate == /\ l <= Len(TraceLog) /\ Line.ev = "validate"
             /\ LET ch == ChainOf(Line.chain)
                    w == Walk(cache, ch, 1) IN
                /\ ObsOk(Line) = (w.res = "ok")
                /\ ObsRevoked(Line) = (w.res = "revoked")
                /\ ObsOk(Line) => \A c \in InChain(ch) : ~RevokedByLoaded(cache, c)       \* the statement itself, on the observation
                /\ cache' = w.q
                /\ last' = [chain |-> ch, ok |-> (w.res = "ok"), why |-> w.res, at |-> l]
             /\ l' = l + 1 /\ UNCHANGED steps
\* the same chain presented by a TLS server; the client (trusting the anchor) completes the handshake iff the walk succeeds, and its
\* validation works on the same process-wide cache
THandshake == /\ l <= Len(TraceLog) /\ Line.ev = "hsval"
              /\ LET ch == ChainOf(Line.chain)
                     w == Walk(cache, ch, 1) IN
                 /\ (Line.hc = 1) = (w.res = "ok")
                 /\ Line.hc = 1 => \A c \in InChain(ch) : ~RevokedByLoaded(cache, c)
                 /\ cache' = w.q
                 /\ last' = [chain |-> ch, ok |-> (w.res = "ok"), why |-> w.res, at |-> l]
              /\ l' = l + 1 /\ UNCHANGED steps
TClear == /\ l <= Len(TraceLog) /\ Line.ev \in {"crlclear", "Reset"}
          /\ cache' = [n \in Names |-> NoCrl] /\ l' = l + 1 /\ UNCHANGED <<last, steps>>
TOther == /\ l <= Len(TraceLog) /\ Line.ev \notin {"crl", "validate", "hsval", "crlclear", "Reset"}        \* the steps of a handshake in between
          /\ l' = l + 1 /\ UNCHANGED <<cache, last, steps>>
TraceNormal == TLoad \/ TValidate \/ THandshake \/ TClear \/ TOther
TReject == /\ l <= Len(TraceLog) /\ ~ENABLED TraceNormal
           /\ PrintT(<<"TRACE_REJECT_LINE", l, <<"-", "-", "-", FALSE, FALSE>> >>) /\ l' = l + 1 /\ UNCHANGED <<cache, last, steps>>
TDone == /\ l = Len(TraceLog) + 1 /\ PrintT(<<"TRACE_DONE", Len(TraceLog)>>) /\ l' = l + 1 /\ UNCHANGED <<cache, last, steps>>
TraceSpec == Init /\ l = 1 /\ [][TraceNormal \/ TReject \/ TDone]_<<vars, l>>
=============================================================================
