SPECIFICATION Spec
CONSTANTS
  Threads = {t1, t2, t3}
  Keys = {k1}
  MaxOps = 3
  KeygenOrder <- OrderAsCoded
  PinIsCounter = TRUE
  WithCallback = FALSE
INVARIANT NeverBothOutcomes
CHECK_DEADLOCK FALSE
