---------------------------- MODULE MxResume_MC ----------------------------
EXTENDS MxResume, TLC
Sym == Permutations(Clients)
Bound == \A i \in 1..TableSize : table[i].inUse <= 2
ParsVer == {Base, [Base EXCEPT !.ver = 11]}
ParsSuite == {Base, [Base EXCEPT !.suite = 2]}
ParsEms == {Base, [Base EXCEPT !.ems = 0]}
\* vacuity guards (each must be VIOLATED by some behaviour)
NoIdResume == lastRes.mode # "id"
NoTicketResume == lastRes.mode # "ticket"
NoEviction == \A o \in issued : o.kind = "id" => \E i \in 1..TableSize : table[i].sid = o.sid \/ o.invalid
=============================================================================
