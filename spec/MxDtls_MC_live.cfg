SPECIFICATION FairSpec
CONSTANTS
  MaxDrops = 2
  MaxDups = 0
  MaxTimeouts = 3
  MaxApp = 0
PROPERTY Completes
CHECK_DEADLOCK FALSE
