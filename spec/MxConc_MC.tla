----------------------------- MODULE MxConc_MC -----------------------------
EXTENDS MxConc
OrderAsCoded == <<"cache", "prng">>
\* (for the vacuity run) a second kind of operation nesting the other way round would deadlock: Progress must then fail
=============================================================================
