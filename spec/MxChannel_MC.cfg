SPECIFICATION Spec
CONSTANTS
  MaxMsgs = 4
  MaxEdits = 2
  MaxPhases = 2
INVARIANT Prefix
INVARIANT NonceFresh
INVARIANT SeqMonotone
PROPERTY TamperKills
CHECK_DEADLOCK FALSE
