----------------------------- MODULE MxDtls_MC -----------------------------
EXTENDS MxDtls
\* vacuity guards (must be violated)
NeverDone == ~(\A e \in Ends : st[e].wait = "DONE")
NeverApp == \A e \in Ends : Len(st[e].got) = 0
NeverResent == \A e \in Ends : st[e].wEp <= 1
=============================================================================
