SPECIFICATION Spec
CONSTANTS
  Certs <- MCCerts
  Crls <- MCCrls
  Anchors <- MCAnchors
  Chains <- MCChains
  MaxSteps = 4
  ReauthAlways = TRUE
  PersistReauth = TRUE
PROPERTY LoadedRevocationHonoured
CHECK_DEADLOCK FALSE
