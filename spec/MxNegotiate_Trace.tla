------------------------- MODULE MxNegotiate_Trace -------------------------
(* Real handshakes between a client and a server configuration (annotated on their "new" lines: cv/sv enabled   *)
(* versions, cs/ss enabled suites, cg/sg enabled groups, scsv), possibly with one in-flight rewrite of a hello    *)
(* message, judged with the C07 properties of MxNegotiate.                                                        *)
EXTENDS Naturals, Integers, Sequences, FiniteSets, Json, IOUtils, TLC

VARIABLES l, cfg, edited, seen, sig      \* sig: the algorithm the server was last seen signing with in this episode (0: not seen)
TraceLog == ndJsonDeserialize(IOEnv.TRACE)
Line == TraceLog[l]

VNum(s) == CASE s = "T11" -> 11 [] s = "T12" -> 12 [] s = "T13" -> 13 [] s = "T10" -> 10 [] OTHER -> 0
SetOf(q) == {q[i] : i \in 1..Len(q)}
Max(S) == CHOOSE x \in S : \A y \in S : y <= x
IsT13Suite(s) == s \in {4865, 4866, 4867}
Put(f, k, v) == [x \in DOMAIN f \cup {k} |-> IF x = k THEN v ELSE f[x]]

HasCfg == "C" \in DOMAIN cfg /\ "S" \in DOMAIN cfg
CV == SetOf(cfg["C"].vers)  SV == SetOf(cfg["S"].vers)
Common == CV \cap SV
CS == SetOf(cfg["C"].suites)  SS == SetOf(cfg["S"].suites)
CG == SetOf(cfg["C"].groups)  SG == SetOf(cfg["S"].groups)
\* signature algorithms offered by the client / enabled on the server; an empty list is "the defaults", which nothing is demanded of
CSig == SetOf(cfg["C"].sigs)  SSig == SetOf(cfg["S"].sigs)
SigOK(x) == (CSig # {} => x \in CSig) /\ (SSig # {} => x \in SSig)
SigFeasible == CSig = {} \/ SSig = {} \/ CSig \cap SSig # {}
\* AES-GCM and SHA-256 suites need TLS 1.2, the TLS 1.3 suites TLS 1.3
Usable(s, v) == IF IsT13Suite(s) THEN v = 13 ELSE IF s \in {49199, 60} THEN v = 12 ELSE v \in {11, 12}
SuitesFor(v) == {s \in CS \cap SS : Usable(s, v)}
\* a version an endpoint can actually run: enabled, and it has a suite for it
EffC == {v \in CV : \E s \in CS : Usable(s, v)}
EffS == {v \in SV : \E s \in SS : Usable(s, v)}
EffCommon == EffC \cap EffS
\* what the configurations allow
Feasible == /\ EffCommon # {}
            /\ SuitesFor(Max(EffCommon)) # {}
            /\ Max(EffCommon) = 13 => CG \cap SG # {}
            /\ ~(cfg["C"].scsv = 1 /\ Max(SV) > Max(CV))

TNew == /\ l <= Len(TraceLog) /\ Line.ev = "new" /\ "ncfg" \in DOMAIN Line
        /\ cfg' = Put(cfg, Line.role, Line.ncfg)
        /\ UNCHANGED <<edited, seen, sig>> /\ l' = l + 1

\* a hello (or any other handshake record before completion) was rewritten in flight
TDeliver == /\ l <= Len(TraceLog) /\ Line.ev = "deliver"
            /\ edited' = (edited \/ (Line.origin \in {1, 7} /\ Line.hs # "NOSESSION" /\ Line.hc = 0))
            \* TLS 1.2: the SignatureAndHashAlgorithm in the ServerKeyExchange the client is handed
            /\ sig' = IF "skesig" \in DOMAIN Line THEN Line.skesig ELSE sig
            /\ UNCHANGED <<cfg, seen>> /\ l' = l + 1

TState ==
    /\ l <= Len(TraceLog) /\ Line.ev = "state" /\ HasCfg /\ Line.hs # "NOSESSION"
    /\ LET t == Line
           done == t.hc = 1 /\ t.err = 0
           v == VNum(t.ver)
           used == IF t.role = "S" /\ t.sig13 # 0 THEN t.sig13 ELSE sig      \* TLS 1.3: what the server signed CertificateVerify with
       IN /\ (done /\ used # 0) => SigOK(used)                                \* the signature algorithm in force is enabled by both
          /\ (~edited /\ ~SigFeasible /\ v = 13) => ~done                    \* TLS 1.3 always needs a signature of the server here
          /\ (~edited /\ ~SigFeasible /\ t.suite = 49199) => ~done            \* ECDHE_RSA does
          /\ edited => ~done                                                   \* any in-transit change to a hello fails
          /\ done => /\ v \in Common /\ EffCommon # {} /\ v = Max(EffCommon)  \* enabled by both, and the highest both can run
                     /\ t.suite \in SuitesFor(v)
                     /\ v = 13 => t.grp \in CG \cap SG
                     /\ ~(cfg["C"].scsv = 1 /\ Max(SV) > Max(CV))              \* unjustified fallback refused
          /\ (~edited /\ ~Feasible) => ~done
          /\ (~edited /\ Feasible /\ "expect" \in DOMAIN cfg["C"] /\ cfg["C"].expect = 1) => done     \* sanity: feasible offers succeed
          \* both endpoints hold identical parameters and keys
          /\ (done /\ seen.role # "-" /\ seen.role # t.role) =>
                 /\ seen.ver = t.ver /\ seen.suite = t.suite /\ seen.msfp = t.msfp /\ seen.ems = t.ems
                 /\ v = 13 => seen.grp = t.grp
          /\ seen' = IF done THEN [role |-> t.role, ver |-> t.ver, suite |-> t.suite, msfp |-> t.msfp, ems |-> t.ems, grp |-> t.grp] ELSE seen
    /\ UNCHANGED <<cfg, edited, sig>> /\ l' = l + 1

NoSeen == [role |-> "-", ver |-> "-", suite |-> 0, msfp |-> "-", ems |-> 0, grp |-> 0]
TReset == /\ l <= Len(TraceLog) /\ Line.ev = "Reset" /\ cfg' = [x \in {} |-> 0] /\ edited' = FALSE /\ seen' = NoSeen /\ sig' = 0 /\ l' = l + 1
TOther == /\ l <= Len(TraceLog)
          /\ \/ Line.ev \notin {"new", "deliver", "state", "Reset"}
             \/ (Line.ev = "new" /\ "ncfg" \notin DOMAIN Line)
             \/ (Line.ev = "state" /\ (~HasCfg \/ Line.hs = "NOSESSION"))
          /\ UNCHANGED <<cfg, edited, seen, sig>> /\ l' = l + 1

TraceNormal == TNew \/ TDeliver \/ TState \/ TReset \/ TOther
NextEpisode(i) ==
    LET rs == {j \in i..Len(TraceLog) : TraceLog[j].ev = "Reset"} IN
    IF rs = {} THEN Len(TraceLog) + 1 ELSE (CHOOSE j \in rs : \A k \in rs : j <= k)
TReject == /\ l <= Len(TraceLog) /\ ~ENABLED TraceNormal
           /\ PrintT(<<"TRACE_REJECT_LINE", l, <<IF edited THEN "edited" ELSE "clean", "-", "-", FALSE, FALSE>> >>)
           /\ l' = NextEpisode(l) /\ UNCHANGED <<cfg, edited, seen, sig>>
TDone == /\ l = Len(TraceLog) + 1 /\ PrintT(<<"TRACE_DONE", Len(TraceLog)>>) /\ l' = l + 1 /\ UNCHANGED <<cfg, edited, seen, sig>>
TraceSpec == l = 1 /\ cfg = [x \in {} |-> 0] /\ edited = FALSE /\ seen = NoSeen /\ sig = 0 /\ [][TraceNormal \/ TReject \/ TDone]_<<l, cfg, edited, seen, sig>>
=============================================================================
