--------------------------- MODULE MxAuth_Trace ---------------------------
(* Validates executions of real handshakes against MxAuth.  Every line of an episode carries the scenario *)
(* (field sc: what the generator made wrong with the prover - the ground truth); the verifier's lines      *)
(* carry the internal events reported by the guarded hooks: the callback invocations with their alert      *)
(* argument (k = "CB"), acceptance / refusal of each handshake message (k = "A"), sealed alerts (k = "S"). *)
EXTENDS MxAuth, Json, IOUtils, TLC, Integers

VARIABLES l, v
TraceLog == ndJsonDeserialize(IOEnv.TRACE)
Line == TraceLog[l]

HasSc(t) == "sc" \in DOMAIN t
IsVerifierLine(t) == HasSc(t) /\ "sub" \in DOMAIN t /\ "ep" \in DOMAIN t /\ t.ep = t.sc.verifier /\ t.ev # "new"

\* a message that passed the handshake state gate (k = "G") was accepted iff an accept event (k = "A", x = 0) follows
\* in the same call; a refusal shows as x = -1 (TLS 1.3) or as no accept event at all (TLS <= 1.2)
Relevant(t) == SelectSeq(t.sub, LAMBDA x : x.k = "G" /\ x.t \in {"CERTIFICATE", t.sc.carrier, "FINISHED"})
Accepted(t, m) == \E i \in 1..Len(t.sub) : t.sub[i].k = "A" /\ t.sub[i].t = m /\ t.sub[i].x = 0
CbEvents(t) == SelectSeq(t.sub, LAMBDA x : x.k = "CB")
CbAlerts(t) == [i \in 1..Len(CbEvents(t)) |-> CbEvents(t)[i].n]
SealedAlerts(t) == SelectSeq(t.sub, LAMBDA x : x.k = "S" /\ x.t = "21")
\* the fatal alert a dying verifier sends is the one the model died with (when one was sealed in this call)
AlertShown(t, a) == \A i \in 1..Len(SealedAlerts(t)) : SealedAlerts(t)[i].n = 2 => SealedAlerts(t)[i].x = a

Lenient(t) == "fault" \in DOMAIN t.sc /\ t.sc.fault = 1
\* the call ended the session: the error flag is set, or (C19 runs, where the failing allocation may be the one for the
\* alert itself) the API call returned an error - what the property asks for - before the flag was set
Ended(t) == t.err # 0 \/ (Lenient(t) /\ "rc" \in DOMAIN t /\ t.rc = "Error")
ScOf(t) == [role |-> t.sc.role, cb |-> t.sc.cb, cred |-> t.sc.cred, pop |-> t.sc.pop, carrier |-> t.sc.carrier]

TAuth ==
    /\ l <= Len(TraceLog) /\ IsVerifierLine(Line)
    /\ LET t == Line
           sc == ScOf(t)
           rel == Relevant(t)
           cbs == CbAlerts(t)
       IN /\ Len(rel) <= 1
          /\ \A i \in 1..Len(CbEvents(t)) : CbEvents(t)[i].x = (IF sc.cb = "strict" THEN 1 ELSE 2) /\ sc.cb # "none"
          \* no relevant message, or a fragment of one (DTLS) that neither completed it nor ended the session
          /\ IF Len(rel) = 0 \/ (~Accepted(t, rel[1].t) /\ ~Ended(t)) THEN cbs = <<>> /\ v' = v
             ELSE LET e == rel[1]
                      cands0 == IF e.t = "CERTIFICATE" THEN CertNext(sc, v)
                                ELSE IF e.t = sc.carrier THEN PopNext(sc, v)
                                ELSE FinNext(sc, v)
                      \* C19 runs: an allocation failed somewhere in this episode - any step may also end the handshake
                      \* (MxAuth!Abort); what it may never do is let it go on with less than the model demands
                      \* (the failure reported may then be another one than the scenario's - e.g. unknown_ca because the
                      \* trust anchors could not be loaded - but a permissive callback still has to be told a failure)
                      lenientAccept == IF e.t = "CERTIFICATE" /\ v.phase = "cert" /\ sc.cred \in SoftCred /\ sc.cb = "perm"
                                          /\ cbs # <<>> /\ cbs[Len(cbs)] # 0
                                       THEN {[v EXCEPT !.phase = "pop", !.cbArgs = @ \o cbs, !.accepted = sc.cred]} ELSE {}
                      cands == IF Lenient(t) THEN cands0 \cup {Dead([v EXCEPT !.cbArgs = @ \o cbs], a) : a \in AnyAlert} \cup lenientAccept ELSE cands0
                      ok == {w \in cands : /\ Accepted(t, e.t) = (w.phase # "dead")
                                           /\ w.cbArgs = v.cbArgs \o cbs
                                           /\ w.phase = "dead" => AlertShown(t, w.alert)}
                  IN ok # {} /\ v' = CHOOSE w \in ok : TRUE
          /\ t.hc = 1 => v'.phase = "done"                       \* C04: complete only through the three steps
          /\ (t.ev = "state" /\ sc.cred \in GoodCred /\ sc.pop = "ok" /\ ~Lenient(t)) => t.hc = 1    \* sanity: an honest peer is accepted
          /\ IF Lenient(t)
             THEN v'.phase = "done" => /\ sc.pop = "ok"
                                       /\ \/ sc.cred \in GoodCred
                                          \/ sc.cb = "perm" /\ v'.accepted = sc.cred /\ Len(v'.cbArgs) > 0 /\ v'.cbArgs[Len(v'.cbArgs)] # 0
             ELSE AuthBeforeComplete(sc, v')
          /\ NoCallbackMeansFatal(sc, v') /\ NeverToldNoFailure(sc, v')
    /\ l' = l + 1

TNew ==
    /\ l <= Len(TraceLog) /\ HasSc(Line) /\ Line.ev = "new" /\ Line.ep = Line.sc.verifier
    /\ Line.role = Line.sc.role
    /\ l' = l + 1 /\ UNCHANGED v

TReset == /\ l <= Len(TraceLog) /\ Line.ev = "Reset" /\ v' = InitV /\ l' = l + 1

TOther ==
    /\ l <= Len(TraceLog) /\ Line.ev # "Reset" /\ ~IsVerifierLine(Line)
    /\ ~(HasSc(Line) /\ Line.ev = "new" /\ Line.ep = Line.sc.verifier)
    /\ l' = l + 1 /\ UNCHANGED v

TraceNormal == TAuth \/ TNew \/ TReset \/ TOther

NextEpisode(i) ==
    LET rs == {j \in i..Len(TraceLog) : TraceLog[j].ev = "Reset"} IN
    IF rs = {} THEN Len(TraceLog) + 1 ELSE (CHOOSE j \in rs : \A k \in rs : j <= k)

TReject ==
    /\ l <= Len(TraceLog)
    /\ ~ENABLED TraceNormal
    /\ PrintT(<<"TRACE_REJECT_LINE", l, <<v.phase, "-", "-", FALSE, FALSE>> >>)
    /\ l' = NextEpisode(l) /\ v' = InitV

TDone == /\ l = Len(TraceLog) + 1 /\ PrintT(<<"TRACE_DONE", Len(TraceLog)>>) /\ l' = l + 1 /\ UNCHANGED v

TraceSpec == l = 1 /\ v = InitV /\ [][TraceNormal \/ TReject \/ TDone]_<<l, v>>
=============================================================================
