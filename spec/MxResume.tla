------------------------------ MODULE MxResume ------------------------------
(***************************************************************************)
(* Session resumption at a TLS <= 1.2 server (C14): the bounded session    *)
(* cache (matrixssl.c matrixRegisterSession / matrixResumeSession /        *)
(* matrixUpdateSession / matrixClearSession, hsDecode.c parseClientHello)  *)
(* and stateless tickets (matrixCreateSessionTicket /                      *)
(* matrixUnlockSessionTicket, extDecode.c), transcribed, under every       *)
(* history of connects, resumptions, handle edits, handle theft, clock     *)
(* advance, fatal alerts, closes, cache overflow and ticket key rotation.  *)
(*                                                                         *)
(* Secrets and identifiers are natural numbers drawn from a counter, so    *)
(* "the same secret" is equality.  Handshake parameters (version, suite,   *)
(* extended master secret) are a record par.                               *)
(*                                                                         *)
(* Ghost variables, never read by the server actions:                      *)
(*   issued  every session state the server ever handed out                *)
(*   lastRes the most recent completed resumed handshake with what was     *)
(*           presented (invariants are evaluated in every state, so the    *)
(*           most recent one is enough)                                    *)
(* ResumeSound is stated over the ghosts only.  MxResume_Trace rebuilds    *)
(* the same ghosts from executions of the real library and evaluates the   *)
(* same predicate.                                                         *)
(***************************************************************************)
EXTENDS Naturals, Sequences, FiniteSets

CONSTANTS Clients, TableSize, Life, MaxTime, MaxFresh, KeyIds, MaxEdits

Base == [ver |-> 12, suite |-> 1, ems |-> 1]
Pars == { Base, [Base EXCEPT !.ver = 11], [Base EXCEPT !.suite = 2], [Base EXCEPT !.ems = 0] }

VARIABLES now, table, chron, tkeys, handle, conn, fresh, issued, lastRes, nedit
vars == <<now, table, chron, tkeys, handle, conn, fresh, issued, lastRes, nedit>>

NoEntry == [live |-> FALSE, sid |-> 0, ms |-> 0, par |-> [ver |-> 0, suite |-> 0, ems |-> 0], born |-> 0, inUse |-> 0]
NoHandle == [kind |-> "none", idx |-> 0, sid |-> 0, full |-> TRUE, ms |-> 0, par |-> [ver |-> 0, suite |-> 0, ems |-> 0],
             tkey |-> 0, tms |-> 0, tborn |-> 0, tpar |-> [ver |-> 0, suite |-> 0, ems |-> 0], intact |-> TRUE]
Idle == [st |-> "idle", slot |-> 0, sid |-> 0]
NoRes == [mode |-> "none", just |-> TRUE]

Init ==
    /\ now = 0
    /\ table = [i \in 1..TableSize |-> NoEntry]
    /\ chron = [i \in 1..TableSize |-> i]          \* every entry starts on the list of replaceable entries, oldest first
    /\ tkeys \in {<<>>, <<1>>}
    /\ handle = [c \in Clients |-> NoHandle]
    /\ conn = [c \in Clients |-> Idle]
    /\ fresh = 1
    /\ issued = {}
    /\ lastRes = NoRes
    /\ nedit = 0

Remove(seq, x) == SelectSeq(seq, LAMBDA y : y # x)

(***************************************************************************)
(* Server side pieces                                                      *)
(***************************************************************************)
\* matrixRegisterSession: take the oldest entry that no connection uses
CanRegister == chron # <<>>
RegSlot == Head(chron)

\* matrixResumeSession (id lookup).  h is what the client presents.
\* The identifier must be a whole 32-byte session id equal to the entry's.
IdHit(h, par) ==
    /\ h.idx \in 1..TableSize
    /\ table[h.idx].live
    /\ h.full /\ h.sid = table[h.idx].sid
    /\ now - table[h.idx].born <= Life
    /\ table[h.idx].par.ver = par.ver
    /\ table[h.idx].par.ems = par.ems

\* matrixUnlockSessionTicket + the extended-master-secret agreement
TicketHit(h, par) ==
    /\ h.kind = "ticket" /\ h.intact
    /\ \E i \in 1..Len(tkeys) : tkeys[i] = h.tkey
    /\ h.tpar.ver = par.ver
    /\ h.tpar.ems = par.ems
    /\ now - h.tborn <= Life

(***************************************************************************)
(* C14, stated over the ghosts                                             *)
(***************************************************************************)
\* r: a completed resumed handshake; o: the session state it must come from
Justifies(o, r) ==
    /\ o.ms = r.ms                                   \* exactly the original session's secret
    /\ o.par = r.par                                 \* version, suite, extended master secret as recorded
    /\ r.at - o.born <= Life                         \* unexpired
    /\ r.exact                                       \* the identifier / ticket as issued, not altered or truncated
    /\ o.sid = r.sid                                 \* (tickets carry sid 0 in the model, the ticket's fingerprint in traces)
    /\ r.mode = "id" => o.kind = "id" /\ ~o.invalid                            \* not invalidated by a fatal alert
    /\ r.mode = "ticket" => o.kind = "ticket" /\ o.tkey = r.tkey /\ o.tkey \in r.keys   \* sealed by a key this server still holds
\* the verdict is taken when the resumption completes, against everything issued so far
Judge(r) == [mode |-> r.mode, just |-> \E o \in issued : Justifies(o, r)]
ResumeSound == lastRes.mode # "none" => lastRes.just

(***************************************************************************)
(* Actions                                                                 *)
(***************************************************************************)
\* A full handshake of client c with parameters par; wantTicket: the client asks for a ticket.
DoFull(c, par, wantTicket) ==
    LET ms == fresh IN
    IF wantTicket /\ tkeys # <<>> THEN
        \* tickets override the cache: nothing is registered
        /\ handle' = [handle EXCEPT ![c] = [NoHandle EXCEPT !.kind = "ticket", !.ms = ms, !.par = par, !.tkey = Head(tkeys),
                                                         !.tms = ms, !.tborn = now, !.tpar = par]]
        /\ conn' = [conn EXCEPT ![c] = [st |-> "open", slot |-> 0, sid |-> 0]]
        /\ issued' = issued \cup {[kind |-> "ticket", sid |-> 0, ms |-> ms, par |-> par, born |-> now, tkey |-> Head(tkeys), invalid |-> FALSE]}
        /\ fresh' = fresh + 1
        /\ UNCHANGED <<table, chron>>
    ELSE IF CanRegister THEN
        LET i == RegSlot
            sid == fresh + 1 IN
        /\ table' = [table EXCEPT ![i] = [live |-> TRUE, sid |-> sid, ms |-> ms, par |-> par, born |-> now, inUse |-> 1]]
        /\ chron' = Tail(chron)
        /\ handle' = [handle EXCEPT ![c] = [NoHandle EXCEPT !.kind = "id", !.idx = i, !.sid = sid, !.ms = ms, !.par = par]]
        /\ conn' = [conn EXCEPT ![c] = [st |-> "open", slot |-> i, sid |-> sid]]
        /\ issued' = issued \cup {[kind |-> "id", sid |-> sid, ms |-> ms, par |-> par, born |-> now, tkey |-> 0, invalid |-> FALSE]}
        /\ fresh' = fresh + 2
    ELSE
        \* every entry is in use: the session gets no id and cannot be resumed
        /\ handle' = [handle EXCEPT ![c] = NoHandle]
        /\ conn' = [conn EXCEPT ![c] = [st |-> "open", slot |-> 0, sid |-> 0]]
        /\ fresh' = fresh + 1
        /\ UNCHANGED <<table, chron, issued>>

Full(c, par, wantTicket) ==
    /\ conn[c].st = "idle" /\ fresh + 2 <= MaxFresh
    /\ DoFull(c, par, wantTicket)
    /\ UNCHANGED <<now, tkeys, lastRes, nedit>>

\* the entry of a connection that ends in error is wiped (matrixUpdateSession with SSL_FLAGS_ERROR, matrixClearSession(ssl, 1))
Wipe(tab, i) == [tab EXCEPT ![i] = [NoEntry EXCEPT !.inUse = tab[i].inUse]]
Invalidate(iss, sid) == {IF o.kind = "id" /\ o.sid = sid THEN [o EXCEPT !.invalid = TRUE] ELSE o : o \in iss}

\* Client c connects presenting its handle.
Connect(c, par) ==
    /\ conn[c].st = "idle" /\ handle[c].kind # "none" /\ fresh + 2 <= MaxFresh
    /\ LET h == handle[c] IN
       IF h.kind = "ticket" /\ TicketHit(h, par) THEN
           \* resumed from the ticket: the server uses the secret inside the ticket, the client the one it stored
           IF h.tpar.suite # par.suite \/ h.ms # h.tms THEN
               \* original suite not offered / Finished does not verify: the handshake fails
               /\ UNCHANGED <<table, chron, handle, conn, fresh, issued, lastRes>>
           ELSE
               /\ lastRes' = Judge([mode |-> "ticket", ms |-> h.tms, par |-> par, at |-> now, sid |-> 0, tkey |-> h.tkey,
                                     keys |-> {tkeys[i] : i \in 1..Len(tkeys)}, exact |-> h.intact])
               /\ conn' = [conn EXCEPT ![c] = [st |-> "open", slot |-> 0, sid |-> 0]]
               /\ UNCHANGED <<table, chron, handle, fresh, issued>>
       ELSE IF h.kind = "id" /\ IdHit(h, par) THEN
           LET i == h.idx IN
           IF table[i].par.suite # par.suite \/ table[i].ms # h.ms THEN
               \* handshake_failure / bad Finished: a fatal alert on a connection bound to entry i wipes it
               /\ table' = Wipe(table, i)
               /\ issued' = Invalidate(issued, table[i].sid)
               /\ UNCHANGED <<chron, handle, conn, fresh, lastRes>>
           ELSE
               /\ table' = [table EXCEPT ![i].inUse = @ + 1]
               /\ chron' = IF table[i].inUse = 0 THEN Remove(chron, i) ELSE chron
               /\ conn' = [conn EXCEPT ![c] = [st |-> "open", slot |-> i, sid |-> table[i].sid]]
               /\ lastRes' = Judge([mode |-> "id", ms |-> table[i].ms, par |-> par, at |-> now, sid |-> table[i].sid, tkey |-> 0,
                                     keys |-> {}, exact |-> h.full /\ h.sid = table[i].sid])
               /\ UNCHANGED <<handle, fresh, issued>>
       ELSE
           \* not resumable: an ordinary full handshake
           /\ DoFull(c, par, h.kind = "ticket")
           /\ UNCHANGED lastRes
    /\ UNCHANGED <<now, tkeys, nedit>>

\* close_notify exchanged, then the session object is deleted
Close(c) ==
    /\ conn[c].st = "open"
    /\ LET i == conn[c].slot IN
       IF i = 0 \/ table[i].sid # conn[c].sid THEN UNCHANGED <<table, chron>>
       ELSE /\ table' = [table EXCEPT ![i].inUse = @ - 1]
            /\ chron' = IF table[i].inUse = 1 THEN Append(chron, i) ELSE chron
    /\ conn' = [conn EXCEPT ![c] = Idle]
    /\ UNCHANGED <<now, tkeys, handle, fresh, issued, lastRes, nedit>>

\* the session object is deleted without closure: the entry stays "in use"
Drop(c) ==
    /\ conn[c].st = "open"
    /\ conn' = [conn EXCEPT ![c] = Idle]
    /\ UNCHANGED <<now, table, chron, tkeys, handle, fresh, issued, lastRes, nedit>>

\* a fatal alert on the connection.  sent: the server sent it (matrixClearSession(ssl, 1): the reference is
\* given back at once); otherwise it received one (matrixUpdateSession on deletion: the entry is wiped but
\* stays counted as in use)
Fatal(c, sent) ==
    /\ conn[c].st = "open"
    /\ LET i == conn[c].slot IN
       IF i = 0 \/ table[i].sid # conn[c].sid THEN UNCHANGED <<table, issued, chron>>
       ELSE /\ table' = IF sent THEN [Wipe(table, i) EXCEPT ![i].inUse = @ - 1] ELSE Wipe(table, i)
            /\ chron' = IF sent /\ table[i].inUse = 1 THEN Append(chron, i) ELSE chron
            /\ issued' = Invalidate(issued, conn[c].sid)
    /\ conn' = [conn EXCEPT ![c] = Idle]
    /\ UNCHANGED <<now, tkeys, handle, fresh, lastRes, nedit>>

Tick == /\ now < MaxTime /\ now' = now + 1
        /\ UNCHANGED <<table, chron, tkeys, handle, conn, fresh, issued, lastRes, nedit>>

\* what a client (or whoever got hold of the handle) can do to it
Edits == {"truncid", "otheridx", "otherid", "otherms", "breakticket", "foreignkey"}
Edit(c, e) ==
    /\ handle[c].kind # "none" /\ conn[c].st = "idle" /\ nedit < MaxEdits
    /\ nedit' = nedit + 1
    /\ handle' = [handle EXCEPT ![c] =
           CASE e = "truncid" -> [@ EXCEPT !.full = FALSE]
             [] e = "otheridx" -> [@ EXCEPT !.idx = (@ % TableSize) + 1]
             [] e = "otherid" -> [@ EXCEPT !.sid = 0]
             [] e = "otherms" -> [@ EXCEPT !.ms = 0]
             [] e = "breakticket" -> [@ EXCEPT !.intact = FALSE]
             [] e = "foreignkey" -> [@ EXCEPT !.tkey = 99]]
    /\ UNCHANGED <<now, table, chron, tkeys, conn, fresh, issued, lastRes>>

Steal(c, d) ==
    /\ c # d /\ handle[d].kind # "none" /\ conn[c].st = "idle" /\ handle[c] # handle[d] /\ nedit < MaxEdits
    /\ handle' = [handle EXCEPT ![c] = handle[d]]
    /\ nedit' = nedit + 1
    /\ UNCHANGED <<now, table, chron, tkeys, conn, fresh, issued, lastRes>>

KeyAdd(k) == /\ k \notin {tkeys[i] : i \in 1..Len(tkeys)} /\ tkeys' = Append(tkeys, k)
             /\ UNCHANGED <<now, table, chron, handle, conn, fresh, issued, lastRes, nedit>>
KeyDel(k) == /\ k \in {tkeys[i] : i \in 1..Len(tkeys)} /\ tkeys' = Remove(tkeys, k)
             /\ UNCHANGED <<now, table, chron, handle, conn, fresh, issued, lastRes, nedit>>

Next ==
    \/ \E c \in Clients, p \in Pars, w \in BOOLEAN : Full(c, p, w)
    \/ \E c \in Clients, p \in Pars : Connect(c, p)
    \/ \E c \in Clients : Close(c) \/ Drop(c) \/ Fatal(c, TRUE) \/ Fatal(c, FALSE)
    \/ Tick
    \/ \E c \in Clients, e \in Edits : Edit(c, e)
    \/ \E c, d \in Clients : Steal(c, d)
    \/ \E k \in KeyIds : KeyAdd(k) \/ KeyDel(k)

Spec == Init /\ [][Next]_vars

\* the cache never holds two live entries with the same identifier, and an entry on the replaceable list is not in use
CacheWellFormed ==
    /\ \A i, j \in 1..TableSize : (i # j /\ table[i].live /\ table[j].live) => table[i].sid # table[j].sid
    /\ \A k \in 1..Len(chron) : table[chron[k]].inUse = 0
=============================================================================
