-------------------------- MODULE MxSession_MC --------------------------
(* Exhaustive exploration of one endpoint against an adversarial environment that may present, *)
(* in every reachable state, every kind of record: any handshake message (legal or foreign),     *)
(* CCS, application data, alerts; unprotected, protected-and-authentic, or protected-but-bad;    *)
(* byte-identical to the honest peer's or not.                                                   *)
EXTENDS MxSession

CONSTANTS RoleSet, InitStates, DtlsSet, KxSet

E == "e0"

RecSpace ==
    { r \in [it : RecTypes, msg : HsMsgs, sealed : BOOLEAN, auth : BOOLEAN, gen : BOOLEAN, free : BOOLEAN, frag : BOOLEAN, len : {1},
             alvl : {1, 2}, adesc : {0, 10}, otype : {22, 23}] :
        /\ (r.sealed => r.otype = 23) /\ (r.gen /\ ~r.sealed /\ r.it = "hs" => r.otype = 22)
        /\ (r.auth => r.sealed)
        /\ (r.it # "hs" => r.msg = "FINISHED")            \* msg irrelevant unless handshake
        /\ (r.it # "alert" => r.alvl = 1 /\ r.adesc = 10) \* alert fields irrelevant otherwise
        /\ (r.gen /\ r.sealed => r.auth)                  \* what the honest peer sends verifies
        /\ (r.it = "junk" => ~r.gen)
        /\ (r.free => ~r.sealed)
        /\ (r.frag => ~r.gen /\ ~r.auth)
        /\ (~r.sealed /\ ~r.gen => r.free) }

CfgSpace(role, dtls) ==
    { c \in [kx : KxSet, resumed : BOOLEAN, cauth : BOOLEAN, tick : BOOLEAN, psk13 : BOOLEAN,
             early : BOOLEAN, fam : {"L", "T13"}, dtls : {dtls}, med : {0, 2}, eskip : BOOLEAN, limbo : BOOLEAN, retry : BOOLEAN] :
        /\ (role = "C" => ~c.cauth)                       \* a client learns of client-auth from CertificateRequest
        /\ (c.fam = "T13" => c.kx = "tls13" /\ ~c.resumed /\ ~c.tick /\ ~dtls)
        /\ (c.fam = "L" => c.kx # "tls13" /\ ~c.psk13 /\ ~c.early)
        /\ (c.early => c.psk13 /\ role = "S")
        /\ (c.retry => (c.fam = "T13" \/ (dtls /\ role = "S")))
        /\ (c.tick => role = "C")
        /\ (c.eskip => role = "S" /\ c.fam = "T13" /\ ~c.early)
        /\ (c.med > 0 => c.eskip)
        /\ (c.limbo => role = "C" /\ c.fam = "L" /\ ~c.resumed /\ ~c.tick) }

MCInit ==
    \E role \in RoleSet, hs \in InitStates, d \in DtlsSet :
        /\ (role = "C") = (hs \in {"SERVER_HELLO", "T13_WAIT_SH"})
        /\ (d => ~Is13State(hs))
        /\ sess = [x \in {E} |-> InitSess(role, hs, d)]

MCRecv ==
    \E r \in RecSpace :
        LET s == sess[E]
            isHello == r.it = "hs" /\ ((r.msg = "SERVER_HELLO" /\ s.role = "C") \/ (r.msg = "CLIENT_HELLO" /\ s.role = "S"))
            cs  == IF isHello /\ ~s.helloDone THEN CfgSpace(s.role, s.cfg.dtls) ELSE {s.cfg}
        IN
        IF Live(s)
        THEN \E c \in cs, ok \in AllowedChoices(s, r) :
                \* an endpoint that did not enable TLS 1.3 cannot negotiate it
                /\ (s.fam = "L" => c.fam = "L")
                /\ sess' = [sess EXCEPT ![E] = Recv(s, r, c, ok).next]
        ELSE sess' = [sess EXCEPT ![E] = RecvDead(s).next]

MCSend == \E ce \in BOOLEAN, se \in BOOLEAN : sess' = [sess EXCEPT ![E] = AppSend(sess[E], ce, se)]
MCClose == sess' = [sess EXCEPT ![E] = Close(sess[E])]

MCNext == MCRecv \/ MCSend \/ MCClose

MCSpec == MCInit /\ [][MCNext]_sess

\* bound the ghost logs so the graph is finite (deliveries/sends repeat without changing behaviour)
MCConstraint ==
    /\ Len(sess[E].dlvLog) <= 1
    /\ Len(sess[E].sendLog) <= 1
    /\ Len(sess[E].postDead) <= 1

\* vacuity witnesses: these must be VIOLATED (i.e. reachable) - checked by a separate config
NeverDone == ~sess[E].done
NeverDelivers == Len(sess[E].dlvLog) = 0
=============================================================================
