SPECIFICATION MCSpec
CONSTANTS
  RoleSet = {"C", "S"}
  InitStates = {"SERVER_HELLO", "CLIENT_HELLO", "T13_WAIT_SH", "T13_START"}
  DtlsSet = {TRUE, FALSE}
  KxSet = {"rsa", "ecdhe_rsa", "psk", "dhe_psk", "tls13"}
CONSTRAINT MCConstraint
INVARIANT NeverDelivers
CHECK_DEADLOCK FALSE
