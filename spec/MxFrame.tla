------------------------------- MODULE MxFrame -------------------------------
(***************************************************************************)
(* The receive path of a TLS session as a function of the byte stream       *)
(* (C18).  The peer's stream is a sequence of records (each a header of     *)
(* HdrLen bytes announcing its body length, then the body).  The network     *)
(* hands the stream over in pieces of arbitrary size; the session buffers   *)
(* what it has (matrixSslGetReadbuf / matrixSslReceivedData), takes every    *)
(* complete record out of the buffer in order and acts on it.  Outgoing      *)
(* bytes are drained by the application in pieces of arbitrary size          *)
(* (matrixSslGetOutdata / matrixSslSentData).                                *)
(*                                                                           *)
(* ChunkIndependent: the sequence of records acted on, and the bytes that    *)
(* have left the session, never depend on where the pieces were cut - in     *)
(* every reachable state they are a prefix of what the one-piece run         *)
(* produces, and the whole of it once everything has been handed over.       *)
(***************************************************************************)
EXTENDS Naturals, Sequences

CONSTANTS Bodies, HdrLen      \* Bodies: sequence of body lengths of the records in the stream

RecLen(i) == HdrLen + Bodies[i]
RECURSIVE Total(_)
Total(n) == IF n = 0 THEN 0 ELSE Total(n - 1) + RecLen(n)
StreamLen == Total(Len(Bodies))
\* each processed record makes the session emit one answer of as many bytes as the record's body
RECURSIVE OutLen(_)
OutLen(n) == IF n = 0 THEN 0 ELSE OutLen(n - 1) + Bodies[n]

VARIABLES given,     \* bytes of the stream handed to the session so far
          buffered,  \* bytes in the session's input buffer
          acted,     \* number of records taken out of the buffer and acted on
          outbuf,    \* bytes waiting in the output buffer
          sent       \* bytes drained from the output buffer by the application
vars == <<given, buffered, acted, outbuf, sent>>

Init == given = 0 /\ buffered = 0 /\ acted = 0 /\ outbuf = 0 /\ sent = 0

\* one receive call with n more bytes; the session then processes every complete record it holds
RECURSIVE Drain(_, _)
Drain(buf, k) == IF k < Len(Bodies) /\ buf >= RecLen(k + 1) THEN Drain(buf - RecLen(k + 1), k + 1) ELSE <<buf, k>>

Receive(n) ==
    /\ n >= 1 /\ given + n <= StreamLen
    /\ LET d == Drain(buffered + n, acted) IN
       /\ buffered' = d[1] /\ acted' = d[2]
       /\ outbuf' = outbuf + (OutLen(d[2]) - OutLen(acted))
    /\ given' = given + n
    /\ UNCHANGED sent

Send(m) == /\ m >= 1 /\ m <= outbuf /\ outbuf' = outbuf - m /\ sent' = sent + m
           /\ UNCHANGED <<given, buffered, acted>>

Next == (\E n \in 1..StreamLen : Receive(n)) \/ (\E m \in 1..(OutLen(Len(Bodies))) : Send(m))
Spec == Init /\ [][Next]_vars

\* the records acted on are exactly those that are complete within the bytes given - whatever the cuts were
ActedIsFunctionOfBytes == /\ Total(acted) <= given
                          /\ (acted < Len(Bodies) => given < Total(acted + 1))
                          /\ buffered = given - Total(acted)
OutputIsFunctionOfBytes == sent + outbuf = OutLen(acted)
ChunkIndependent == ActedIsFunctionOfBytes /\ OutputIsFunctionOfBytes
\* vacuity guard (must be violated): everything can be processed
NeverAll == ~(acted = Len(Bodies) /\ sent = OutLen(Len(Bodies)))
=============================================================================
