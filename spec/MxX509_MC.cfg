SPECIFICATION Spec
INVARIANT Sound
INVARIANT Complete
CHECK_DEADLOCK FALSE
