SPECIFICATION Spec
INVARIANT CnAlwaysNeverMatters
CHECK_DEADLOCK FALSE
