------------------------------ MODULE MxX509 ------------------------------
(***************************************************************************)
(* Certificate path validation (C03).                                       *)
(*  Valid(chain, anchors)  - what the property statement demands.           *)
(*  Walk(chain, anchors)   - the procedure of matrixValidateCertsExt /      *)
(*                           psX509AuthenticateCert, check by check, in the *)
(*                           code's order (matrixssl.c:2343-2643,           *)
(*                           x509.c:5916-6222).                             *)
(* TLC compares the two over a universe of abstract chains (MxX509_MC) and  *)
(* MxX509_Trace compares both with what the library answered on generated   *)
(* DER chains of exactly those abstract values.                             *)
(*                                                                          *)
(* Abstract certificate:                                                    *)
(*   id   identity of the signed content (two certs are the same cert iff   *)
(*        equal id)                                                         *)
(*   n,i  subject / issuer name      k  its key    s  key that made the     *)
(*        signature ("0": no key - corrupted signature)                     *)
(*   sg   whose signature octets it carries (normally its own id; a forged  *)
(*        certificate may carry a copy of another certificate's)            *)
(*   bc   "ca" | "notca" | "none"    pl  path length constraint (-1: none)  *)
(*   ku   "none" | "sign" | "nosign" val "ok" | "exp" | "nyv"               *)
(*   cu   unknown critical extension present                                *)
(*   alg  "sha256" | "sha1" | "md5"                                         *)
(*   aki  "none" | "match" | "mismatch"   ski  BOOLEAN                      *)
(*   eku  "none" | "tls" | "othercrit"                                      *)
(***************************************************************************)
EXTENDS Naturals, Integers, Sequences, FiniteSets, TLC

AlgOK(a) == a \in {"sha256", "sha384", "sha512", "sha1"}     \* MD5/MD2 signatures are not enabled in the default build

IsCA(c) == c.bc = "ca" /\ c.ku \in {"none", "sign"}

\* I issues S, with `below` intermediate CA certificates between S and the end entity... (RFC 5280 6.1)
Issues(I, S, below) ==
    /\ S.i = I.n
    /\ S.s = I.k /\ S.sg = S.id            \* signature over S's own content, made by I's key
    /\ AlgOK(S.alg)
    /\ IsCA(I)
    /\ (I.pl = -1 \/ I.pl >= below)

Valid(chain, anchors) ==
    LET n == Len(chain) IN
    /\ n >= 1
    /\ \A j \in 1..(n - 1) : Issues(chain[j + 1], chain[j], j - 1)
    /\ \E a \in 1..Len(anchors) :
          \/ anchors[a].id = chain[n].id                   \* the presented top certificate is itself trusted
          \/ Issues(anchors[a], chain[n], n - 1)
    /\ \A j \in 1..n : chain[j].val = "ok" /\ ~chain[j].cu
    /\ chain[1].eku # "othercrit"

\* inputs for which the converse ("a conforming chain is accepted") is claimed
\* RFC 5280 4.2.1.1: issuance is consistent about key identifiers
KeyIdOK(S, I) == (S.aki = "none" /\ ~I.ski) \/ (S.aki = "match" /\ I.ski)

Supported(chain, anchors) ==
    LET n == Len(chain) IN
    /\ \A j \in 1..n : chain[j].alg = "sha256"
    /\ \A j \in 2..n : chain[j].ku = "sign"                             \* CA certificates carry keyUsage
    /\ \A a \in 1..Len(anchors) : anchors[a].ku = "sign" /\ anchors[a].val = "ok" /\ ~anchors[a].cu /\ anchors[a].alg = "sha256"
    /\ \A j \in 1..(n - 1) : KeyIdOK(chain[j], chain[j + 1])
    /\ \A a \in 1..Len(anchors) : anchors[a].n = chain[n].i => KeyIdOK(chain[n], anchors[a])
    \* self-issued trust anchors carry a valid self-signature (the walk verifies it when the root is sent along)
    /\ \A a \in 1..Len(anchors) : anchors[a].n = anchors[a].i => (anchors[a].s = anchors[a].k /\ anchors[a].sg = anchors[a].id)
    \* a presented copy of a trusted certificate is a faithful copy
    /\ \A a \in 1..Len(anchors) : \A j \in 1..n : anchors[a].id = chain[j].id => anchors[a] = chain[j]
    \* anchors are tried in list order and the first whose name and key fit decides: no two anchors of one name
    /\ \A a, b \in 1..Len(anchors) : a # b => anchors[a].n # anchors[b].n

-----------------------------------------------------------------------------
(* The code's walk.  AuthPair = psX509AuthenticateCert(sc, ic): returns a hard result          *)
(* ("ok" or the failure it RETURNS) and the soft status it leaves in sc->authStatus.            *)

AuthPair(S, I) ==
    IF I.bc # "ca" /\ S.id # I.id THEN [hard |-> "bc", soft |-> "bc"]
    ELSE IF S.i # I.n THEN
        \* ALLOW_INTERMEDIATES_AS_ROOTS: the presented certificate IS the trusted one
        \* (signature octets and digest of the signed content equal)
        IF S.sg = I.sg /\ S.id = I.id
        THEN [hard |-> "ok", soft |-> IF S.val # "ok" THEN "ext" ELSE "pass"]
        ELSE [hard |-> "dn", soft |-> "dn"]
    ELSE IF ~(S.s = I.k /\ S.sg = S.id /\ AlgOK(S.alg)) THEN [hard |-> "sig", soft |-> "sig"]
    ELSE
        LET akiBad == (S.aki # "none" \/ I.ski) /\
                      (IF (S.aki # "none") # I.ski THEN ~(S.sg = I.sg /\ S.aki = "none") ELSE S.aki = "mismatch")
            kuBad  == I.ku # "sign"                 \* absent keyUsage is tolerated only for pre-2002 certificates
            soft   == IF kuBad THEN "ext" ELSE IF akiBad THEN "authkey" ELSE IF S.val # "ok" THEN "ext" ELSE "pass"
        IN [hard |-> "ok", soft |-> soft]

\* checkPathLenConstraint(ic, sc, pathLen): a presented copy of the issuer itself does not count as a level
PathLenOK(I, S, pathLen) == I.pl = -1 \/ I.pl >= (IF S.id = I.id /\ pathLen > 0 THEN pathLen - 1 ELSE pathLen)

\* returns [accept, hard]: accept = return code >= 0 and every presented certificate PASSed
Walk(chain, anchors) ==
    LET n == Len(chain)
        \* chain part: pairs (j, j+1)
        pair(j) == AuthPair(chain[j], chain[j + 1])
        chainHardOK == \A j \in 1..(n - 1) : pair(j).hard = "ok" /\ PathLenOK(chain[j + 1], chain[j], j - 1)
        chainSoftOK == \A j \in 1..(n - 1) : pair(j).soft = "pass"
        top == chain[n]
        \* anchors are tried in order; the first one that authenticates (no hard failure) decides
        cand == {a \in 1..Len(anchors) : AuthPair(top, anchors[a]).hard = "ok"}
    IN
    IF n = 0 \/ ~chainHardOK \/ cand = {} THEN [accept |-> FALSE]
    ELSE LET a == CHOOSE x \in cand : \A y \in cand : x <= y
             r == AuthPair(top, anchors[a])
         IN [accept |-> /\ PathLenOK(anchors[a], top, n - 1)
                        /\ chainSoftOK
                        /\ r.soft = "pass"
                        /\ \A j \in 1..n : ~chain[j].cu          \* unknown critical extension: refused at parse time
                        /\ chain[1].eku # "othercrit"]

WalkSound(chain, anchors)    == Walk(chain, anchors).accept => Valid(chain, anchors)
WalkComplete(chain, anchors) == (Valid(chain, anchors) /\ Supported(chain, anchors)) => Walk(chain, anchors).accept
=============================================================================
