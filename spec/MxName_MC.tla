----------------------------- MODULE MxName_MC -----------------------------
(* Tabulates Match over a small universe and checks what the statement says about it:                   *)
(* independence of list order, CN only without a supported SAN, wildcard = exactly one left-most label. *)
EXTENDS MxName

VARIABLE scen

N(kind, lab, lk) == [kind |-> kind, lab |-> lab, lk |-> lk, loc |-> "", locl |-> "", bad |-> FALSE, tdot |-> FALSE]
Lit(n) == [i \in 1..n |-> "lit"]

Pool == { N("dns", <<"www", "a", "t">>, Lit(3)), N("dns", <<"*", "a", "t">>, <<"wild", "lit", "lit">>),
          N("dns", <<"a", "t">>, Lit(2)), N("dns", <<"w*", "a", "t">>, <<"part", "lit", "lit">>),
          N("dns", <<"*", "*", "t">>, <<"wild", "wild", "lit">>), N("dns", <<"a", "*", "t">>, <<"lit", "wild", "lit">>),
          [N("dns", <<"www", "a", "t">>, Lit(3)) EXCEPT !.bad = TRUE],
          [N("email", <<"a", "t">>, Lit(2)) EXCEPT !.loc = "u", !.locl = "u"], N("ip", <<"1", "2", "3", "4">>, Lit(4)),
          N("uri", <<"x">>, Lit(1)) }

Expected == { N("dns", <<"www", "a", "t">>, Lit(3)), N("dns", <<"x", "a", "t">>, Lit(3)), N("dns", <<"x", "y", "a", "t">>, Lit(4)),
              N("dns", <<"a", "t">>, Lit(2)), N("dns", <<"", "a", "t">>, Lit(3)), N("dns", <<"wx", "a", "t">>, Lit(3)),
              N("dns", <<"u@x", "a", "t">>, <<"odd", "lit", "lit">>),
              [N("email", <<"a", "t">>, Lit(2)) EXCEPT !.loc = "u", !.locl = "u"], N("ip", <<"1", "2", "3", "4">>, Lit(4)) }

CNs == { N("dns", <<"www", "a", "t">>, Lit(3)), N("dns", <<"*", "a", "t">>, <<"wild", "lit", "lit">>), N("none", <<>>, <<>>) }

SanLists == { <<>> } \cup { <<a>> : a \in Pool } \cup { <<a, b>> : a \in Pool, b \in Pool }
            \cup { <<a, b, c>> : a \in Pool, b \in Pool, c \in {N("dns", <<"*", "a", "t">>, <<"wild", "lit", "lit">>), N("uri", <<"x">>, Lit(1))} }

Init == scen \in [x : Expected, sans : SanLists, cn : CNs]
Next == UNCHANGED scen
Spec == Init /\ [][Next]_scen

Rev(s) == [i \in 1..Len(s) |-> s[Len(s) + 1 - i]]

OrderIndependent == Match(scen.x, scen.sans, scen.cn, TRUE) = Match(scen.x, Rev(scen.sans), scen.cn, TRUE)
CnOnlyWithoutSan == (Match(scen.x, scen.sans, scen.cn, TRUE) /\ \E k \in 1..Len(scen.sans) : SupportedSan(scen.sans[k]))
                        => Match(scen.x, scen.sans, N("none", <<>>, <<>>), TRUE)
WildcardOneLabel == (Match(scen.x, scen.sans, scen.cn, TRUE) /\ scen.x.kind = "dns")
                        => /\ \A i \in 1..Len(scen.x.lab) : scen.x.lab[i] # ""
                           /\ scen.x.lk[1] = "odd" => \/ \E k \in 1..Len(scen.sans) : scen.sans[k].kind = "dns" /\ scen.sans[k].lab = scen.x.lab
                                                      \/ scen.cn.lab = scen.x.lab        \* only literally
=============================================================================
