----------------------------- MODULE MxName_MC -----------------------------
(* Tabulates Match over a small universe and checks what the statement says about it:                   *)
(* independence of list order, CN only without a supported SAN, wildcard = exactly one left-most label. *)
EXTENDS MxName

VARIABLE scen

N(kind, lab, lk) == [kind |-> kind, lab |-> lab, lk |-> lk, loc |-> "", locl |-> "", bad |-> FALSE, tdot |-> FALSE]
Lit(n) == [i \in 1..n |-> "lit"]

Pool == { N("dns", <<"www", "a", "t">>, Lit(3)), N("dns", <<"*", "a", "t">>, <<"wild", "lit", "lit">>),
          N("dns", <<"a", "t">>, Lit(2)), N("dns", <<"w*", "a", "t">>, <<"part", "lit", "lit">>),
          N("dns", <<"*", "*", "t">>, <<"wild", "wild", "lit">>), N("dns", <<"a", "*", "t">>, <<"lit", "wild", "lit">>),
          [N("dns", <<"www", "a", "t">>, Lit(3)) EXCEPT !.bad = TRUE],
          [N("email", <<"a", "t">>, Lit(2)) EXCEPT !.loc = "u", !.locl = "u"], N("ip", <<"1", "2", "3", "4">>, Lit(4)),
          N("uri", <<"x">>, Lit(1)) }

Expected == { N("dns", <<"www", "a", "t">>, Lit(3)), N("dns", <<"x", "a", "t">>, Lit(3)), N("dns", <<"x", "y", "a", "t">>, Lit(4)),
              N("dns", <<"a", "t">>, Lit(2)), N("dns", <<"", "a", "t">>, Lit(3)), N("dns", <<"wx", "a", "t">>, Lit(3)),
              N("dns", <<"u@x", "a", "t">>, <<"odd", "lit", "lit">>),
              [N("email", <<"a", "t">>, Lit(2)) EXCEPT !.loc = "u", !.locl = "u"], N("ip", <<"1", "2", "3", "4">>, Lit(4)) }

CNs == { N("dns", <<"www", "a", "t">>, Lit(3)), N("dns", <<"*", "a", "t">>, <<"wild", "lit", "lit">>), N("none", <<>>, <<>>) }

SanLists == { <<>> } \cup { <<a>> : a \in Pool } \cup { <<a, b>> : a \in Pool, b \in Pool }
            \cup { <<a, b, c>> : a \in Pool, b \in Pool, c \in {N("dns", <<"*", "a", "t">>, <<"wild", "lit", "lit">>), N("uri", <<"x">>, Lit(1))} }

Init == scen \in [x : Expected, sans : SanLists, cn : CNs]
Next == UNCHANGED scen
Spec == Init /\ [][Next]_scen

Rev(s) == [i \in 1..Len(s) |-> s[Len(s) + 1 - i]]

OrderIndependent == Match(scen.x, scen.sans, scen.cn, TRUE) = Match(scen.x, Rev(scen.sans), scen.cn, TRUE)
CnOnlyWithoutSan == (Match(scen.x, scen.sans, scen.cn, TRUE) /\ \E k \in 1..Len(scen.sans) : SupportedSan(scen.sans[k]))
                        => Match(scen.x, scen.sans, N("none", <<>>, <<>>), TRUE)
WildcardOneLabel == (Match(scen.x, scen.sans, scen.cn, TRUE) /\ scen.x.kind = "dns")
                        => /\ \A i \in 1..Len(scen.x.lab) : scen.x.lab[i] # ""
                           /\ scen.x.lk[1] = "odd" => \/ \E k \in 1..Len(scen.sans) : scen.sans[k].kind = "dns" /\ scen.sans[k].lab = scen.x.lab
                                                      \/ scen.cn.lab = scen.x.lab        \* only literally

(* ---- the option-aware reading against the plain one, over the same universe x every option setting ---- *)
NoName == [N("none", <<>>, <<>>) EXCEPT !.bad = TRUE]
View(x) == [dns |-> IF x.kind = "dns" THEN x ELSE NoName, email |-> IF x.kind = "email" THEN x ELSE NoName, ip |-> IF x.kind = "ip" THEN x ELSE NoName]
KindType(x) == CASE x.kind = "dns" -> "host" [] x.kind = "email" -> "email" [] x.kind = "ip" -> "ip" [] OTHER -> "any"
Opts == [nt : NameTypes, cnalways : BOOLEAN, ci : BOOLEAN]
MO(o) == MatchOpt(View(scen.x), scen.sans, scen.cn, o.nt, o.cnalways, o.ci)
\* with the name type that goes with the kind of the expected name and no flags, MatchOpt is Match
OptAgrees == \A ci \in BOOLEAN : MatchOpt(View(scen.x), scen.sans, scen.cn, KindType(scen.x), FALSE, ci) = Match(scen.x, scen.sans, scen.cn, ci)
\* a narrower name type never matches more than "any"; flags aside, nothing matches under an illegal combination
NarrowerNeverMore == \A o \in Opts : MO(o) => MO([o EXCEPT !.nt = "any"])
IllegalMatchesNothing == \A o \in Opts : ~LegalOpts(o.nt, o.cnalways) => ~MO(o)
\* list order is irrelevant under every option setting
OptOrderIndependent == \A o \in Opts : MO(o) = MatchOpt(View(scen.x), Rev(scen.sans), scen.cn, o.nt, o.cnalways, o.ci)
\* without CnAlways the common name counts only when no supported entry is present - whatever the name type
OptCnOnlyWithoutSan == \A o \in Opts : (~o.cnalways /\ MO(o) /\ \E k \in 1..Len(scen.sans) : SupportedSan(scen.sans[k]))
                                            => MatchOpt(View(scen.x), scen.sans, N("none", <<>>, <<>>), o.nt, o.cnalways, o.ci)
\* vacuity guard (must be violated): CnAlways does make a difference somewhere in the universe
CnAlwaysNeverMatters == \A o \in Opts : MO([o EXCEPT !.cnalways = TRUE]) = MO([o EXCEPT !.cnalways = FALSE]) \/ ~LegalOpts(o.nt, TRUE)
=============================================================================
