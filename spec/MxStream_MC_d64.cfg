SPECIFICATION DOnly
CONSTANTS B = 64
 LB = 8
 MaxMsg = 200
 Chunks <- Chunks64
INVARIANTS TailInv PadInv
CHECK_DEADLOCK FALSE
