SPECIFICATION SigSpec
CONSTANTS
  SigAlgs = {a1, a2, a3}
  KeyCanSign = {a1, a2}
  ServerSignsFromClientListOnly = FALSE
INVARIANT SigBothEnabled
INVARIANT SigNoCommonNoHandshake
CHECK_DEADLOCK FALSE
