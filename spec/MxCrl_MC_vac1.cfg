SPECIFICATION Spec
CONSTANTS
  Certs <- MCCerts
  Crls <- MCCrls
  Anchors <- MCAnchors
  Chains <- MCChains
  MaxSteps = 4
  ReauthAlways = FALSE
  PersistReauth = FALSE
INVARIANT NeverRevoked
CHECK_DEADLOCK FALSE
