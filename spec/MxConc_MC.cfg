SPECIFICATION Spec
CONSTANTS
  Threads = {t1, t2, t3}
  Keys = {k1}
  MaxOps = 3
  KeygenOrder <- OrderAsCoded
INVARIANT MutualExclusion
INVARIANT Serializable
PROPERTY Progress
CHECK_DEADLOCK FALSE
