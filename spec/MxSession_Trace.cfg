SPECIFICATION TraceSpec
INVARIANT DeliverOnlyWhenDone
INVARIANT EncodeGate
INVARIANT LegalCompletion
PROPERTY DeadIsAbsorbing
CHECK_DEADLOCK FALSE
