SPECIFICATION TraceSpec
INVARIANT DeliverOnlyWhenDone
INVARIANT EncodeGate
INVARIANT LegalCompletion
PROPERTY DeadIsAbsorbing
POSTCONDITION TraceAccepted
CHECK_DEADLOCK FALSE
