--------------------------- MODULE MxDtls_Trace ---------------------------
(* Executions of real DTLS endpoints under a datagram schedule (drop / duplicate / swap / delay per datagram,   *)
(* timers, then healing, application data and replays of captured records), judged with the C16 properties:     *)
(*   RecordOnce    a protected record (epoch >= 1) passes the record layer of an endpoint at most once          *)
(*   AppOnce       an application payload reaches the application at most once, and is the peer's               *)
(*   HsMonotone    the handshake state of an endpoint never goes back                                            *)
(*   Completes     once the network stops losing datagrams and timers fire, both endpoints complete and all     *)
(*                 application data sent afterwards arrives                                                      *)
(* The deliver lines carry the DTLS header of the datagram (dep epoch, dsq sequence number), whether it was     *)
(* sealed (wsec), the record-layer pass event of the guarded hook (k = "R"), and what was handed to the          *)
(* application (dlv: stream position in the sender's application data).                                          *)
EXTENDS Naturals, Integers, Sequences, FiniteSets, Json, IOUtils, TLC

VARIABLES l, eps, phase
TraceLog == ndJsonDeserialize(IOEnv.TRACE)
Line == TraceLog[l]

RankC(h) == CASE h = "SERVER_HELLO" -> 0 [] h = "CERTIFICATE" -> 1 [] h = "CERTIFICATE_STATUS" -> 2 [] h = "SERVER_KEY_EXCHANGE" -> 3
              [] h = "CERTIFICATE_REQUEST" -> 4 [] h = "SERVER_HELLO_DONE" -> 5 [] h = "NEW_SESSION_TICKET" -> 6 [] h = "FINISHED" -> 7 [] h = "DONE" -> 8 [] OTHER -> -1
RankS(h) == CASE h = "CLIENT_HELLO" -> 0 [] h = "CERTIFICATE" -> 1 [] h = "CLIENT_KEY_EXCHANGE" -> 2 [] h = "CERTIFICATE_VERIFY" -> 3
              [] h = "FINISHED" -> 7 [] h = "DONE" -> 8 [] OTHER -> -1
Rank(role, h) == IF role = "C" THEN RankC(h) ELSE RankS(h)

HasR(t) == \E i \in 1..Len(t.sub) : t.sub[i].k = "R"
Put(f, k, v) == [x \in DOMAIN f \cup {k} |-> IF x = k THEN v ELSE f[x]]
NewEp(role) == [role |-> role, acc |-> {}, got |-> {}, rank |-> 0, sent |-> 0]

\* every line that shows an endpoint's state
StateOK(t, e) ==
    /\ t.hs # "NOSESSION" => Rank(e.role, t.hs) >= e.rank                                   \* HsMonotone
    /\ (phase = "healed" /\ t.ev = "state") => t.hc = 1 /\ t.err = 0                         \* Completes
    /\ (phase = "final" /\ t.ev = "state") => t.hc = 1 /\ t.err = 0
    /\ (phase = "stormend" /\ t.ev = "state") => t.hc = 1 /\ t.err = 0                       \* lost and replayed records do not end the session
Seen(t, e) == [e EXCEPT !.rank = IF t.hs = "NOSESSION" THEN @ ELSE Rank(e.role, t.hs)]

TNew == /\ l <= Len(TraceLog) /\ Line.ev = "new"
        /\ eps' = Put(eps, Line.ep, NewEp(Line.role))
        /\ UNCHANGED phase /\ l' = l + 1

TDeliver ==
    /\ l <= Len(TraceLog) /\ Line.ev = "deliver" /\ Line.ep \in DOMAIN eps
    /\ LET t == Line
           e == eps[t.ep]
           prot == t.wsec = 1 /\ t.dep >= 1 /\ t.nrec = 1
           key == <<t.dep, t.dsq>>
           poss == {t.dlv[i].pos : i \in 1..Len(t.dlv)}
       IN /\ StateOK(t, e)
          /\ (prot /\ HasR(t)) => key \notin e.acc                                           \* RecordOnce
          /\ \A i \in 1..Len(t.dlv) : t.dlv[i].ok = 1 /\ t.dlv[i].pos \notin e.got           \* AppOnce
          /\ Cardinality(poss) = Len(t.dlv)
          /\ eps' = [eps EXCEPT ![t.ep] = [Seen(t, e) EXCEPT !.acc = IF prot /\ HasR(t) THEN @ \cup {key} ELSE @, !.got = @ \cup poss]]
    /\ UNCHANGED phase /\ l' = l + 1

TSend ==
    /\ l <= Len(TraceLog) /\ Line.ev = "send" /\ Line.ep \in DOMAIN eps
    /\ StateOK(Line, eps[Line.ep])
    /\ phase \in {"healed", "final", "storm"} => Line.accepted = 1
    /\ eps' = [eps EXCEPT ![Line.ep] = [Seen(Line, @) EXCEPT !.sent = @ + (IF Line.accepted = 1 /\ Line.len > 0 THEN 1 ELSE 0)]]
    /\ UNCHANGED phase /\ l' = l + 1

\* after the last exchange every application record sent since the handshake has arrived, exactly once
\* (DTLS: dlv.pos is the index of the record in the sender's sequence of application records)
AllArrived(t) ==
    \A x \in DOMAIN eps : (x # t.ep /\ eps[x].role # eps[t.ep].role) => Cardinality(eps[t.ep].got) = eps[x].sent

TOtherEp ==
    /\ l <= Len(TraceLog) /\ Line.ev \in {"flush", "timeout", "state", "close"} /\ Line.ep \in DOMAIN eps
    /\ StateOK(Line, eps[Line.ep])
    /\ (phase = "final" /\ Line.ev = "state") => AllArrived(Line)
    /\ eps' = [eps EXCEPT ![Line.ep] = Seen(Line, @)]
    /\ UNCHANGED phase /\ l' = l + 1

TMark == /\ l <= Len(TraceLog) /\ Line.ev = "mark"
         /\ phase' = IF Line.tag \in {"healed", "final", "replays", "storm", "stormend"} THEN Line.tag ELSE phase
         /\ UNCHANGED eps /\ l' = l + 1

TDel == /\ l <= Len(TraceLog) /\ Line.ev = "del"
        /\ eps' = [x \in DOMAIN eps \ {Line.ep} |-> eps[x]]
        /\ UNCHANGED phase /\ l' = l + 1

TReset == /\ l <= Len(TraceLog) /\ Line.ev = "Reset" /\ eps' = [x \in {} |-> 0] /\ phase' = "lossy" /\ l' = l + 1

Handled == {"new", "deliver", "send", "flush", "timeout", "state", "close", "mark", "Reset", "del"}
TOther == /\ l <= Len(TraceLog)
          /\ \/ Line.ev \notin Handled
             \/ (Line.ev \in {"deliver", "send", "flush", "timeout", "state", "close"} /\ Line.ep \notin DOMAIN eps)
          /\ UNCHANGED <<eps, phase>> /\ l' = l + 1

TraceNormal == TNew \/ TDeliver \/ TSend \/ TOtherEp \/ TMark \/ TDel \/ TReset \/ TOther

NextEpisode(i) ==
    LET rs == {j \in i..Len(TraceLog) : TraceLog[j].ev = "Reset"} IN
    IF rs = {} THEN Len(TraceLog) + 1 ELSE (CHOOSE j \in rs : \A k \in rs : j <= k)
TReject ==
    /\ l <= Len(TraceLog) /\ ~ENABLED TraceNormal
    /\ PrintT(<<"TRACE_REJECT_LINE", l, <<phase, "-", "-", FALSE, FALSE>> >>)
    /\ l' = NextEpisode(l) /\ UNCHANGED <<eps, phase>>
TDone == /\ l = Len(TraceLog) + 1 /\ PrintT(<<"TRACE_DONE", Len(TraceLog)>>) /\ l' = l + 1 /\ UNCHANGED <<eps, phase>>

TraceSpec == l = 1 /\ eps = [x \in {} |-> 0] /\ phase = "lossy" /\ [][TraceNormal \/ TReject \/ TDone]_<<l, eps, phase>>
=============================================================================
