---------------------------- MODULE MxSession ----------------------------
(***************************************************************************)
(* One MatrixSSL endpoint's handshake / record / closure life, written to  *)
(* be bound to the code: one action per public API interaction, the state  *)
(* alphabet is the code's own (ssl->hsState names), and the handshake       *)
(* state gates are transcribed from sslDecode.c:parseSSLHandshake (the      *)
(* expected-vs-received rule and its exceptions) and                        *)
(* tls13Decode.c:tls13CheckHsState.                                         *)
(*                                                                          *)
(* Decides C01 (delivery/encode gates), C06 (legal message sequence),       *)
(* C15 (dead is absorbing) at model level (MxSession_MC.cfg) and is reused  *)
(* by MxSession_Trace.tla to validate traces recorded from real sessions.   *)
(***************************************************************************)
EXTENDS Naturals, Sequences, FiniteSets, TLC

VARIABLE sess      \* [endpoint name -> endpoint state record]

-----------------------------------------------------------------------------
(* Alphabets *)

Roles == {"C", "S"}

HsMsgs == {"HELLO_REQUEST", "CLIENT_HELLO", "SERVER_HELLO", "HELLO_VERIFY_REQUEST",
           "NEW_SESSION_TICKET", "EOED", "ENCRYPTED_EXTENSIONS", "CERTIFICATE",
           "SERVER_KEY_EXCHANGE", "CERTIFICATE_REQUEST", "SERVER_HELLO_DONE",
           "CERTIFICATE_VERIFY", "CLIENT_KEY_EXCHANGE", "FINISHED", "CERTIFICATE_STATUS"}

\* key-exchange families as the code classifies suites (sslCipherSpec.type)
KxCert   == {"rsa", "ecdh_rsa", "ecdh_ecdsa"}          \* certificate, no ServerKeyExchange
KxCertKe == {"ecdhe_rsa", "ecdhe_ecdsa", "dhe_rsa"}    \* certificate + ServerKeyExchange
KxPsk    == {"psk"}                                    \* plain PSK (ServerKeyExchange optional)
KxPskKe  == {"dhe_psk"}
KxAll    == KxCert \cup KxCertKe \cup KxPsk \cup KxPskKe \cup {"tls13", "null"}

\* negotiated facts that steer the flow; fixed when the hello is processed
Cfg == [kx : KxAll, resumed : BOOLEAN, cauth : BOOLEAN, tick : BOOLEAN,
        psk13 : BOOLEAN, early : BOOLEAN, fam : {"L", "T13"}, dtls : BOOLEAN,
        med : Nat,           \* the server's configured maximum amount of early data (bytes)
        eskip : BOOLEAN,     \* TLS 1.3 server that refused the client's early data: skips undecryptable records (RFC 8446 4.2.10)
        limbo : BOOLEAN,     \* client offered a ticket and ServerHello does not say whether it was taken (RFC 5077 3.4)
        retry : BOOLEAN]     \* retry: this hello is answered by HelloRetryRequest / HelloVerifyRequest

NoCfg == [kx |-> "null", resumed |-> FALSE, cauth |-> FALSE, tick |-> FALSE,
          psk13 |-> FALSE, early |-> FALSE, fam |-> "L", dtls |-> FALSE, med |-> 0, eskip |-> FALSE, limbo |-> FALSE, retry |-> FALSE]

\* why a session is dead
DeadKinds == {"no", "fatalsent", "fatalrcvd", "error", "closed"}

-----------------------------------------------------------------------------
(* The handshake state gate for TLS <= 1.2 / DTLS:                          *)
(* sslDecode.c parseSSLHandshake "hsType != ssl->hsState" block.            *)
(* Returns the state the code dispatches in, or "REJECT".                   *)

GateL(role, hs, m, c, s) ==
    IF m = hs /\ hs \in HsMsgs THEN hs
    \* at most one CertificateRequest (the code's exception does not look at SSL_FLAGS_CLIENT_AUTH;
    \* the specification states the property, see DESIGN.md findings)
    ELSE IF role = "C" /\ m = "CERTIFICATE_REQUEST" /\ hs = "SERVER_HELLO_DONE" /\ ~c.cauth THEN m
    \* RFC 5077 3.3: the ticket precedes ChangeCipherSpec.  (The code's exception at sslDecode.c
    \* "SSL_HS_NEW_SESSION_TICKET ... hsState == SSL_HS_FINISHED" does not look at whether CCS was
    \* already processed; the specification states the property, see DESIGN.md findings.)
    ELSE IF role = "C" /\ m = "NEW_SESSION_TICKET" /\ hs = "FINISHED" /\ c.tick /\ ~s.gotNst /\ s.rd = "none" THEN m
    ELSE IF role = "C" /\ c.kx \in KxPsk /\ m = "SERVER_HELLO_DONE" /\ hs = "SERVER_KEY_EXCHANGE" THEN m
    ELSE IF role = "C" /\ c.dtls /\ m = "HELLO_VERIFY_REQUEST" /\ hs = "SERVER_HELLO" /\ ~s.haveCookie THEN m
    ELSE "REJECT"

(* State reached after the message was processed successfully               *)
(* (the per-message `ssl->hsState = ...` assignments in hsDecode.c).        *)
AfterL(role, st, c) ==
    IF role = "C" THEN
        CASE st = "SERVER_HELLO" ->
                 IF c.resumed THEN "FINISHED"
                 ELSE IF c.kx \in (KxPsk \cup KxPskKe) THEN "SERVER_KEY_EXCHANGE"
                 ELSE "CERTIFICATE"
          [] st = "HELLO_VERIFY_REQUEST" -> "SERVER_HELLO"
          [] st = "CERTIFICATE" ->
                 IF c.kx \in KxCertKe THEN "SERVER_KEY_EXCHANGE" ELSE "SERVER_HELLO_DONE"
          [] st = "SERVER_KEY_EXCHANGE" -> "SERVER_HELLO_DONE"
          [] st = "CERTIFICATE_REQUEST" -> "SERVER_HELLO_DONE"
          [] st = "SERVER_HELLO_DONE" -> "FINISHED"
          [] st = "NEW_SESSION_TICKET" -> "FINISHED"
          [] st = "FINISHED" -> "DONE"
          [] OTHER -> "REJECT"
    ELSE
        CASE st = "CLIENT_HELLO" ->
                 IF c.resumed THEN "FINISHED"
                 ELSE IF c.cauth THEN "CERTIFICATE"
                 ELSE "CLIENT_KEY_EXCHANGE"
          [] st = "CERTIFICATE" -> "CLIENT_KEY_EXCHANGE"
          [] st = "CLIENT_KEY_EXCHANGE" -> IF c.cauth THEN "CERTIFICATE_VERIFY" ELSE "FINISHED"
          [] st = "CERTIFICATE_VERIFY" -> "FINISHED"
          [] st = "FINISHED" -> "DONE"
          [] OTHER -> "REJECT"

(* TLS 1.3: tls13Decode.c tls13CheckHsState *)
Gate13(role, hs, m) ==
    IF    \/ m = "CLIENT_HELLO" /\ hs = "T13_START" /\ role = "S"
          \/ m = "SERVER_HELLO" /\ hs = "T13_WAIT_SH"
          \/ m = "ENCRYPTED_EXTENSIONS" /\ hs = "T13_WAIT_EE"
          \/ m = "CERTIFICATE_REQUEST" /\ hs = "T13_WAIT_CERT_CR"
          \/ m = "CERTIFICATE" /\ hs \in {"T13_WAIT_CERT", "T13_WAIT_CERT_CR"}
          \/ m = "CERTIFICATE_VERIFY" /\ hs = "T13_WAIT_CV"
          \/ m = "EOED" /\ hs = "T13_WAIT_EOED"
          \/ m = "FINISHED" /\ hs = "T13_WAIT_FINISHED"
          \/ role = "C" /\ m = "NEW_SESSION_TICKET" /\ hs \in {"DONE", "T13_WAIT_FINISHED"}
    THEN m ELSE "REJECT"

After13(role, hs, m, c) ==
    IF role = "C" THEN
        CASE m = "SERVER_HELLO" -> "T13_WAIT_EE"
          [] m = "ENCRYPTED_EXTENSIONS" -> IF c.psk13 THEN "T13_WAIT_FINISHED" ELSE "T13_WAIT_CERT_CR"
          [] m = "CERTIFICATE_REQUEST" -> "T13_WAIT_CERT"
          [] m = "CERTIFICATE" -> "T13_WAIT_CV"
          [] m = "CERTIFICATE_VERIFY" -> "T13_WAIT_FINISHED"
          [] m = "FINISHED" -> "DONE"
          [] m = "NEW_SESSION_TICKET" -> hs
          [] OTHER -> "REJECT"
    ELSE
        CASE m = "CLIENT_HELLO" ->
                 IF c.early THEN "T13_WAIT_EOED"
                 ELSE IF c.cauth /\ ~c.psk13 THEN "T13_WAIT_CERT"
                 ELSE "T13_WAIT_FINISHED"
          [] m = "EOED" -> "T13_WAIT_FINISHED"
          [] m = "CERTIFICATE" -> "T13_WAIT_CV"
          [] m = "CERTIFICATE_VERIFY" -> "T13_WAIT_FINISHED"
          [] m = "FINISHED" -> "DONE"
          [] OTHER -> "REJECT"

Is13State(hs) == hs \in {"T13_START", "T13_WAIT_SH", "T13_WAIT_EE", "T13_WAIT_CERT_CR", "T13_WAIT_CERT",
                        "T13_WAIT_CV", "T13_WAIT_EOED", "T13_WAIT_FINISHED", "T13_RECVD_CH",
                        "T13_NEGOTIATED", "T13_SEND_NST", "T13_SEND_FINISHED", "T13_WAIT_FLIGHT_2"}

-----------------------------------------------------------------------------
(* Endpoint state *)

InitSess(role, hs, dtls) ==
    [role |-> role, hs |-> hs, fam |-> IF Is13State(hs) THEN "T13" ELSE "L",
     rd |-> "none", wr |-> "none", cfg |-> [NoCfg EXCEPT !.dtls = dtls],
     dead |-> "no", closing |-> FALSE, done |-> FALSE,
     helloDone |-> FALSE, haveCookie |-> FALSE, gotNst |-> FALSE, retried |-> FALSE,
     skipped |-> 0,                \* early-data records skipped so far (server that refused early data)
     desync |-> FALSE,             \* an incomplete record/message is buffered in front of the input
     tampered |-> FALSE,           \* ghost: the handshake byte stream it saw differs from what the peer sent
     recvSeq |-> <<>>,             \* ghost: handshake/CCS messages accepted, in order
     dlvLog |-> <<>>,              \* ghost: context of every delivery to the application
     sendLog |-> <<>>,             \* ghost: context of every accepted application send
     postDead |-> <<>>]            \* ghost: what happened in calls made after death

Live(s) == s.dead = "no"

ReadSecure(s) == s.rd # "none"

(***************************************************************************)
(* A record as the environment presents it.                                 *)
(*   it     inner (true) content type: "hs","ccs","app","alert","junk"      *)
(*   msg    handshake message name (it = "hs")                              *)
(*   sealed the sender protected it (was write-secure)                      *)
(*   auth   it verifies under the receiver's CURRENT read keys and          *)
(*          sequence number: produced by a holder of the keys (peer or      *)
(*          deviant peer), unmodified, not replayed/reordered               *)
(*   gen    its CONTENT is byte-for-byte what the honest peer sent at this  *)
(*          point of its own run (well formed, transcript agrees)           *)
(*   free   unprotected and not the honest peer's record as sent (injected, *)
(*          header or body edited, re-framed): nothing predicts what the    *)
(*          record layer makes of it, the choice ch below covers all cases  *)
(*   len    size of its payload (only used for the early-data skipping limit) *)
(*   frag   its bytes were edited so that it may be an incomplete record    *)
(*   alvl, adesc  alert level / description (it = "alert")                  *)
(* Choice ch (resolved by the trace, enumerated by the model checker):      *)
(*   "good"   record layer passes it, content parses                        *)
(*   "bad"    record layer passes it, content does not parse / verify       *)
(*   "rlfail" record layer rejects it (bad version/length/type)             *)
(*   "part"   it is an incomplete record or message: buffered, no progress  *)
(*   "encfail" a handshake message is accepted as with "good", but the      *)
(*            endpoint then fails to create its own answering flight (no    *)
(*            usable key or signature algorithm, a signing error): it sends *)
(*            a fatal alert in place of the flight and is dead              *)
(*            (sslEncode.c flightEncode, sslDecode.c / tls13Decode.c        *)
(*            encodeResponse)                                               *)
(***************************************************************************)
RecTypes == {"hs", "ccs", "app", "alert", "junk"}
Choices == {"good", "bad", "rlfail", "part", "encfail"}


(* How the record layer classifies the record. *)
Verdict(s, r) ==
    IF ~ReadSecure(s) THEN
        IF r.sealed THEN "garbage"      \* ciphertext read as plaintext
        ELSE IF s.fam = "T13" /\ r.it = "ccs" THEN "ignore"   \* the TLS 1.3 decoder ignores CCS at any time
        ELSE "plain"
    ELSE
        IF r.sealed /\ r.auth THEN "ok"
        ELSE IF s.fam = "T13" /\ ~r.sealed /\ r.it = "ccs" THEN "ignore"       \* RFC 8446 5: CCS ignored
        ELSE IF s.fam = "T13" /\ ~r.sealed /\ r.it = "alert" THEN "plainalert" \* tls13Decode: short alert read as plaintext
        ELSE "bad"

Kill(s, why) == [s EXCEPT !.dead = why]

\* rpass: the record passed the record layer (header checks and, if protected, authentication)
\* loose: the code sees a re-framing of the bytes that the environment cannot describe message by
\*        message (incomplete or desynchronised records); gate/accept/record events are then not predicted,
\*        only the outcome (still waiting, or dead) is
Result(s2, gate, acc, ndlv, alertOut, rpass) ==
    [next |-> s2, gate |-> gate, acc |-> acc, ndlv |-> ndlv, alertOut |-> alertOut, rpass |-> rpass, loose |-> FALSE,
     gateOpt |-> FALSE]      \* gateOpt: the message may be refused as malformed before it reaches the state gate

Fatal(s, gate) == Result(Kill(s, "fatalsent"), gate, <<>>, 0, TRUE, TRUE)

RecvHs(s, r, c, ch) ==
    LET m == r.msg
        isHello == (m = "SERVER_HELLO" /\ s.role = "C") \/ (m = "CLIENT_HELLO" /\ s.role = "S")
        \* the family can change only when the hello is processed (1.3-capable endpoint negotiating <= 1.2)
        fam2 == IF isHello /\ ~s.helloDone THEN c.fam ELSE s.fam
        hsL  == IF s.hs = "T13_WAIT_SH" THEN "SERVER_HELLO"
                ELSE IF s.hs = "T13_START" THEN "CLIENT_HELLO" ELSE s.hs
        cc   == IF isHello /\ ~s.helloDone THEN c ELSE s.cfg
        g    == IF fam2 = "T13" THEN Gate13(s.role, s.hs, m) ELSE GateL(s.role, hsL, m, cc, s)
        good == ch = "good"
    IN
    IF s.hs = "DONE" /\ s.fam = "L" /\ ((s.role = "S" /\ m = "CLIENT_HELLO") \/ (s.role = "C" /\ m = "HELLO_REQUEST")) THEN
        \* renegotiation is compiled out: refused with a no_renegotiation WARNING, the session lives on
        \* (sslDecode.c "If all rehandshaking is disabled, just catch that here and alert")
        Result(s, <<>>, <<>>, 0, FALSE, TRUE)
    ELSE IF s.hs = "DONE" /\ s.fam = "L" /\ s.role = "C" /\ m = "CLIENT_HELLO" THEN
        \* the gate's `hsType == CLIENT_HELLO && hsState == DONE` escape is not restricted to servers: the
        \* message passes the gate on a client too; it must never be accepted
        Fatal(s, <<m>>)
    ELSE IF g = "REJECT" \/ (s.hs = "DONE" /\ s.fam = "L") THEN
        Fatal(s, <<>>)                   \* out of order: unexpected_message
    ELSE IF ~good THEN
        \* the body does not parse / verify (a malformed header is refused even before the gate)
        [Fatal(s, <<m>>) EXCEPT !.gateOpt = ~r.gen]
    ELSE IF m = "FINISHED" /\ (s.tampered \/ ~r.gen) THEN
        Fatal(s, <<m>>)                  \* Finished is checked against the receiver's own transcript
    ELSE IF m = "FINISHED" /\ fam2 = "L" /\ ~ReadSecure(s) THEN
        Fatal(s, <<m>>)                  \* Finished requires an activated read cipher
    ELSE IF isHello /\ s.retried /\ ~s.cfg.dtls /\ c.fam # "T13" THEN
        Fatal(s, <<m>>)                  \* RFC 8446 4.1.4: after a HelloRetryRequest the version may not change
    ELSE IF isHello /\ ~s.helloDone /\ c.retry THEN
        \* HelloRetryRequest (TLS 1.3) / HelloVerifyRequest (DTLS server): the hello is consumed, the
        \* endpoint stays where it was and expects a second hello; allowed once
        \* (a DTLS server answers every cookie-less hello statelessly, any number of times)
        IF s.retried /\ ~s.cfg.dtls THEN Fatal(s, <<m>>)
        ELSE Result([s EXCEPT !.retried = TRUE,
                              \* what the first hello said about early data stays known (skipping, see AllowedChoicesBase)
                              !.cfg = [s.cfg EXCEPT !.eskip = c.eskip, !.med = c.med],
                              !.recvSeq = IF s.retried THEN s.recvSeq ELSE Append(s.recvSeq, m),
                              \* RFC 6347 4.2.1: the cookie-less ClientHello and the HelloVerifyRequest are not part of
                              \* the transcript - a modified first hello does not spoil the DTLS handshake; a TLS 1.3
                              \* ClientHello1 is part of it (message_hash)
                              !.tampered = s.tampered \/ (~r.gen /\ ~s.cfg.dtls)], <<m>>, <<m>>, 0, FALSE, TRUE)
    ELSE
        LET hs2 == IF fam2 = "T13" THEN After13(s.role, s.hs, m, cc) ELSE AfterL(s.role, g, cc)
            rd2 == IF fam2 = "T13" THEN
                      (CASE m = "SERVER_HELLO" -> "hs"
                         [] m = "CLIENT_HELLO" -> IF cc.early THEN "early" ELSE "hs"
                         [] m = "EOED" -> "hs"
                         [] m = "FINISHED" -> "app"
                         [] OTHER -> s.rd)
                   ELSE s.rd
            wr2 == IF fam2 = "T13" THEN
                      (CASE m = "CLIENT_HELLO" -> "app"       \* server: app write keys right after its Finished
                         [] m = "FINISHED" -> "app"
                         [] OTHER -> s.wr)
                   ELSE IF hs2 = "FINISHED" /\ (s.role = "C" \/ cc.resumed) THEN "sec"   \* own CCS+Finished flight
                   ELSE IF hs2 = "DONE" THEN "sec"
                   ELSE s.wr
            cc2 == [cc EXCEPT !.cauth = cc.cauth \/ (s.role = "C" /\ m = "CERTIFICATE_REQUEST"), !.retry = FALSE,
                              !.limbo = cc.limbo /\ isHello]
            s2 == [s EXCEPT !.hs = hs2, !.fam = fam2, !.cfg = cc2, !.rd = rd2, !.wr = wr2,
                            !.helloDone = s.helloDone \/ isHello,
                            !.haveCookie = s.haveCookie \/ (m = "HELLO_VERIFY_REQUEST"),
                            !.gotNst = s.gotNst \/ (m = "NEW_SESSION_TICKET"),
                            !.tampered = s.tampered \/ (~r.gen /\ ~s.done),  \* post-handshake messages are not transcript
                            !.done = (hs2 = "DONE"),
                            \* TLS 1.3 NewSessionTicket is a post-handshake message (any number, not transcript)
                            !.recvSeq = IF s.done \/ (fam2 = "T13" /\ m = "NEW_SESSION_TICKET")
                                        THEN s.recvSeq ELSE Append(s.recvSeq, m)]
        IN Result(s2, <<m>>, <<m>>, 0, FALSE, TRUE)

RecvCcs(s, r, ch) ==
    IF s.fam = "T13" THEN Result(s, <<>>, <<>>, 0, FALSE, TRUE)       \* ignored
    ELSE IF ~(r.gen \/ ch = "good") THEN Fatal(s, <<>>)               \* malformed body
    ELSE IF s.hs = "FINISHED" /\ ~ReadSecure(s) THEN
        \* (ChangeCipherSpec is not a handshake message: not in the transcript)
        Result([s EXCEPT !.rd = "sec", !.recvSeq = Append(s.recvSeq, "CCS")], <<>>, <<>>, 0, FALSE, TRUE)
    ELSE IF s.role = "C" /\ s.cfg.limbo /\ ~ReadSecure(s) /\ s.hs \in {"CERTIFICATE", "SERVER_KEY_EXCHANGE"} THEN
        \* sslDecode.c "SESS_TICKET_STATE_IN_LIMBO": the server took the ticket without saying so; its
        \* ChangeCipherSpec right after ServerHello is the first sign that this is a resumed handshake
        Result([s EXCEPT !.rd = "sec", !.hs = "FINISHED", !.wr = "sec",
                         !.cfg = [s.cfg EXCEPT !.resumed = TRUE, !.limbo = FALSE],
                         !.recvSeq = Append(s.recvSeq, "CCS")], <<>>, <<>>, 0, FALSE, TRUE)
    ELSE Fatal(s, <<>>)

(* sslDecode.c:1648-1664, tls13Decode.c:457-487 *)
MayDeliver(s) ==
    \/ s.hs = "DONE" /\ ReadSecure(s)
    \/ s.fam = "T13" /\ s.role = "S" /\ s.hs = "T13_WAIT_EOED" /\ s.rd = "early" /\ s.cfg.early

RecvApp(s, r, v) ==
    IF v = "ok" /\ MayDeliver(s) THEN
        Result([s EXCEPT !.dlvLog = Append(s.dlvLog,
                   [hs |-> s.hs, rd |-> s.rd, done |-> s.done, gen |-> r.gen, auth |-> r.auth])],
               <<>>, <<>>, 1, FALSE, TRUE)
    ELSE Fatal(s, <<>>)

\* rp: whether the record went through the record-protection stage (the TLS 1.3 plaintext-alert
\* shortcut does not)
RecvAlert(s, r, ch, rp) ==
    IF ~(r.gen \/ ch = "good") THEN Result(Kill(s, "fatalsent"), <<>>, <<>>, 0, TRUE, rp)   \* malformed alert
    ELSE IF r.adesc = 0 THEN Result(Kill(s, "closed"), <<>>, <<>>, 0, FALSE, rp)
    \* RFC 8446 6: in TLS 1.3 every alert other than close_notify ends the connection
    ELSE IF r.alvl = 2 \/ s.fam = "T13" THEN Result(Kill(s, "fatalrcvd"), <<>>, <<>>, 0, FALSE, rp)
    ELSE Result(s, <<>>, <<>>, 0, FALSE, rp)                 \* warning: reported, session lives

Dispatch(s, r, c, ch, v) ==
    CASE r.it = "hs" -> RecvHs(s, r, c, ch)
      [] r.it = "ccs" -> RecvCcs(s, r, ch)
      [] r.it = "app" -> RecvApp(s, r, v)
      \* tls13Decode.c handles an alert record shorter than 2 + tag before record protection
      [] r.it = "alert" -> RecvAlert(s, r, ch, ~(s.fam = "T13" /\ ~r.sealed))
      [] OTHER -> Fatal(s, <<>>)

\* the record (or the message in it) is incomplete: it is buffered; from now on the byte stream and the
\* environment's idea of record boundaries disagree (desync) - nothing may ever be accepted from it
Pending(s, rpass) ==
    [Result([s EXCEPT !.desync = TRUE, !.tampered = s.tampered \/ ~s.done], <<>>, <<>>, 0, FALSE, rpass) EXCEPT !.loose = TRUE]

\* a TLS 1.3 server between its HelloRetryRequest and the second ClientHello, whose first ClientHello offered early data:
\* it has no read keys and drops what arrives as application_data records, within the configured amount (RFC 8446 4.2.10)
HrrEarlyWindow(s, r) == s.cfg.eskip /\ s.role = "S" /\ s.retried /\ ~s.helloDone /\ ~s.cfg.dtls /\ r.otype = 23 /\ s.skipped + r.len <= s.cfg.med

\* which choices make sense for this record in this state
AllowedChoicesBase(s, r) ==
    LET v == Verdict(s, r) IN
    \* DTLS: a datagram that is incomplete, duplicated, out of order or fails authentication may be
    \* discarded silently (RFC 6347 4.1.2.7); "part" stands for that on DTLS sessions
    IF s.cfg.dtls THEN (IF r.gen /\ ~r.free THEN (IF r.it = "hs" THEN {"good", "bad", "part"} ELSE {"good", "part"}) ELSE Choices)
    ELSE IF s.desync THEN {"rlfail", "part"}
    ELSE IF v = "bad" THEN (IF r.frag THEN {"good", "part"} ELSE {"good"}) \cup
                          \* C15's only tolerated undecryptable records: a TLS 1.3 server that refused early data skips
                          \* them until the client's handshake flight arrives, within the configured limit
                          (IF s.cfg.eskip /\ s.role = "S" /\ ~s.done /\ s.skipped + r.len <= s.cfg.med THEN {"skip"} ELSE {})
    ELSE IF v \in {"ignore", "plainalert"} THEN (IF r.gen THEN {"good"} ELSE IF r.frag THEN {"good", "bad", "part"} ELSE {"good", "bad"})
    \* a well-formed genuine handshake message can still be refused on its merits (empty or untrusted
    \* certificate, unacceptable parameters): "bad" stays possible for handshake messages
    ELSE IF v = "ok" THEN (IF r.gen /\ r.it # "hs" THEN {"good"} ELSE {"good", "bad"})
    \* ... and a TLS 1.3 server that answered a ClientHello offering early data with HelloRetryRequest skips the early data
    \* already on its way (application_data records arriving before the second ClientHello, while it has no read keys)
    ELSE IF v = "garbage" THEN {"rlfail", "part", "bad"} \cup (IF HrrEarlyWindow(s, r) THEN {"skip"} ELSE {})
    \* (a record of the attacker's own making that looks like application data falls under the same skipping)
    ELSE IF r.free THEN Choices \cup (IF HrrEarlyWindow(s, r) THEN {"skip"} ELSE {})
    ELSE IF r.it = "hs" THEN {"good", "bad"}
    ELSE {"good"}

AllowedChoices(s, r) ==
    LET b == AllowedChoicesBase(s, r) \ {"encfail"} IN
    b \cup (IF r.it = "hs" /\ "good" \in b /\ ~s.done THEN {"encfail"} ELSE {})

(* One record handed to a live endpoint. *)
RecvBase(s, r, c, ch) ==
    LET v == Verdict(s, r) IN
    IF s.cfg.dtls /\ ch = "part" THEN
        [Result(s, <<>>, <<>>, 0, FALSE, FALSE) EXCEPT !.loose = TRUE]      \* datagram discarded
    ELSE IF s.desync THEN
        \* leftovers of an incomplete record are in front of it: dies or keeps waiting
        IF ch = "part" THEN Pending(s, FALSE)
        ELSE [Result(Kill(s, "fatalsent"), <<>>, <<>>, 0, TRUE, FALSE) EXCEPT !.loose = TRUE]
    ELSE
    CASE v \in {"ignore", "plainalert"} /\ ch = "part" -> Pending(s, FALSE)
      [] v = "ignore" -> IF r.gen \/ ch = "good" THEN Result(s, <<>>, <<>>, 0, FALSE, FALSE)
                         ELSE Result(Kill(s, "fatalsent"), <<>>, <<>>, 0, TRUE, FALSE)   \* CCS body not 0x01
      [] v = "plainalert" -> RecvAlert(s, r, ch, FALSE)
      [] v = "bad" ->
           \* fails authentication: TLS dies with a fatal alert; DTLS may also silently discard.
           \* (a record whose length field was raised is simply incomplete: the endpoint waits)
           IF ch = "part" THEN Pending(s, FALSE)
           ELSE IF ch = "skip" THEN Result([s EXCEPT !.skipped = s.skipped + r.len], <<>>, <<>>, 0, FALSE, FALSE)
           ELSE Result(Kill(s, "fatalsent"), <<>>, <<>>, 0, TRUE, FALSE)
      [] v = "garbage" ->
           IF ch = "part" THEN Pending(s, FALSE)
           \* early data behind a HelloRetryRequest: no keys yet, the record is taken as it comes (passes the record layer) and dropped
           ELSE IF ch = "skip" THEN Result([s EXCEPT !.skipped = s.skipped + r.len], <<>>, <<>>, 0, FALSE, TRUE)
           ELSE Result(Kill(s, "fatalsent"), <<>>, <<>>, 0, TRUE, ch = "bad")
      [] v = "plain" /\ r.free /\ ch = "rlfail" -> Result(Kill(s, "fatalsent"), <<>>, <<>>, 0, TRUE, FALSE)
      [] v = "plain" /\ r.free /\ ch = "part" -> Pending(s, FALSE)
      [] v = "plain" /\ r.free /\ ch = "skip" -> Result([s EXCEPT !.skipped = s.skipped + r.len], <<>>, <<>>, 0, FALSE, TRUE)
      [] OTHER -> Dispatch(s, r, c, ch, v)

Recv(s, r, c, ch) ==
    IF ch # "encfail" THEN RecvBase(s, r, c, ch)
    ELSE LET g == RecvBase(s, r, c, "good") IN
         IF ~Live(g.next) \/ g.loose THEN g
         ELSE [g EXCEPT !.next = Kill(g.next, "fatalsent"), !.alertOut = TRUE, !.ndlv = 0]

(* Anything handed to a dead endpoint: nothing happens (C15). *)
RecvDead(s) ==
    Result([s EXCEPT !.postDead = Append(s.postDead, "recv")], <<>>, <<>>, 0, FALSE, FALSE)

-----------------------------------------------------------------------------
(* Application-side actions *)

\* ce / se: the session has TLS 1.3 early data enabled (client: it holds a resumption PSK that allows it;
\* server: it accepted the client's early data) - tls13Encode.c isGoodStateForAppDataEncrypt
MaySend(s, ce, se) ==
    /\ Live(s) /\ ~s.closing
    /\ \/ s.hs = "DONE"
       \/ s.fam = "T13" /\ s.role = "C" /\ ce /\ s.hs \in {"T13_WAIT_SH", "T13_WAIT_EE", "T13_WAIT_FINISHED", "T13_WAIT_CERT_CR", "T13_WAIT_CERT", "T13_WAIT_CV"}
       \/ s.fam = "T13" /\ s.role = "S" /\ se /\ s.hs \in {"T13_WAIT_EOED", "T13_WAIT_FINISHED"}

AppSend(s, ce, se) ==
    IF MaySend(s, ce, se) THEN [s EXCEPT !.sendLog = Append(s.sendLog, [hs |-> s.hs, wr |-> s.wr, dead |-> s.dead])]
    ELSE s

Close(s) == [s EXCEPT !.closing = TRUE]

-----------------------------------------------------------------------------
(* Properties (over the ghost logs; stated independently of the actions).  *)

\* C01: plaintext reaches the application only after the endpoint's own handshake completed
\* (or as accepted TLS 1.3 early data), and only from records authenticated under its keys.
DeliverOnlyWhenDone ==
    \A e \in DOMAIN sess :
        \A i \in 1..Len(sess[e].dlvLog) :
            LET d == sess[e].dlvLog[i] IN
            /\ d.auth
            /\ d.rd # "none"
            /\ (d.hs = "DONE" /\ d.done) \/ (d.hs = "T13_WAIT_EOED" /\ d.rd = "early")

\* C01: application data is encrypted only after completion (or as client early data)
EncodeGate ==
    \A e \in DOMAIN sess :
        \A i \in 1..Len(sess[e].sendLog) :
            LET d == sess[e].sendLog[i] IN
            /\ d.dead = "no"
            /\ d.hs = "DONE" \/ d.hs \in {"T13_WAIT_SH", "T13_WAIT_EE", "T13_WAIT_FINISHED", "T13_WAIT_CERT_CR", "T13_WAIT_CERT", "T13_WAIT_CV", "T13_WAIT_EOED"}

\* C06: the legal handshake/CCS sequences, written from the RFC message flows
\* (RFC 5246 7.3, RFC 5077 3.1, RFC 4279, RFC 6347 4.2, RFC 8446 2) and NOT from the gate tables above.
LegalSeqs(role, c, retried) ==
    IF c.fam = "T13" THEN
        IF role = "C" THEN
            LET auth == IF c.psk13 THEN {<<>>}
                        ELSE {<<"CERTIFICATE", "CERTIFICATE_VERIFY">>,
                              <<"CERTIFICATE_REQUEST", "CERTIFICATE", "CERTIFICATE_VERIFY">>}
                pre  == IF retried THEN <<"SERVER_HELLO">> ELSE <<>>
            IN { pre \o <<"SERVER_HELLO", "ENCRYPTED_EXTENSIONS">> \o a \o <<"FINISHED">> : a \in auth }
        ELSE
            LET auth == IF c.cauth /\ ~c.psk13 THEN {<<"CERTIFICATE", "CERTIFICATE_VERIFY">>} ELSE {<<>>}
                eo   == IF c.early THEN <<"EOED">> ELSE <<>>
                pre  == IF retried THEN <<"CLIENT_HELLO">> ELSE <<>>
            IN { pre \o <<"CLIENT_HELLO">> \o eo \o a \o <<"FINISHED">> : a \in auth }
    ELSE
        IF role = "C" THEN
            LET hvr  == IF c.dtls THEN {<<>>, <<"HELLO_VERIFY_REQUEST">>} ELSE {<<>>}
                nst  == IF c.tick THEN {<<>>, <<"NEW_SESSION_TICKET">>} ELSE {<<>>}
                body == IF c.resumed THEN {<<>>}
                        ELSE LET cert == IF c.kx \in (KxCert \cup KxCertKe) THEN <<"CERTIFICATE">> ELSE <<>>
                                 ske  == IF c.kx \in (KxCertKe \cup KxPskKe) THEN {<<"SERVER_KEY_EXCHANGE">>}
                                         ELSE IF c.kx \in KxPsk THEN {<<>>, <<"SERVER_KEY_EXCHANGE">>}
                                         ELSE {<<>>}
                                 cr   == IF c.cauth THEN <<"CERTIFICATE_REQUEST">> ELSE <<>>
                             IN { cert \o k \o cr \o <<"SERVER_HELLO_DONE">> : k \in ske }
            IN { h \o <<"SERVER_HELLO">> \o b \o n \o <<"CCS", "FINISHED">> : h \in hvr, b \in body, n \in nst }
        ELSE
            LET ch   == IF c.dtls /\ retried THEN {<<"CLIENT_HELLO", "CLIENT_HELLO">>} ELSE {<<"CLIENT_HELLO">>}
                body == IF c.resumed THEN <<>>
                        ELSE (IF c.cauth THEN <<"CERTIFICATE">> ELSE <<>>) \o <<"CLIENT_KEY_EXCHANGE">> \o
                             (IF c.cauth THEN <<"CERTIFICATE_VERIFY">> ELSE <<>>)
            IN { h \o body \o <<"CCS", "FINISHED">> : h \in ch }

LegalCompletion ==
    \A e \in DOMAIN sess :
        LET s == sess[e] IN
        s.done =>
            /\ ~s.tampered
            /\ s.recvSeq \in LegalSeqs(s.role, s.cfg, s.retried)

\* C15: once dead, a session stays dead: nothing more is delivered, sent or accepted, and the
\* handshake state no longer moves.
DeadAbsorbingAct ==
    \A e \in DOMAIN sess :
        (e \in DOMAIN sess' /\ sess[e].dead # "no") =>
            /\ sess'[e].dead = sess[e].dead
            /\ sess'[e].dlvLog = sess[e].dlvLog
            /\ sess'[e].sendLog = sess[e].sendLog
            /\ sess'[e].recvSeq = sess[e].recvSeq
            /\ sess'[e].hs = sess[e].hs
            /\ sess'[e].done = sess[e].done

DeadIsAbsorbing == [][DeadAbsorbingAct]_sess

=============================================================================
