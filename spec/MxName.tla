------------------------------ MODULE MxName ------------------------------
(***************************************************************************)
(* Expected-name matching (C05), written from the property statement.      *)
(* A name is [kind, lab, lk, loc, bad, tdot]:                                *)
(*   kind  "dns" | "email" | "ip" | "uri"                                    *)
(*   lab   the labels of the host part, lower-cased (dns: the whole name;    *)
(*         email: the domain; ip: the four octets as strings)                *)
(*   lk    per label: "lit" (no '*'), "odd" (no DNS label: contains '@'),    *)
(*         "wild" (exactly "*"), "part" ('*'                                 *)
(*         mixed with other characters)                                      *)
(*   loc   local part of an e-mail address, verbatim ("" otherwise)          *)
(*   bad   contains NUL / control characters / is not a well-formed name     *)
(*   tdot  written with a trailing dot                                       *)
(*   tnul  (subjectAltName entries only) written with ONE terminating zero   *)
(*         byte.  CStringSan, a deliberate behaviour of the library: such an *)
(*         entry is read as the C string before the zero byte, so lab/lk/bad *)
(*         describe the name without it.  Any other NUL (embedded, doubled)  *)
(*         sets bad.                                                         *)
(***************************************************************************)
EXTENDS Naturals, Sequences, FiniteSets, TLC

Lower(s) == s      \* local parts are compared verbatim here; the case-insensitive reading is applied by the caller

\* certificate pattern p against expected host x
DnsEq(p, x) ==
    /\ ~p.bad /\ ~x.bad
    /\ Len(p.lab) = Len(x.lab) /\ Len(p.lab) >= 1
    /\ \A i \in 1..Len(x.lab) : x.lk[i] \in {"lit", "odd"} /\ x.lab[i] # "" \* an expected host has no wildcard and no empty label
    /\ \A i \in 2..Len(p.lab) : p.lk[i] = "lit" /\ p.lab[i] = x.lab[i]     \* wildcard only in the left-most label
    /\ \/ p.lk[1] = "lit" /\ p.lab[1] = x.lab[1]
       \/ p.lk[1] = "wild" /\ Len(p.lab) >= 2 /\ x.lk[1] = "lit"           \* "*" stands for exactly one (non-empty) DNS label
                                                                            \* ("odd": e.g. "user@mail" is not one)

EmailEq(p, x, ci) ==
    /\ ~p.bad /\ ~x.bad
    /\ p.lab = x.lab /\ \A i \in 1..Len(p.lab) : p.lk[i] = "lit"
    /\ IF ci THEN p.locl = x.locl ELSE p.loc = x.loc

IpEq(p, x) == ~p.bad /\ ~x.bad /\ p.lab = x.lab

SupportedSan(s) == s.kind \in {"dns", "email", "ip"}

\* ci: e-mail local parts compared case-insensitively (the statement's reading) or verbatim (RFC 5280 / the code's default)
Match(x, sans, cn, ci) ==
    \/ \E k \in 1..Len(sans) :
          /\ sans[k].kind = x.kind
          /\ CASE x.kind = "dns" -> DnsEq(sans[k], x)
               [] x.kind = "email" -> EmailEq(sans[k], x, ci)
               [] x.kind = "ip" -> IpEq(sans[k], x)
               [] OTHER -> FALSE
    \/ /\ x.kind = "dns"
       /\ ~\E k \in 1..Len(sans) : SupportedSan(sans[k])
       /\ cn.kind = "dns" /\ DnsEq(cn, x)

\* the matching result does not depend on the position of entries in the list (checked on the universe of MxName_MC)

(* ------------------------------------------------------------------ validation options *)
(* matrixValidateCertsOptions_t as the application sets it (session options or a direct call):                     *)
(*   nt        nameType: "any" (legacy default: every supported field), "host" (dNSName and CN), "cn", "dns",       *)
(*             "email", "ip"                                                                                        *)
(*   cnalways  VCERTS_MFLAG_ALWAYS_CHECK_SUBJECT_CN - CnAlways, a documented override of the statement's            *)
(*             "common name only without a supported subjectAltName" (RFC 6125 6.4.4)                                *)
(*   ci        VCERTS_MFLAG_SAN_EMAIL_CASE_INSENSITIVE_LOCAL_PART                                                    *)
(* cnalways together with a SAN-only name type is an illegal combination: the validation call is refused, and a     *)
(* refused validation authenticates nobody.                                                                          *)
(* The expected string is given as v = [dns, email, ip]: the same bytes read as a name of each kind (under "any"    *)
(* the library compares it with entries of every kind).                                                              *)
NameTypes == {"any", "host", "cn", "dns", "email", "ip"}
AllowDns(nt) == nt \in {"any", "host", "dns"}
AllowEmail(nt) == nt \in {"any", "email"}
AllowIp(nt) == nt \in {"any", "ip"}
AllowCn(nt) == nt \in {"any", "host", "cn"}
LegalOpts(nt, cnalways) == cnalways => nt \in {"any", "host", "cn"}

MatchOpt(v, sans, cn, nt, cnalways, ci) ==
    /\ LegalOpts(nt, cnalways)
    /\ \/ \E k \in 1..Len(sans) :
             \/ sans[k].kind = "dns" /\ AllowDns(nt) /\ DnsEq(sans[k], v.dns)
             \/ sans[k].kind = "email" /\ AllowEmail(nt) /\ EmailEq(sans[k], v.email, ci)
             \/ sans[k].kind = "ip" /\ AllowIp(nt) /\ IpEq(sans[k], v.ip)
       \/ /\ AllowCn(nt)
          /\ cnalways \/ ~\E k \in 1..Len(sans) : SupportedSan(sans[k])     \* a supported entry blocks the CN whatever nt selects
          /\ cn.kind = "dns" /\ DnsEq(cn, v.dns)
=============================================================================
