SPECIFICATION Spec
CONSTANTS
  MaxDrops = 2
  MaxDups = 2
  MaxTimeouts = 2
  MaxApp = 1
INVARIANT NeverApp
CHECK_DEADLOCK FALSE
