------------------------- MODULE MxSession_Trace -------------------------
(* Trace validation: every line recorded by harness/mxdrive.c from real MatrixSSL sessions must   *)
(* be explained by an action of MxSession; the ghost logs are rebuilt on the way so that the      *)
(* properties (C01, C06, C15) are evaluated in every state of every recorded execution.           *)
EXTENDS MxSession, Json, IOUtils, Integers

VARIABLE l          \* next line of the trace to consume

TraceLog == ndJsonDeserialize(IOEnv.TRACE)

Line == TraceLog[l]

IsEvent(names) == l <= Len(TraceLog) /\ Line.ev \in names /\ l' = l + 1

-----------------------------------------------------------------------------
(* Reading a trace line *)

\* A 1.3-capable endpoint that negotiates <= 1.2 decodes the hello record twice (TLS 1.3 path, then
\* the legacy path): each decode attempt starts with an "R" event, the last attempt is the effective one.
LastR(t) == LET idx == {i \in 1..Len(t.sub) : t.sub[i].k = "R"} IN
            IF idx = {} THEN 0 ELSE CHOOSE i \in idx : \A j \in idx : j <= i
LastSeg(t) == SubSeq(t.sub, LastR(t) + 1, Len(t.sub))
Gates(t) == LET q == SelectSeq(LastSeg(t), LAMBDA x : x.k = "G") IN [i \in 1..Len(q) |-> q[i].t]
Accs(t)  == LET q == SelectSeq(LastSeg(t), LAMBDA x : x.k = "A" /\ x.x = 0) IN [i \in 1..Len(q) |-> q[i].t]
Sealed(t, ty) == SelectSeq(t.sub, LAMBDA x : x.k = "S" /\ x.t = ty)

\* a fatal alert was encoded during this call (level 2, or any description other than close_notify/user_canceled at level 2)
FatalSealed(t) == \E i \in 1..Len(t.sub) : t.sub[i].k = "S" /\ t.sub[i].t = "21" /\ t.sub[i].n = 2
CloseSealed(t) == \E i \in 1..Len(t.sub) : t.sub[i].k = "S" /\ t.sub[i].t = "21" /\ t.sub[i].x = 0 /\ t.sub[i].n # 2

ITypeOf(t) == CASE t.itype = 22 -> "hs" [] t.itype = 20 -> "ccs" [] t.itype = 23 -> "app"
                [] t.itype = 21 -> "alert" [] OTHER -> "junk"

HasR(t) == \E i \in 1..Len(t.sub) : t.sub[i].k = "R"

\* origin: 0 genuine, 1 body modified, 2 injected, 3 forged with keys, 4 replayed copy, 5 reflected,
\*         6 re-framed (record boundaries only), 7 record header modified
RecOf(t) ==
    [it     |-> ITypeOf(t),
     otype  |-> t.rtype,            \* the content type octet of the record header as delivered
     msg    |-> IF t.imsg \in HsMsgs THEN t.imsg ELSE "HELLO_REQUEST",
     sealed |-> t.wsec = 1,
     auth   |-> t.auth = 1,
     gen    |-> IF t.wsec = 1 THEN t.auth = 1 /\ t.origin \in {0, 4}
                ELSE t.origin \in {0, 4, 6, 7} /\ t.itype # -1,   \* a replayed copy carries the peer's own bytes
     free   |-> t.wsec = 0 /\ t.origin \notin {0, 4},
     frag   |-> t.origin \in {1, 2, 7},
     len    |-> IF t.bytes > 22 THEN t.bytes - 22 ELSE 0,     \* 5 header + 16 tag + 1 inner type
     alvl   |-> IF t.alvl >= 0 THEN t.alvl ELSE 1,
     adesc  |-> IF t.adesc >= 0 THEN t.adesc ELSE 10]

TicketAcked == 3      \* SESS_TICKET_STATE_RECVD_EXT (enum sessionTicketState_e, USE_EAP_FAST off)

CfgOf(t, s) ==
    [kx      |-> IF t.kx \in KxAll THEN t.kx ELSE "null",
     resumed |-> t.resumed = 1,
     cauth   |-> s.role = "S" /\ t.cauth = 1,
     tick    |-> s.role = "C" /\ t.tick = TicketAcked,
     psk13   |-> t.psk13 = 1,
     early   |-> t.hs = "T13_WAIT_EOED",
     fam     |-> IF t.ver = "T13" THEN "T13" ELSE "L",
     dtls    |-> s.cfg.dtls,
     eskip   |-> s.role = "S" /\ t.ver = "T13" /\ t.ged = 1 /\ t.se = 0,
     med     |-> t.med,
     \* SESS_TICKET_STATE_IN_LIMBO - and only a client that put a ticket (not the empty extension) into its ClientHello
     \* can be in doubt about it: what it sent is taken from its state right after the ClientHello was written
     \* ... and if it also sent a session id, a server that takes the ticket must echo it (RFC 5077 3.4): no echo, no doubt
     limbo   |-> s.role = "C" /\ t.tick = 4 /\ s.offered /\ (~s.offeredId \/ t.resumed = 1),
     retry   |-> t.hs = s.hs]

ObsDead(t, s) == t.err = 1 \/ t.closed = 1 \/ FatalSealed(t) \/ t.rc = "Error" \/ s.dead # "no"

-----------------------------------------------------------------------------
(* Matching the outcome of a receive call *)

MatchRecv(t, s, r, res) ==
    LET n == res.next IN
    /\ ~res.loose => (Gates(t) = res.gate \/ (res.gateOpt /\ Gates(t) = <<>>)) /\ Accs(t) = res.acc
    \* still waiting for the rest of a record/message: nothing was accepted, reported or changed
    \* "still waiting" is told apart from "consumed and ignored" by the bytes left in the input buffer
    \* (an incomplete record stays in the buffer; a complete record with an incomplete message passed the record layer)
    /\ (res.loose /\ Live(n) /\ ~s.cfg.dtls) => (t.inlen > 0 \/ HasR(t))
    /\ (~res.loose /\ Live(n)) => t.inlen = 0
    /\ (res.loose /\ Live(n)) => /\ Accs(t) = <<>> /\ Len(t.alin) = 0
                                /\ (t.rc \in {"RequestRecv", "Success"} \/ (s.cfg.dtls /\ t.rc = "RequestSend"))
                                /\ (s.cfg.dtls => ((t.rs = 1) = ReadSecure(s)))
                                \* ... and nothing changed: the handshake state and the read protection are what they were
                                \* (TLS <= 1.2 names the message it has seen the header of while it waits for its rest)
                                /\ (t.hs = s.hs \/ (t.imsg # "-" /\ t.hs = t.imsg)) /\ (t.rs = 1) = ReadSecure(s)
    /\ Len(t.dlv) = res.ndlv
    /\ r.gen => \A i \in 1..Len(t.dlv) : t.dlv[i].ok = 1  \* what is delivered is what the peer application sent
    /\ ObsDead(t, s) = (n.dead # "no")
    /\ (n.dead = "closed" /\ Live(s)) => t.closed = 1
    /\ (n.dead = "fatalrcvd" /\ Live(s)) => t.err = 1
    /\ (Live(s) /\ ~res.loose) => (res.alertOut = FatalSealed(t) \/ s.cfg.dtls)
    /\ (Live(s) /\ ~res.loose) => (HasR(t) = res.rpass)
    /\ (Live(n) /\ ~res.loose) =>
          /\ t.hs = n.hs
          /\ (t.rs = 1) = ReadSecure(n)
    /\ (t.rc = "HandshakeComplete" \/ t.hc = 1) => (n.done \/ s.done)
    /\ t.rc \in {"HandshakeComplete", "AppData"} => Live(n)
    \* C15: a call on a session that was already dead reports an error or close request
    /\ ~Live(s) => /\ t.rc \in {"Error", "RequestClose"}
                   /\ Len(Sealed(t, "23")) = 0 /\ Len(Sealed(t, "22")) = 0

\* The choice is resolved deterministically from the observation (first matching in a fixed order), so
\* that every trace line has at most one successor and a rejection is a property of the trace, not of a
\* branch of the search.
ChoiceOrder == <<"good", "bad", "rlfail", "skip", "part", "encfail">>

TDeliver ==
    /\ IsEvent({"deliver"})
    /\ Line.nrec = 1
    /\ Line.ep \in DOMAIN sess
    /\ LET t == Line
           e == t.ep
           s == sess[e]
           r == RecOf(t)
           c == CfgOf(t, s)
           Res(ch) == IF Live(s) THEN Recv(s, r, c, ch) ELSE RecvDead(s)
           allowed == IF Live(s) THEN AllowedChoices(s, r) ELSE {"good"}
           matching == {i \in 1..6 : ChoiceOrder[i] \in allowed /\ MatchRecv(t, s, r, Res(ChoiceOrder[i]))}
           \* A TLS 1.3 client whose record boundaries were shifted (a length field changed in flight) can still find a complete,
           \* unmodified HelloRetryRequest at the front of what it has buffered: it answers it and drops the rest of that "record".
           \* Nothing in the properties forbids that (the message is what the server sent; a HelloRetryRequest changes no keys);
           \* the stream stays out of step, so nothing else is expected to come of it.
           hrrAfterShift == /\ Live(s) /\ s.desync /\ s.role = "C" /\ s.hs = "T13_WAIT_SH" /\ t.hs = "T13_WAIT_SH" /\ ~s.retried
                            /\ Gates(t) = <<"SERVER_HELLO">> /\ Accs(t) = <<"SERVER_HELLO">>
                            /\ t.err = 0 /\ t.closed = 0 /\ Len(t.dlv) = 0 /\ t.hc = 0
       IN IF matching # {}
          THEN LET first == CHOOSE i \in matching : \A j \in matching : i <= j
               IN sess' = [sess EXCEPT ![e] = Res(ChoiceOrder[first]).next]
          ELSE /\ hrrAfterShift
               /\ sess' = [sess EXCEPT ![e] = [s EXCEPT !.retried = TRUE]]

TSend ==
    /\ IsEvent({"send"})
    /\ Line.ep \in DOMAIN sess
    /\ LET t == Line
           s == sess[t.ep]
       IN /\ (t.accepted = 1) = MaySend(s, t.ce0 = 1, t.se0 = 1)
          /\ (t.accepted = 0) => Len(Sealed(t, "23")) = 0          \* refused means nothing was encrypted
          /\ (t.accepted = 1 /\ t.len > 0) => Len(Sealed(t, "23")) >= 1
          /\ sess' = [sess EXCEPT ![t.ep] = IF ~Live(s) THEN [s EXCEPT !.postDead = Append(@, "send-refused")]
                                             ELSE AppSend(s, t.ce0 = 1, t.se0 = 1)]

TClose ==
    /\ IsEvent({"close"})
    /\ Line.ep \in DOMAIN sess
    /\ LET t == Line
           s == sess[t.ep]
       IN /\ ~Live(s) => ~FatalSealed(t)
          /\ sess' = [sess EXCEPT ![t.ep] = IF Live(s) THEN Close(s) ELSE [s EXCEPT !.postDead = Append(@, "close")]]

InitialStates == {"SERVER_HELLO", "CLIENT_HELLO", "T13_WAIT_SH", "T13_START"}

TNew ==
    /\ IsEvent({"new"})
    /\ LET t == Line IN
       IF t.hs = "NOSESSION" THEN UNCHANGED sess
       ELSE /\ t.ep \notin DOMAIN sess
            /\ t.hs \in InitialStates
            /\ (t.role = "C") = (t.hs \in {"SERVER_HELLO", "T13_WAIT_SH"})
            /\ sess' = [x \in DOMAIN sess \cup {t.ep} |->
                           IF x = t.ep THEN InitSess(t.role, t.hs, t.ver \in {"D10", "D12"})
                                            @@ [offered |-> t.role = "C" /\ "tick" \in DOMAIN t /\ t.tick = 2,     \* SESS_TICKET_STATE_SENT_TICKET
                                                offeredId |-> t.role = "C" /\ "oidlen" \in DOMAIN t /\ t.oidlen > 0]
                           ELSE sess[x]]

TDel ==
    /\ IsEvent({"del"})
    /\ sess' = [x \in DOMAIN sess \ {Line.ep} |-> sess[x]]

TReset ==
    /\ IsEvent({"Reset"})
    /\ sess' = [x \in {} |-> 0]

\* adversary edits of the byte stream in flight: the receiver's view of the handshake may now differ
AltersStream == {"drop", "swap", "dropall", "trunc", "delay"}
TAdv ==
    /\ IsEvent({"drop", "dup", "swap", "mod", "trunc", "inject", "injectrec", "forge", "replay",
                "reflect", "hsedit", "dropall", "delay"})
    /\ LET t == Line
           \* only handshake messages are transcript
           alters == (t.ev \in AltersStream /\ t.itype = 22) \/ (t.ev = "hsedit" /\ t.op \in {"del", "swap"})
       IN IF alters /\ t.peer \in DOMAIN sess /\ ~sess[t.peer].cfg.dtls     \* DTLS tolerates loss/duplication/reordering
          THEN sess' = [sess EXCEPT ![t.peer].tampered = @ \/ ~sess[t.peer].done]
          ELSE UNCHANGED sess

\* bookkeeping lines and calls that do not change the abstract state
TFlush ==
    /\ IsEvent({"flush", "timeout", "state"})
    /\ Line.ep \in DOMAIN sess
    /\ LET t == Line
           s == sess[t.ep]
       IN /\ ~Live(s) => Len(Sealed(t, "23")) = 0
          /\ t.src = "HandshakeComplete" => s.done
    /\ UNCHANGED sess

TSkip ==
    /\ IsEvent({"keys", "clock", "mark", "skip", "tamper", "sid", "sidedit", "tickkey", "pmtu", "pad"})
    /\ UNCHANGED sess

TraceInit == l = 1 /\ sess = [x \in {} |-> 0]

TraceNormal == TDeliver \/ TSend \/ TClose \/ TNew \/ TDel \/ TReset \/ TAdv \/ TFlush \/ TSkip

(* A line that no action explains is a REJECTION: it is reported (side effect on stdout, parsed by  *)
(* tools/tlcutil.py) and validation resumes at the next episode (the line after the next "Reset"),  *)
(* so that one rejection does not leave the rest of the trace unexamined.                           *)
NextEpisode(i) ==
    LET rs == {j \in i..Len(TraceLog) : TraceLog[j].ev = "Reset"} IN
    IF rs = {} THEN Len(TraceLog) + 1
    ELSE (CHOOSE j \in rs : \A k \in rs : j <= k) + 1

TReject ==
    /\ l <= Len(TraceLog)
    /\ ~ENABLED TraceNormal
    /\ PrintT(<<"TRACE_REJECT_LINE", l,
                IF "ep" \in DOMAIN Line /\ Line.ep \in DOMAIN sess
                THEN <<sess[Line.ep].dead, sess[Line.ep].hs, sess[Line.ep].rd, sess[Line.ep].done, sess[Line.ep].desync>>
                ELSE <<"-", "-", "-", FALSE, FALSE>> >>)
    /\ l' = NextEpisode(l)
    /\ sess' = [x \in {} |-> 0]

TDone ==
    /\ l = Len(TraceLog) + 1
    /\ PrintT(<<"TRACE_DONE", Len(TraceLog)>>)
    /\ l' = l + 1
    /\ UNCHANGED sess

TraceNext == TraceNormal \/ TReject \/ TDone

TraceSpec == TraceInit /\ [][TraceNext]_<<sess, l>>
=============================================================================
