SPECIFICATION Spec
CONSTANTS
  Bodies <- BodiesA
  HdrLen = 2
INVARIANT NeverAll
CHECK_DEADLOCK FALSE
