SPECIFICATION TraceSpec
CONSTANTS
  Certs <- MCCerts
  Crls <- MCCrls
  Anchors <- MCAnchors
  Chains <- MCChains
  MaxSteps = 0
  ReauthAlways = FALSE
  PersistReauth = FALSE
CHECK_DEADLOCK FALSE
