-------------------------- MODULE MxStream_Trace --------------------------
(* C12 on the implementation.  mxcrypto calls the real digest / HMAC / HKDF / PBKDF2 / AES-GCM / ChaCha20-Poly1305 /  *)
(* CBC functions along generated call patterns (chunkings of one positional message, misaligned and in-place buffers, *)
(* every single-bit modification of a sealed record) and logs, after every call, the projection of the REAL context   *)
(* the specification talks about.  Each line must be the step MxStream's transcription of the code takes from the     *)
(* state reached so far (curlen and the bit counter after every Update; keystream offset, GHASH buffer fill and the   *)
(* bit counters after every GCM call), every output must equal the independent implementation's (field ok), an AEAD   *)
(* open must take MxStream's verdict, HKDF-Expand must refuse exactly the lengths the model refuses.                   *)
EXTENDS MxStream, Json, IOUtils, TLC

VARIABLES l, o
TraceLog == ndJsonDeserialize(IOEnv.TRACE)
Line == TraceLog[l]
None == [kind |-> "none"]
LBof(bb) == IF bb = 128 THEN 16 ELSE 8

\* ---- digests (and the inner digest of an HMAC)
\* the blocks this call compressed are the next B-byte slices of the message, and what stays buffered is its tail
NewBlocksInOrder(ob, r) == /\ \A i \in 1..Len(r.blocks) : r.blocks[i] = Ident((ob.nb + i - 1) * ob.bb, ob.bb)
                           /\ r.buf = Ident((ob.nb + Len(r.blocks)) * ob.bb, Len(r.buf))
                           /\ r.bits = 8 * ob.bb * (ob.nb + Len(r.blocks))
TDigInit == /\ Line.k = "dig" /\ Line.op = "init" /\ Line.curlen = 0 /\ Line.bits = 0
            /\ (Line.curlen2 >= 0 => Line.curlen2 = 0 /\ Line.bits2 = 0)
            /\ o' = [kind |-> "dig", alg |-> Line.alg, bb |-> Line.B, buf |-> <<>>, bits |-> 0, fed |-> 0, nb |-> 0]
TDigUpdate == /\ Line.k = "dig" /\ Line.op = "update" /\ o.kind = "dig" /\ o.alg = Line.alg
              /\ LET r == Feed(o.bb, o.buf, o.bits, <<>>, o.fed, Line.n)       \* r.blocks: the blocks compressed by this call
                 IN /\ Line.curlen = Len(r.buf) /\ Line.bits = r.bits
                    /\ (Line.curlen2 >= 0 => Line.curlen2 = Len(r.buf) /\ Line.bits2 = r.bits)        \* MD5+SHA-1 pair moves in step
                    /\ NewBlocksInOrder(o, r)                                                         \* TailInv on the real run
                    /\ o' = [o EXCEPT !.buf = r.buf, !.bits = r.bits, !.nb = @ + Len(r.blocks), !.fed = @ + Line.n]
TDigFinal == /\ Line.k = "dig" /\ Line.op = "final" /\ o.kind = "dig" /\ o.alg = Line.alg
             /\ Line.ok = 1 /\ Line.bits = 8 * o.fed
             /\ LET r == Fin(o.bb, LBof(o.bb), o.buf, o.bits, <<>>)
                IN /\ r.lenv = 8 * o.fed
                   /\ Flatten(r.blocks) = SubSeq(Padded(o.bb, LBof(o.bb), o.fed), o.nb * o.bb + 1, Len(Padded(o.bb, LBof(o.bb), o.fed)))
             /\ o' = None

THInit == /\ Line.k = "hmac" /\ Line.op = "hinit" /\ Line.klen <= Line.B /\ Line.rc = 0
          /\ LET r == Feed(Line.B, <<>>, 0, <<>>, 0, Line.B)              \* the ipad block has been hashed
             IN /\ Line.curlen = Len(r.buf) /\ Line.bits = r.bits
                /\ o' = [kind |-> "hmac", alg |-> Line.alg, bb |-> Line.B, buf |-> r.buf, bits |-> r.bits, fed |-> Line.B, nb |-> 1]
THUpdate == /\ Line.k = "hmac" /\ Line.op = "hupdate" /\ o.kind = "hmac" /\ o.alg = Line.alg
            /\ LET r == Feed(o.bb, o.buf, o.bits, <<>>, o.fed, Line.n)
               IN /\ Line.curlen = Len(r.buf) /\ Line.bits = r.bits /\ NewBlocksInOrder(o, r)
                  /\ o' = [o EXCEPT !.buf = r.buf, !.bits = r.bits, !.nb = @ + Len(r.blocks), !.fed = @ + Line.n]
THFinal == /\ Line.k = "hmac" /\ Line.op = "hfinal" /\ o.kind = "hmac" /\ o.alg = Line.alg
           /\ Line.ok = 1 /\ Line.n = o.fed - o.bb /\ o' = None
THSingle == /\ Line.k = "hmac" /\ Line.op = "hsingle" /\ Line.ok = 1 /\ Line.rc = 0 /\ o' = None      \* keys of any length

\* ---- key derivation
THkdf == /\ Line.k = "hkdf"
         /\ IF Line.op = "extract" THEN Line.ok = 1 /\ Line.rc >= 0
            ELSE /\ Line.ok = 1
                 /\ (Line.refused = 1) = (HkdfRefused(Line.out, Line.H) \/ Line.info > HkdfInfoLimit)
         /\ o' = None
TPbkdf == /\ Line.k = "pbkdf2" /\ Line.ok = 1 /\ o' = None

\* ---- AES-GCM streaming
GMatch(t, g) == t.ibc = g.ibc /\ t.obc = g.obc /\ t.abits = g.abits /\ t.cbits = g.cbits
TGcmReady == /\ Line.k = "gcm" /\ Line.op = "ready" /\ Line.rc = 0
             /\ LET g == GcmReady(Line.aad) IN GMatch(Line, g) /\ o' = [kind |-> "gcm", dir |-> Line.dir, g |-> g]
TGcmCrypt == /\ Line.k = "gcm" /\ Line.op = "crypt" /\ o.kind = "gcm" /\ o.dir = Line.dir
             /\ LET g == GcmCrypt(o.g, Line.n) IN GMatch(Line, g) /\ GcmInv(g) /\ o' = [o EXCEPT !.g = g]
TGcmTag == /\ Line.k = "gcm" /\ Line.op = "tag" /\ o.kind = "gcm"
           /\ Line.ok = 1 /\ Line.n = o.g.total /\ Line.cbits = o.g.cbits /\ Line.abits = o.g.abits
           /\ o' = None

\* ---- AEAD seal / open
TSeal == /\ Line.k = "aead" /\ Line.op = "seal" /\ Line.ok = 1 /\ o' = None
TOpen == /\ Line.k = "aead" /\ Line.op = "open" /\ Line.tamper \in TamperClasses
         /\ (Line.accepted = 1) = OpenVerdict(Line.tamper)
         /\ (Line.accepted = 1 => Line.ptok = 1)
         /\ (Line.accepted = 0 => Line.rc < 0)
         /\ o' = None

\* ---- CBC: the context carries the last ciphertext block to the next call
TCbcInit == /\ Line.k = "cbc" /\ Line.op = "init" /\ Line.rc = 0 /\ o' = [kind |-> "cbc", alg |-> Line.alg, dir |-> Line.dir, done |-> 0]
TCbcCrypt == /\ Line.k = "cbc" /\ Line.op = "crypt" /\ o.kind = "cbc" /\ o.alg = Line.alg /\ Line.n % Line.blk = 0
             /\ Line.chain = 1 /\ o' = [o EXCEPT !.done = @ + Line.n]
TCbcDone == /\ Line.k = "cbc" /\ Line.op = "done" /\ o.kind = "cbc" /\ Line.ok = 1 /\ Line.n = o.done /\ o' = None

TReset == Line.k = "Reset" /\ o' = None

TraceNormal == /\ l <= Len(TraceLog)
               /\ \/ TDigInit \/ TDigUpdate \/ TDigFinal \/ THInit \/ THUpdate \/ THFinal \/ THSingle \/ THkdf \/ TPbkdf
                  \/ TGcmReady \/ TGcmCrypt \/ TGcmTag \/ TSeal \/ TOpen \/ TCbcInit \/ TCbcCrypt \/ TCbcDone \/ TReset
               /\ l' = l + 1
TReject == /\ l <= Len(TraceLog) /\ ~ENABLED TraceNormal
           /\ PrintT(<<"TRACE_REJECT_LINE", l, <<"-", "-", "-", FALSE, FALSE>> >>)
           /\ l' = l + 1 /\ o' = None
TDone == /\ l = Len(TraceLog) + 1 /\ PrintT(<<"TRACE_DONE", Len(TraceLog)>>) /\ l' = l + 1 /\ UNCHANGED o
TraceSpec == /\ l = 1 /\ o = None /\ DInit /\ GInit
             /\ [][(TraceNormal \/ TReject \/ TDone) /\ UNCHANGED <<dvars, gvars>>]_<<l, o, dvars, gvars>>
=============================================================================
