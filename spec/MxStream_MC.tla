---------------------------- MODULE MxStream_MC ----------------------------
EXTENDS MxStream
\* the two state machines are explored separately (their product adds nothing)
DOnly == DInit /\ GInit /\ [][DNext /\ UNCHANGED gvars]_<<dvars, gvars>>
GOnly == DInit /\ GInit /\ [][GNext /\ UNCHANGED dvars]_<<dvars, gvars>>
Chunks64 == 0..131
Chunks128 == (0..131) \cup (250..260)
GChunks == (0..35) \cup {63, 64, 65, 127, 128, 129, 130, 255, 256, 257}
NeverFullGhash == ~(gphase = "run" /\ gst.ibc = GS)
=============================================================================
