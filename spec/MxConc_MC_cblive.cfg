SPECIFICATION Spec
CONSTANTS
  Threads = {t1, t2, t3}
  Keys = {k1}
  MaxOps = 2
  KeygenOrder <- OrderAsCoded
  PinIsCounter = TRUE
  WithCallback = TRUE
PROPERTY Progress
CHECK_DEADLOCK FALSE
