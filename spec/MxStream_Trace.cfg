SPECIFICATION TraceSpec
CONSTANTS B = 64
 LB = 8
 MaxMsg = 0
 Chunks = {}
CHECK_DEADLOCK FALSE
