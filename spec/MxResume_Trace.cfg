SPECIFICATION TraceSpec
CONSTANTS
  Life = 86400
  Life13 = 360
CHECK_DEADLOCK FALSE
