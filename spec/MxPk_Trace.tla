----------------------------- MODULE MxPk_Trace -----------------------------
(* C11 (decision part) on the implementation: mxpk builds, with OpenSSL holding the private keys, inputs of every  *)
(* class MxPk names - PKCS#1 v1.5 / PSS blocks signed with the raw RSA operation, EME blocks encrypted with the raw   *)
(* public operation, ECDSA signatures with chosen (r, s) and DER shape, points, DH values, Ed25519 signatures -       *)
(* hands them to the real verification / decryption / import / agreement functions and logs the answer.  Each line   *)
(* must carry the verdict MxPk prescribes for its class; results of signing, encryption and key agreement must be     *)
(* the independent implementation's (field ok).  A refused public value must not have been used.                       *)
EXTENDS MxPk, Json, IOUtils, TLC

VARIABLES l
TraceLog == ndJsonDeserialize(IOEnv.TRACE)
Line == TraceLog[l]
Acc(t) == t.accepted = 1
Unbuildable(t) == "built" \in DOMAIN t /\ t.built = 0

TRsav == Line.k = "rsav" /\ (Unbuildable(Line) \/ (Line.cls \in Pkcs1Classes /\ Agrees(Pkcs1Verdict(Line.cls), Acc(Line))))
TPssv == Line.k = "pssv" /\ (Unbuildable(Line) \/ (Line.cls \in PssClasses /\ Agrees(PssVerdict(Line.cls), Acc(Line))))
TRsadec == Line.k = "rsadec" /\ (Unbuildable(Line) \/ (/\ Line.cls \in EmeClasses /\ Agrees(EmeVerdict(Line.cls), Acc(Line))
                                                       /\ (Line.cls = "canon" => Line.ptok = 1)))
TRsaenc == Line.k = "rsaenc" /\ (IF Line.fits = 1 THEN Line.ok = 1 ELSE Line.rc < 0)
TRsasign == Line.k = "rsasign" /\ (Line.ok = 1 \/ Line.rc = -10)        \* PS_UNSUPPORTED_FAIL: refusing (SHA-512 with RSA v1.5) is not a wrong result
TEcv == Line.k = "ecv" /\ (Unbuildable(Line) \/
            (/\ Line.r \in EcR /\ Line.s \in EcS /\ Line.der \in EcDer
             /\ Agrees(EcVerdict(Line.r, Line.s, Line.der, Line.hashc, Line.keyc), Acc(Line))))
TEcsign == Line.k = "ecsign" /\ Line.ok = 1
TEcpoint == Line.k = "ecpoint" /\ (Unbuildable(Line) \/
            (/\ Line.cls \in PointClasses
             /\ Agrees(PointVerdict(Line.cls), Line.used = 1)           \* refused at import or at the latest before use
             /\ (Line.cls = "valid" => Line.ok = 1)))
TDh == Line.k = "dh" /\ Line.cls \in DhClasses /\ Agrees(DhVerdict(Line.cls), Line.used = 1) /\ (Line.used = 1 => Line.ok = 1)
TX == Line.k = "x25519" /\ Line.ok = 1
TEdv == Line.k = "edv" /\ (Unbuildable(Line) \/ (Line.cls \in EdClasses /\ Agrees(EdVerdict(Line.cls), Acc(Line))))
TReset == Line.k = "Reset"

TraceNormal == /\ l <= Len(TraceLog)
               /\ (TRsav \/ TPssv \/ TRsadec \/ TRsaenc \/ TRsasign \/ TEcv \/ TEcsign \/ TEcpoint \/ TDh \/ TX \/ TEdv \/ TReset)
               /\ l' = l + 1
TReject == /\ l <= Len(TraceLog) /\ ~ENABLED TraceNormal
           /\ PrintT(<<"TRACE_REJECT_LINE", l, <<"-", "-", "-", FALSE, FALSE>> >>)
           /\ l' = l + 1
TDone == /\ l = Len(TraceLog) + 1 /\ PrintT(<<"TRACE_DONE", Len(TraceLog)>>) /\ l' = l + 1
TraceSpec == /\ l = 1 /\ input = <<"ok", "ok", "canon", "match", "right">> /\ stage = 0 /\ outcome = "pending"
             /\ [][(TraceNormal \/ TReject \/ TDone) /\ UNCHANGED vars]_<<l, vars>>
=============================================================================
