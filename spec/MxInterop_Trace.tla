-------------------------- MODULE MxInterop_Trace --------------------------
(* C10: one line per run of harness/mxossl - a MatrixSSL endpoint against an OpenSSL endpoint configured for exactly   *)
(* one (version, cipher suite[, group, signature algorithms, client authentication, resumption mode]) that both         *)
(* support.  MxNegotiate says what such a pair must end in: both complete with that version and suite; the data part     *)
(* of the property adds that every payload arrives intact in both directions, also on the resumed connection, and       *)
(* that the two stacks agree on whether the second connection was resumed.                                                *)
EXTENDS Naturals, Sequences, FiniteSets, Json, IOUtils, TLC

VARIABLES l
TraceLog == ndJsonDeserialize(IOEnv.TRACE)
Line == TraceLog[l]

OVer(v) == CASE v = "T11" -> "TLSv1.1" [] v = "T12" -> "TLSv1.2" [] v = "T13" -> "TLSv1.3" [] OTHER -> "?"

\* suite2 / oname2: on the second connection both sides are restricted to another suite (of another hash, so that the
\* ticket of the first connection cannot be used: a full handshake is the right outcome, a failure is not)
SuiteOf(t, i) == IF i = 2 /\ t.suite2 # 0 THEN t.suite2 ELSE t.suite
ONameOf(t, i) == IF i = 2 /\ t.suite2 # 0 THEN t.oname2 ELSE t.oname

ConnOK(t, i) ==
    /\ t.done[i] = 1 /\ t.odone[i] = 1                       \* both sides completed
    /\ t.mxerr[i] = 0 /\ t.oerr[i] = 0
    /\ t.mver[i] = t.ver /\ t.over[i] = OVer(t.ver)          \* with the version ...
    /\ t.mxsuite[i] = SuiteOf(t, i) /\ t.ocipher[i] = ONameOf(t, i)      \* ... and suite both were restricted to
    /\ t.dataok[i] = 1 /\ t.odataok[i] = 1                   \* every payload intact, both directions
    /\ t.mres[i] = t.ores[i]                                 \* same view of "resumed"

Interop(t) ==
    /\ ConnOK(t, 1)
    /\ t.nconn = 2 => /\ ConnOK(t, 2)
                      /\ t.mres[1] = 0
                      /\ t.suite2 = 0 => t.mres[2] = 1        \* the offered session / ticket / PSK is taken up
                      \* 0-RTT: what the independent client wrote as early data is what the server application got, first and intact
                      \* (after a HelloRetryRequest the server has to skip it instead - RFC 8446 4.2.10 - and the handshake completes all the same)
                      /\ (t.early > 0 /\ t.hrr = 0) => (t.oearly = 1 /\ t.earlyok = 1)
                      /\ (t.early > 0 /\ t.hrr = 1) => t.oearly = 1

TRun == /\ l <= Len(TraceLog) /\ "infra" \notin DOMAIN Line /\ Interop(Line) /\ l' = l + 1
TReject == /\ l <= Len(TraceLog) /\ ~ENABLED TRun
           /\ PrintT(<<"TRACE_REJECT_LINE", l, <<"-", "-", "-", FALSE, FALSE>> >>) /\ l' = l + 1
TDone == /\ l = Len(TraceLog) + 1 /\ PrintT(<<"TRACE_DONE", Len(TraceLog)>>) /\ l' = l + 1
TraceSpec == l = 1 /\ [][TRun \/ TReject \/ TDone]_l
=============================================================================
