--------------------------- MODULE MxName_Trace ---------------------------
(* Each line: one validation of a generated leaf certificate (SAN list, CN) against an expected name.   *)
(* The library's answer (PS_CERT_AUTH_FAIL_SUBJECT_FLAG or success) is compared with Match.             *)
EXTENDS MxName, Json, IOUtils, Integers

VARIABLE l
TraceLog == ndJsonDeserialize(IOEnv.TRACE)
Line == TraceLog[l]

\* layer "api": one call of matrixValidateCertsExt; layer "session": one client session created with the expected name
ObsMatch(t) == IF t.layer = "api" THEN t.prc = 0 /\ t.rcn >= 0 /\ \A j \in 1..Len(t.st) : t.st[j] = 1
               ELSE t.hc = 1
Usable(t) == IF t.layer = "api" THEN t.prc = 0 ELSE t.newok = 1

\* completeness is claimed for names without trailing dots
Plain(t) == ~t.v.dns.tdot /\ ~t.v.email.tdot /\ \A k \in 1..Len(t.sans) : ~t.sans[k].tdot

TName ==
    /\ l <= Len(TraceLog) /\ Line.ev = "validate"
    /\ LET t == Line IN
       \* accepted only if issued for that name (skip: the documented opt-out, nothing is claimed)
       /\ (ObsMatch(t) /\ ~t.skip) => MatchOpt(t.v, t.sans, t.cn, t.nt, t.cnalways, TRUE)
       \* and a certificate that does carry the name is not turned away (gnv: the expected name is screened first, stricter)
       /\ ((t.skip \/ MatchOpt(t.v, t.sans, t.cn, t.nt, t.cnalways, t.ci)) /\ LegalOpts(t.nt, t.cnalways) /\ Plain(t) /\ ~t.gnv /\ Usable(t)) => ObsMatch(t)
    /\ l' = l + 1

TSkip == /\ l <= Len(TraceLog) /\ Line.ev # "validate" /\ l' = l + 1
TReject == /\ l <= Len(TraceLog) /\ ~ENABLED (TName \/ TSkip)
           /\ PrintT(<<"TRACE_REJECT_LINE", l, <<"-", "-", "-", FALSE, FALSE>> >>) /\ l' = l + 1
TDone == /\ l = Len(TraceLog) + 1 /\ PrintT(<<"TRACE_DONE", Len(TraceLog)>>) /\ l' = l + 1
TraceSpec == l = 1 /\ [][TName \/ TSkip \/ TReject \/ TDone]_l
=============================================================================
