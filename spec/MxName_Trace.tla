--------------------------- MODULE MxName_Trace ---------------------------
(* Each line: one validation of a generated leaf certificate (SAN list, CN) against an expected name.   *)
(* The library's answer (PS_CERT_AUTH_FAIL_SUBJECT_FLAG or success) is compared with Match.             *)
EXTENDS MxName, Json, IOUtils, Integers

VARIABLE l
TraceLog == ndJsonDeserialize(IOEnv.TRACE)
Line == TraceLog[l]

ObsMatch(t) == t.prc = 0 /\ t.rcn >= 0 /\ \A j \in 1..Len(t.st) : t.st[j] = 1

\* completeness is claimed for names without trailing dots
Plain(t) == ~t.x.tdot /\ \A k \in 1..Len(t.sans) : ~t.sans[k].tdot

TName ==
    /\ l <= Len(TraceLog) /\ Line.ev = "validate"
    /\ LET t == Line IN
       /\ ObsMatch(t) => Match(t.x, t.sans, t.cn, TRUE)                      \* accepted only if issued for that name
       /\ (Match(t.x, t.sans, t.cn, FALSE) /\ Plain(t) /\ t.prc = 0) => ObsMatch(t)
    /\ l' = l + 1

TSkip == /\ l <= Len(TraceLog) /\ Line.ev # "validate" /\ l' = l + 1
TReject == /\ l <= Len(TraceLog) /\ ~ENABLED (TName \/ TSkip)
           /\ PrintT(<<"TRACE_REJECT_LINE", l, <<"-", "-", "-", FALSE, FALSE>> >>) /\ l' = l + 1
TDone == /\ l = Len(TraceLog) + 1 /\ PrintT(<<"TRACE_DONE", Len(TraceLog)>>) /\ l' = l + 1
TraceSpec == l = 1 /\ [][TName \/ TSkip \/ TReject \/ TDone]_l
=============================================================================
