SPECIFICATION Spec
INVARIANT NeverPermAccept
CHECK_DEADLOCK FALSE
