SPECIFICATION Spec
CONSTANTS
  Certs <- MCCerts
  Crls <- MCCrls
  Anchors <- MCAnchors
  Chains <- MCChains
  MaxSteps = 4
  ReauthAlways = FALSE
  PersistReauth = FALSE
PROPERTY LoadedRevocationHonoured
INVARIANT AuthNeverLost
INVARIANT AuthGenuine
PROPERTY NoBogusRevocation
CHECK_DEADLOCK FALSE
