SPECIFICATION Spec
CONSTANTS
  MaxMsgs = 5
  MaxEdits = 3
  MaxPhases = 2
INVARIANT Prefix
INVARIANT NonceFresh
INVARIANT SeqMonotone
PROPERTY TamperKills
CHECK_DEADLOCK FALSE
