SPECIFICATION Spec
CONSTANTS
  MaxDrops = 2
  MaxDups = 2
  MaxTimeouts = 2
  MaxApp = 1
INVARIANT NeverResent
CHECK_DEADLOCK FALSE
