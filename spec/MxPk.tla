-------------------------------- MODULE MxPk --------------------------------
(* The decisions MatrixSSL's public-key code has to take (property C11, decision part): which encoded blocks,  *)
(* signatures, points and public values are accepted.  Every input is described by the structural CLASS an      *)
(* independent implementation holding the private key built it in (ground truth); the operators below say what  *)
(* the receiver must answer: "accept", "reject" or "either" (the property does not decide it).  The arithmetic  *)
(* itself (that a canonical block under the right key verifies) is numeric and is not modelled: the harness'    *)
(* independent implementation produces the inputs and judges the outputs.                                       *)
(* The state machine below is the one every verifier in the library follows - decode, range-check, compare -    *)
(* with the invariant that an input is accepted only if every stage passed; TLC enumerates all classes.        *)
EXTENDS Integers, Sequences, FiniteSets

(* ---- RSASSA-PKCS1-v1_5 (RFC 8017 8.2.2 / 9.2): EM = 00 01 FF..FF 00 DigestInfo, compared as a whole *)
Pkcs1Classes == {"canon", "lead", "bt00", "bt02", "padnonff", "padzero", "padshort", "padshort7", "sep01", "nosep",
                 "di_noparams", "di_badparams", "di_otheroid", "di_berlen", "di_hashshort", "hashflip", "plusn", "sigflip",
                 "sigshort", "siglong"}
Pkcs1Verdict(c) == CASE c = "canon" -> "accept"
                     [] c = "di_noparams" -> "either"    \* AlgorithmIdentifier without NULL: RFC 8017 A.2.4 lets verifiers take both
                     [] c = "siglong" -> "either"        \* a leading zero octet in front of the k octets: the same integer
                     [] OTHER -> "reject"
(* ---- EMSA-PSS (RFC 8017 9.1.2), salt length fixed by the caller to the hash length *)
PssClasses == {"canon", "hashflip", "saltshort", "saltlong", "salt0", "psnonzero", "sep02", "topbit", "trailer", "sigflip"}
PssVerdict(c) == IF c = "canon" THEN "accept" ELSE "reject"
(* ---- EME-PKCS1-v1_5 decryption (RFC 8017 7.2.2): 00 02 PS(>= 8 nonzero) 00 M *)
EmeClasses == {"canon", "lead", "bt01", "bt00", "nosep", "padzero"}
EmeVerdict(c) == IF c = "canon" THEN "accept" ELSE "reject"
(* ---- ECDSA (SEC 1 4.1.4): r, s in [1, n-1] and the equation holds; (r, n - s) is the other valid signature *)
EcR == {"ok", "zero", "n", "plusn", "neg", "flip"}
EcS == {"ok", "zero", "n", "plusn", "twin", "neg", "flip"}
EcDer == {"canon", "leadzero", "longlen", "trail", "trunc", "seqshort"}
EcMathValid(r, s, hashc, keyc) == r = "ok" /\ s \in {"ok", "twin"} /\ hashc = "match" /\ keyc = "right"
EcVerdict(r, s, der, hashc, keyc) ==
    IF der = "trunc" THEN "reject"                                        \* the encoding claims bytes that are not there
    ELSE IF ~EcMathValid(r, s, hashc, keyc) THEN "reject"
    ELSE IF der = "canon" THEN "accept"
    ELSE "either"                                                         \* BER liberties around a valid (r, s)
(* ---- public values *)
PointClasses == {"valid", "offcurve", "offcurvex", "infinity", "zerozero", "trunc", "long", "badprefix", "compressed", "xplusp"}
\* x + p: a non-canonical encoding of a coordinate whose residue is on the curve - not "off the curve", left open
PointVerdict(c) == CASE c = "valid" -> "accept" [] c \in {"compressed", "xplusp"} -> "either" [] OTHER -> "reject"
DhClasses == {"valid", "two", "pm2", "zero", "one", "pm1", "p", "pp1"}
DhVerdict(c) == IF c \in {"valid", "two", "pm2"} THEN "accept" ELSE "reject"      \* 2 <= y <= p - 2
(* ---- Ed25519 (RFC 8032 5.1.7) *)
EdClasses == {"canon", "flipr", "flips", "flipmsg", "flippub", "splusl"}
EdVerdict(c) == IF c = "canon" THEN "accept" ELSE "reject"

Agrees(verdict, accepted) == verdict = "either" \/ (verdict = "accept") = accepted

(* ---- the verifier as a pipeline: an input is accepted only if it passed decode, range and compare, in that order *)
Stages == <<"decode", "range", "compare">>
\* which stage a class of ECDSA input fails at (0: none)
EcFailsAt(r, s, der, hashc, keyc) ==
    IF der = "trunc" \/ r = "neg" \/ s = "neg" THEN 1
    ELSE IF r \in {"zero", "n", "plusn"} \/ s \in {"zero", "n", "plusn"} THEN 2
    ELSE IF ~EcMathValid(r, s, hashc, keyc) THEN 3 ELSE 0

VARIABLES input, stage, outcome
vars == <<input, stage, outcome>>
Inputs == EcR \X EcS \X EcDer \X {"match", "other"} \X {"right", "other"}
Init == input \in Inputs /\ stage = 0 /\ outcome = "pending"
Step == /\ outcome = "pending"
        /\ LET f == EcFailsAt(input[1], input[2], input[3], input[4], input[5])
           IN IF f = stage + 1 THEN outcome' = "rejected" /\ stage' = stage + 1
              ELSE IF stage + 1 = Len(Stages) THEN outcome' = "accepted" /\ stage' = stage + 1
              ELSE outcome' = "pending" /\ stage' = stage + 1
        /\ UNCHANGED input
Next == Step
Spec == Init /\ [][Next]_vars
\* the pipeline and the decision table agree on every class
PipelineMatchesTable == outcome # "pending" => Agrees(EcVerdict(input[1], input[2], input[3], input[4], input[5]), outcome = "accepted")
\* nothing is accepted before the last stage
NoEarlyAccept == outcome = "accepted" => stage = Len(Stages)
NeverAccepts == outcome # "accepted"          \* vacuity guard (must be violated)
=============================================================================
