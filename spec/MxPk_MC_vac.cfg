SPECIFICATION Spec
INVARIANTS NeverAccepts
CHECK_DEADLOCK FALSE
