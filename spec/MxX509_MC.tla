---------------------------- MODULE MxX509_MC ----------------------------
(* Exhaustive comparison of the transcribed walk with the statement over a universe of abstract     *)
(* chains: a well-formed chain of length 1..3 under one of several anchor sets, with every          *)
(* combination of up to two single-field deviations anywhere (chain or anchor).                      *)
EXTENDS MxX509

VARIABLE scen

Base(id, n, i, k, s, ca) ==
    [id |-> id, n |-> n, i |-> i, k |-> k, s |-> s, sg |-> id, bc |-> IF ca THEN "ca" ELSE "notca", pl |-> -1,
     ku |-> IF ca THEN "sign" ELSE "nosign", val |-> "ok", cu |-> FALSE, alg |-> "sha256", aki |-> "none", ski |-> FALSE,
     eku |-> "none"]

Root  == Base("root", "R", "R", "kR", "kR", TRUE)
Int1  == Base("int1", "I1", "R", "kI1", "kR", TRUE)
Int2  == Base("int2", "I2", "I1", "kI2", "kI1", TRUE)
Evil  == [Base("evil", "E", "X", "kE", "kE", TRUE) EXCEPT !.sg = "root"]        \* forged CA carrying the root's signature octets
OtherRoot == Base("root2", "R2", "R2", "kR2", "kR2", TRUE)

Leaf(iss, sk) == Base("leaf", "L", iss, "kL", sk, FALSE)

Chains == { <<Leaf("R", "kR")>>,
            <<Leaf("I1", "kI1"), Int1>>,
            <<Leaf("I2", "kI2"), Int2, Int1>>,
            <<Leaf("I1", "kI1"), Int1, Root>>,                 \* root sent along
            <<Leaf("E", "kE"), Evil>>,                         \* forged chain
            <<Int1, Leaf("I1", "kI1")>>,                       \* wrong order
            <<Leaf("I2", "kI2"), Int1>> }                      \* missing link

AnchorSets == { <<Root>>, <<OtherRoot, Root>>, <<Int1>>, <<OtherRoot>>, <<>> }

\* single-field deviations
Devs == { [f |-> "s", v |-> "0"], [f |-> "s", v |-> "kE"], [f |-> "sg", v |-> "root"], [f |-> "i", v |-> "Z"],
          [f |-> "bc", v |-> "notca"], [f |-> "bc", v |-> "none"], [f |-> "bc", v |-> "ca"],
          [f |-> "pl", v |-> 0], [f |-> "pl", v |-> 1],
          [f |-> "ku", v |-> "none"], [f |-> "ku", v |-> "nosign"], [f |-> "ku", v |-> "sign"],
          [f |-> "val", v |-> "exp"], [f |-> "val", v |-> "nyv"], [f |-> "cu", v |-> TRUE],
          [f |-> "alg", v |-> "md5"], [f |-> "alg", v |-> "sha1"],
          [f |-> "aki", v |-> "match"], [f |-> "aki", v |-> "mismatch"], [f |-> "ski", v |-> TRUE],
          [f |-> "eku", v |-> "othercrit"], [f |-> "eku", v |-> "tls"], [f |-> "none", v |-> 0] }

Apply(c, d) ==
    CASE d.f = "s" -> [c EXCEPT !.s = d.v]   [] d.f = "sg" -> [c EXCEPT !.sg = d.v] [] d.f = "i" -> [c EXCEPT !.i = d.v]
      [] d.f = "bc" -> [c EXCEPT !.bc = d.v] [] d.f = "pl" -> [c EXCEPT !.pl = d.v] [] d.f = "ku" -> [c EXCEPT !.ku = d.v]
      [] d.f = "val" -> [c EXCEPT !.val = d.v] [] d.f = "cu" -> [c EXCEPT !.cu = d.v] [] d.f = "alg" -> [c EXCEPT !.alg = d.v]
      [] d.f = "aki" -> [c EXCEPT !.aki = d.v] [] d.f = "ski" -> [c EXCEPT !.ski = d.v] [] d.f = "eku" -> [c EXCEPT !.eku = d.v]
      [] OTHER -> c

\* a deviation changes the signed content, hence the identity - except that a changed content keeps verifying only
\* if it is re-signed: the modelled deviations are "issued like this", i.e. consistently signed, unless they touch s/sg
Mod(c, d) == LET c2 == Apply(c, d) IN IF d.f \in {"none", "s", "sg"} THEN c2 ELSE [c2 EXCEPT !.id = c.id \o "'", !.sg = IF c.sg = c.id THEN c.id \o "'" ELSE c.sg]

\* position p: 1..Len(chain) = chain certificate, Len(chain)+a = anchor a
ApplyAt(ch, an, p, d) ==
    IF p <= Len(ch) THEN [chain |-> [ch EXCEPT ![p] = Mod(ch[p], d)], anchors |-> an]
    ELSE IF p - Len(ch) <= Len(an) THEN [chain |-> ch, anchors |-> [an EXCEPT ![p - Len(ch)] = Mod(an[p - Len(ch)], d)]]
    ELSE [chain |-> ch, anchors |-> an]

Scenarios ==
    { LET s1 == ApplyAt(ch, an, p1, d1) IN ApplyAt(s1.chain, s1.anchors, p2, d2) :
        ch \in Chains, an \in AnchorSets, p1 \in 1..4, d1 \in Devs, p2 \in 1..4, d2 \in Devs }

Init == scen \in Scenarios
Next == UNCHANGED scen
Spec == Init /\ [][Next]_scen

Sound    == WalkSound(scen.chain, scen.anchors)
Complete == WalkComplete(scen.chain, scen.anchors)
=============================================================================
