-------------------------- MODULE MxResume_Trace --------------------------
(* Rebuilds MxResume's ghosts (issued session states, ticket keys held, clock) from executions of the real     *)
(* library and judges every completed resumed handshake of a server with MxResume!Justifies.                    *)
(* Identifiers, tickets and secrets appear as fingerprints (strings): "the same" is string equality, and an     *)
(* altered or truncated identifier has a fingerprint nobody issued.                                              *)
(* Lines used: clock, tickkey, sid / sidedit (what a client-side handle holds), new (which handle a client      *)
(* presents), state (a session's view: resumed?, secret, session id, version, suite, extended master secret).    *)
EXTENDS Naturals, Integers, Sequences, FiniteSets, Json, IOUtils, TLC

CONSTANTS Life, Life13
\* the model's constants are not used by Justifies except Life
Clients == {} TableSize == 1 MaxTime == 0 MaxFresh == 0 KeyIds == {} MaxEdits == 0
VARIABLES now, table, chron, tkeys, handle, conn, fresh, issued, lastRes, nedit
M == INSTANCE MxResume

VARIABLES l, held, hnd, pres, sessOf, edited, last, epn, nres
TraceLog == ndJsonDeserialize(IOEnv.TRACE)
Line == TraceLog[l]
tvars == <<l, now, issued, held, hnd, pres, sessOf, edited, last, epn, nres>>
unused == <<table, chron, tkeys, handle, conn, fresh, lastRes, nedit>>

Start == 1790000000
NoH == [idlen |-> 0, idh |-> "-", msfp |-> "-", ticklen |-> 0, tickh |-> "-", tkey |-> -1, psks |-> <<>>]
HOf(t) == [idlen |-> t.idlen, idh |-> t.idh, msfp |-> t.msfp, ticklen |-> t.ticklen, tickh |-> t.tickh, tkey |-> t.tkey, psks |-> t.psks]
Put(f, k, v) == [x \in DOMAIN f \cup {k} |-> IF x = k THEN v ELSE f[x]]
ParOf(t) == [ver |-> t.ver, suite |-> t.suite, ems |-> t.ems]

TInit ==
    /\ l = 1 /\ now = Start /\ issued = {} /\ held = {}
    /\ hnd = [x \in {} |-> NoH] /\ pres = [x \in {} |-> NoH] /\ sessOf = [x \in {} |-> "-"]
    /\ edited = {} /\ last = [x \in {} |-> 0] /\ epn = [x \in {} |-> "-"] /\ nres = 0
    /\ table = 0 /\ chron = 0 /\ tkeys = 0 /\ handle = 0 /\ conn = 0 /\ fresh = 0 /\ lastRes = 0 /\ nedit = 0

IsEv(names) == l <= Len(TraceLog) /\ Line.ev \in names /\ l' = l + 1

TClock == /\ IsEv({"clock"}) /\ now' = Line.now
          /\ UNCHANGED <<issued, held, hnd, pres, sessOf, edited, last, epn, nres>>

TKey == /\ IsEv({"tickkey"})
        /\ held' = IF Line.rcn < 0 THEN held ELSE IF Line.op = "add" THEN held \cup {Line.k} ELSE held \ {Line.k}
        /\ UNCHANGED <<now, issued, hnd, pres, sessOf, edited, last, epn, nres>>

\* a handle after an edit by its holder: whatever it now contains was not issued by anybody
TEdit == /\ IsEv({"sidedit"})
         /\ hnd' = Put(hnd, Line.name, HOf(Line))
         /\ edited' = edited \cup {Line.tickh, Line.idh} \cup {Line.psks[i].idh : i \in 1..Len(Line.psks)} \cup {Line.psks[i].keyh : i \in 1..Len(Line.psks)}
         /\ UNCHANGED <<now, issued, held, pres, sessOf, last, epn, nres>>

\* a handle dumped after a connection: a ticket / PSK it did not hold before was issued by the server in that connection
TSid == /\ IsEv({"sid"})
        /\ LET t == Line
               old == IF t.name \in DOMAIN hnd THEN hnd[t.name] ELSE NoH
               c == IF t.name \in DOMAIN last THEN last[t.name] ELSE [par |-> [ver |-> "-", suite |-> 0, ems |-> 0], msfp |-> "-"]
               newTicket == IF t.ticklen > 0 /\ t.tickh # old.tickh /\ t.tickh \notin edited
                            THEN {[kind |-> "ticket", sid |-> t.tickh, ms |-> t.msfp, par |-> c.par, born |-> now, tkey |-> t.tkey, invalid |-> FALSE]}
                            ELSE {}
               oldPsk == {old.psks[i].keyh : i \in 1..Len(old.psks)}
               newPsks == {[kind |-> "psk", sid |-> t.psks[i].idh, ms |-> t.psks[i].keyh, par |-> c.par, born |-> now, tkey |-> t.psks[i].tkey, invalid |-> FALSE] :
                              i \in {j \in 1..Len(t.psks) : t.psks[j].res = 1 /\ t.psks[j].keyh \notin oldPsk /\ t.psks[j].keyh \notin edited /\ t.psks[j].idh \notin edited}}
           IN /\ hnd' = Put(hnd, t.name, HOf(t))
              /\ issued' = issued \cup newTicket \cup newPsks
        /\ UNCHANGED <<now, held, pres, sessOf, edited, last, epn, nres>>

TNew == /\ IsEv({"new"})
        /\ pres' = IF Line.role = "C" /\ Line.sidn # "-"
                   THEN Put(pres, Line.ep, IF Line.sidn \in DOMAIN hnd THEN hnd[Line.sidn] ELSE NoH) ELSE pres
        /\ epn' = IF Line.role = "C" /\ Line.sidn # "-" THEN Put(epn, Line.ep, Line.sidn) ELSE epn
        /\ UNCHANGED <<now, issued, held, hnd, sessOf, edited, last, nres>>

\* the resumed handshake r of a server must come from an issued, still valid session state
Judge(t, p) ==
    IF t.rmode = "psk" THEN
        \E o \in issued : /\ o.kind = "psk" /\ o.ms = t.cpsk /\ now - o.born <= Life13 /\ o.tkey \in held
                          /\ \E i \in 1..Len(p.psks) : p.psks[i].idh = o.sid /\ p.psks[i].keyh = o.ms
    ELSE LET r == [mode |-> IF t.rmode = "ticket" THEN "ticket" ELSE "id", ms |-> t.msfp, par |-> ParOf(t), at |-> now,
                   sid |-> IF t.rmode = "ticket" THEN p.tickh ELSE t.sidh, tkey |-> IF t.rmode = "ticket" THEN p.tkey ELSE -1,
                   keys |-> held, exact |-> TRUE]
         IN \E o \in issued : M!Justifies(o, r)

TState ==
    /\ IsEv({"state"})
    /\ LET t == Line IN
       IF t.hs = "NOSESSION" THEN UNCHANGED <<issued, sessOf, last, nres>>
       ELSE IF t.role = "C" THEN
            \* remember the parameters of the connection that used a handle (for the ticket it may receive)
            /\ last' = IF t.hc = 1 /\ t.ep \in DOMAIN epn /\ t.err = 0
                       THEN Put(last, epn[t.ep], [par |-> ParOf(t), msfp |-> t.msfp]) ELSE last
            /\ UNCHANGED <<issued, sessOf, nres>>
       ELSE
            LET p == IF t.peer \in DOMAIN pres THEN pres[t.peer] ELSE NoH
                bound == IF t.ep \in DOMAIN sessOf THEN sessOf[t.ep] ELSE "-"
            IN
            \* C14: a server that completed a resumed handshake
            /\ (t.hc = 1 /\ t.resumed = 1 /\ t.err = 0 /\ bound = "-") => Judge(t, p)
            /\ nres' = IF t.hc = 1 /\ t.resumed = 1 /\ bound = "-" THEN nres + 1 ELSE nres
            \* a completed full handshake with a cache entry issues a session id
            /\ LET iss1 == IF t.hc = 1 /\ t.resumed = 0 /\ t.err = 0 /\ t.sidlen = 32 /\ bound = "-" /\ t.ver # "T13"
                           THEN issued \cup {[kind |-> "id", sid |-> t.sidh, ms |-> t.msfp, par |-> ParOf(t), born |-> now, tkey |-> -1, invalid |-> FALSE]}
                           ELSE issued
                   \* a fatal alert on a connection bound to a cached session invalidates it
                   iss2 == IF t.err = 1 /\ bound # "-" THEN {IF o.kind = "id" /\ o.sid = bound THEN [o EXCEPT !.invalid = TRUE] ELSE o : o \in iss1} ELSE iss1
               IN issued' = iss2
            /\ sessOf' = IF t.hc = 1 /\ t.err = 0 /\ bound = "-" /\ t.sidlen > 0 /\ t.ver # "T13" THEN Put(sessOf, t.ep, t.sidh) ELSE sessOf
            /\ UNCHANGED last
    /\ UNCHANGED <<now, held, hnd, pres, edited, epn>>

TReset == /\ IsEv({"Reset"})
          /\ now' = Start /\ issued' = {} /\ held' = {} /\ hnd' = [x \in {} |-> NoH] /\ pres' = [x \in {} |-> NoH]
          /\ sessOf' = [x \in {} |-> "-"] /\ edited' = {} /\ last' = [x \in {} |-> 0] /\ epn' = [x \in {} |-> "-"] /\ UNCHANGED nres

Used == {"clock", "tickkey", "sidedit", "sid", "new", "state", "Reset"}
TOther == /\ l <= Len(TraceLog) /\ Line.ev \notin Used /\ l' = l + 1
          /\ UNCHANGED <<now, issued, held, hnd, pres, sessOf, edited, last, epn, nres>>

TraceNormal == TClock \/ TKey \/ TEdit \/ TSid \/ TNew \/ TState \/ TReset \/ TOther

NextEpisode(i) ==
    LET rs == {j \in i..Len(TraceLog) : TraceLog[j].ev = "Reset"} IN
    IF rs = {} THEN Len(TraceLog) + 1 ELSE (CHOOSE j \in rs : \A k \in rs : j <= k)
TReject ==
    /\ l <= Len(TraceLog) /\ ~ENABLED TraceNormal
    /\ PrintT(<<"TRACE_REJECT_LINE", l, <<"-", "-", "-", FALSE, FALSE>> >>)
    /\ l' = NextEpisode(l)
    /\ UNCHANGED <<now, issued, held, hnd, pres, sessOf, edited, last, epn, nres>>
TDone == /\ l = Len(TraceLog) + 1 /\ PrintT(<<"TRACE_DONE", Len(TraceLog)>>) /\ PrintT(<<"RESUMED_JUDGED", nres>>) /\ l' = l + 1
         /\ UNCHANGED <<now, issued, held, hnd, pres, sessOf, edited, last, epn, nres>>

TraceSpec == TInit /\ [][(TraceNormal \/ TReject \/ TDone) /\ UNCHANGED unused]_<<tvars, unused>>
=============================================================================
