SPECIFICATION Spec
CONSTANTS
  Clients = {a, b}
  TableSize = 1
  Life = 1
  MaxTime = 2
  MaxFresh = 5
  KeyIds = {1, 2}
  MaxEdits = 1
  Pars <- ParsEms
SYMMETRY Sym
CONSTRAINT Bound
INVARIANT ResumeSound
INVARIANT CacheWellFormed
CHECK_DEADLOCK FALSE
