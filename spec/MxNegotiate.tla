----------------------------- MODULE MxNegotiate -----------------------------
(***************************************************************************)
(* Parameter negotiation between a client and a server configuration, with *)
(* a man in the middle who may rewrite one field of a hello message (C07). *)
(*                                                                         *)
(* Versions are numbers 11, 12, 13 (TLS 1.1, 1.2, 1.3).  A configuration:  *)
(*   vers    set of enabled versions                                       *)
(*   suites  set of enabled cipher suites; Family(s) says whether a suite  *)
(*           belongs to TLS 1.3 ("t13") or to the earlier versions ("leg") *)
(*   groups  set of enabled key-exchange groups (TLS 1.3 / ECDHE)          *)
(*   shares  (client) the groups it sends key shares for                   *)
(*   scsv    (client) sends TLS_FALLBACK_SCSV (it is retrying below its    *)
(*           real maximum)                                                 *)
(* The server procedure is the one of hsNegotiateVersion.c / cipherSuite.c *)
(* / tls13KeyAgree.c in abstract form: highest common version; a suite of  *)
(* the matching family enabled by both; for TLS 1.3 a common group, with a *)
(* HelloRetryRequest when the client sent no share for it.                 *)
(***************************************************************************)
EXTENDS Naturals, FiniteSets

Versions == {11, 12, 13}
Suites == {"L1", "L2", "T1", "T2"}
Family(s) == IF s \in {"T1", "T2"} THEN "t13" ELSE "leg"
Groups == {"g1", "g2"}
Edits == {"none", "ch-version-down", "ch-drop-13", "ch-drop-suite", "ch-drop-group", "ch1-swap-share", "sh-version-down", "sh-other-suite", "hrr-other-group"}

Max(S) == CHOOSE x \in S : \A y \in S : y <= x

VARIABLES cc, sc, edit, phase, res
vars == <<cc, sc, edit, phase, res>>

ClientCfgs == [vers : (SUBSET Versions) \ {{}}, suites : (SUBSET Suites) \ {{}}, groups : (SUBSET Groups) \ {{}}, shares : SUBSET Groups, scsv : BOOLEAN]
ServerCfgs == [vers : (SUBSET Versions) \ {{}}, suites : (SUBSET Suites) \ {{}}, groups : (SUBSET Groups) \ {{}}]

\* what the server sees of the client's offer after the attacker's edit of the ClientHello
Offer(c, e) ==
    [vers |-> IF e = "ch-version-down" /\ Cardinality(c.vers) > 1 THEN c.vers \ {Max(c.vers)}
              ELSE IF e = "ch-drop-13" THEN c.vers \ {13} ELSE c.vers,
     suites |-> IF e = "ch-drop-suite" /\ Cardinality(c.suites) > 1 THEN c.suites \ {CHOOSE s \in c.suites : TRUE} ELSE c.suites,
     groups |-> IF e = "ch-drop-group" /\ Cardinality(c.groups) > 1 THEN c.groups \ {CHOOSE g \in c.groups : TRUE} ELSE c.groups,
     shares |-> IF e = "ch1-swap-share" THEN c.groups \ c.shares ELSE c.shares,
     scsv |-> c.scsv]

\* the server's choice from an offer
ServerChoice(o, s) ==
    LET common == o.vers \cap s.vers IN
    IF common = {} THEN [ok |-> FALSE, why |-> "version"]
    ELSE LET v == Max(common)
             fam == IF v = 13 THEN "t13" ELSE "leg"
             cs == {x \in o.suites \cap s.suites : Family(x) = fam}
             cg == o.groups \cap s.groups
         IN IF o.scsv /\ Max(s.vers) > Max(o.vers) THEN [ok |-> FALSE, why |-> "inappropriate_fallback"]
            ELSE IF cs = {} THEN [ok |-> FALSE, why |-> "suite"]
            ELSE IF v = 13 /\ cg = {} THEN [ok |-> FALSE, why |-> "group"]
            ELSE [ok |-> TRUE, ver |-> v, suites |-> cs, groups |-> IF v = 13 THEN cg ELSE {"none"},
                  hrr |-> v = 13 /\ (cg \cap o.shares = {})]

Init == /\ cc \in ClientCfgs /\ sc \in ServerCfgs /\ cc.shares \subseteq cc.groups
        /\ edit \in Edits /\ phase = "start" /\ res = [done |-> FALSE]

\* One step: the whole handshake.  An edited hello never survives the Finished exchange (every byte of every
\* hello, ClientHello1 of a retried TLS 1.3 handshake included, is part of the transcript both sides hash),
\* and a TLS 1.3 capable client refuses a ServerHello below 1.3 that carries the downgrade sentinel.
Handshake ==
    /\ phase = "start"
    /\ LET ch == ServerChoice(Offer(cc, edit), sc) IN
       IF ~ch.ok THEN res' = [done |-> FALSE, why |-> ch.why]
       ELSE \E s \in ch.suites, g \in ch.groups :
            LET applicable == CASE edit = "none" -> FALSE
                                [] edit = "hrr-other-group" -> ch.hrr
                                [] edit = "ch1-swap-share" -> ch.ver = 13
                                [] OTHER -> TRUE
            IN IF applicable THEN res' = [done |-> FALSE, why |-> "transcript"]
               ELSE res' = [done |-> TRUE, ver |-> ch.ver, suite |-> s, group |-> g, hrr |-> ch.hrr]
    /\ phase' = "end" /\ UNCHANGED <<cc, sc, edit>>

Spec == Init /\ [][Handshake]_vars

(* C07 *)
BothEnabled == res.done =>
    /\ res.ver \in cc.vers \cap sc.vers
    /\ res.suite \in cc.suites \cap sc.suites /\ Family(res.suite) = (IF res.ver = 13 THEN "t13" ELSE "leg")
    /\ res.ver = 13 => res.group \in cc.groups \cap sc.groups
HighestVersion == res.done => res.ver = Max(cc.vers \cap sc.vers)
NoSilentDowngrade == (res.done /\ edit # "none") => FALSE      \* an applicable edit never ends in a completed handshake...
\* ...and an edit that was not applicable changed nothing the server looked at
FallbackRefused == (res.done /\ cc.scsv) => Max(sc.vers) <= Max(cc.vers)
=============================================================================
