------------------------------- MODULE MxAuth -------------------------------
(***************************************************************************)
(* Certificate authentication of the peer inside a handshake (C04).        *)
(*                                                                         *)
(* The VERIFIER is the endpoint under test: a client on a certificate      *)
(* based suite, or a server that requests client authentication.  The      *)
(* PROVER is its peer; a scenario fixes what is wrong with the prover:     *)
(*   cred  the validation failure class of the chain it presents (good, or *)
(*         exactly one of SoftCred / HardCred)                             *)
(*   pop   how it proves possession of the leaf key: "ok", a signature     *)
(*         that does not verify (sigflip), a rewritten SignatureScheme     *)
(*         (alg), a valid signature lifted from another handshake (stale), *)
(*         signed parameters changed after signing (paramflip), or a       *)
(*         private key that is not the certificate's (wrongkey)            *)
(* The verifier takes the three steps the code takes (hsDecode.c           *)
(* parseCertificate, parseServerKeyExchange / parseCertificateVerify,      *)
(* parseFinished; tls13Decode.c + tls13Authenticate.c for TLS 1.3).  There *)
(* is no protocol version in this module: the rule of each step is one     *)
(* rule for every version, which is what "identically for every protocol   *)
(* version" asks for; MxAuth_Trace applies it to executions of all of      *)
(* them.                                                                   *)
(***************************************************************************)
EXTENDS Naturals, Sequences, FiniteSets

CbModes  == {"none", "strict", "perm"}
Roles    == {"C", "S"}                  \* role of the verifier
GoodCred == {"ok", "ok_chain"}
SoftCred == {"badsig", "unknownca", "selfsigned", "expired", "notyet", "int_expired", "int_notca", "int_noku",
             "pathlen", "name", "eku", "int_badsig", "noca", "sigcopy"}
HardCred == {"nocert"}                  \* nothing to show to a callback: an empty Certificate message where one is required
CredClasses == GoodCred \cup SoftCred \cup HardCred
PopClasses == {"ok", "sigflip", "alg", "stale", "paramflip", "wrongkey"}

\* The message that carries the signature made with the leaf key.  "none": RSA key transport and static
\* ECDH - possession is proven by being able to compute the Finished message.
Carriers == {"SERVER_KEY_EXCHANGE", "CERTIFICATE_VERIFY", "none"}

\* Alert descriptions (RFC 5246 / 8446 numbers) a class may be reported with - to the callback as its
\* argument and to the peer as the fatal alert.  Transcribed from the switch in parseCertificate /
\* psCheckValidationResult; where the position of the certificate in the chain decides between two
\* values both are listed.
AlertsFor(c) ==
    CASE c \in {"badsig", "int_badsig", "pathlen", "int_notca"} -> {42}
      [] c \in {"expired", "notyet", "int_expired"} -> {45}
      [] c = "name" -> {46}
      [] c \in {"eku", "int_noku"} -> {42, 47}
      [] c \in {"unknownca", "selfsigned", "noca"} -> {48}
      [] c = "sigcopy" -> {42, 48}
      [] OTHER -> {}
AnyAlert == 0..255

Scenario == [role : Roles, cb : CbModes, cred : CredClasses, pop : PopClasses, carrier : Carriers]
WellFormed(sc) ==
    /\ sc.role = "S" => sc.cb # "none" /\ sc.carrier = "CERTIFICATE_VERIFY" /\ sc.cred \notin {"name", "noca"}
    /\ sc.role = "C" => sc.cred # "nocert"
    /\ sc.pop = "paramflip" => sc.carrier = "SERVER_KEY_EXCHANGE"
    /\ sc.carrier = "none" => sc.pop \in {"ok", "wrongkey"}
    /\ sc.cred = "nocert" => sc.pop = "ok"

\* Verifier: phase, the alerts its callback has been called with, the class its callback accepted,
\* the fatal alert it died with (0: none)
InitV == [phase |-> "cert", cbArgs |-> <<>>, accepted |-> "none", alert |-> 0]
Dead(v, a) == [v EXCEPT !.phase = "dead", !.alert = a]

\* Step 1 - the peer's Certificate message: internal validation, then the callback
CertNext(sc, v) ==
    IF v.phase # "cert" THEN {}
    ELSE IF sc.cred \in GoodCred THEN
        {[v EXCEPT !.phase = "pop", !.cbArgs = IF sc.cb = "none" THEN @ ELSE Append(@, 0)]}
    ELSE IF sc.cred \in HardCred THEN
        {Dead(v, a) : a \in AnyAlert \ {0}}
    ELSE IF sc.cb = "none" THEN                                     \* nobody to give it a second look: fatal
        {Dead(v, a) : a \in AlertsFor(sc.cred)}
    ELSE IF sc.cb = "strict" THEN                                   \* callback is told the failure and keeps it
        {Dead([v EXCEPT !.cbArgs = Append(@, a)], a) : a \in AlertsFor(sc.cred)}
    ELSE                                                            \* callback is told the failure and accepts it
        {[v EXCEPT !.phase = "pop", !.cbArgs = Append(@, a), !.accepted = sc.cred] : a \in AlertsFor(sc.cred)}

\* Step 2 - the message signed with the leaf key (absent for key transport / static ECDH)
PopNext(sc, v) ==
    IF v.phase # "pop" \/ sc.carrier = "none" THEN {}
    ELSE IF sc.pop = "ok" THEN {[v EXCEPT !.phase = "fin"]}
    ELSE {Dead(v, a) : a \in AnyAlert \ {0}}

\* Step 3 - the peer's Finished
FinNext(sc, v) ==
    IF ~(v.phase = "fin" \/ (v.phase = "pop" /\ sc.carrier = "none")) THEN {}
    ELSE IF sc.pop = "ok" THEN {[v EXCEPT !.phase = "done"]}
    ELSE {Dead(v, a) : a \in AnyAlert \ {0}}       \* (a peer without the key cannot even get this far in practice)

\* The handshake may also die for reasons outside this module (C06, C02): that never completes it
Abort(v) == IF v.phase \in {"done", "dead"} THEN {} ELSE {Dead(v, a) : a \in {40}}

(* ---- the properties ---- *)
AuthOK(sc, v) ==
    /\ \/ sc.cred \in GoodCred
       \/ /\ sc.cb = "perm" /\ v.accepted = sc.cred
          /\ Len(v.cbArgs) > 0 /\ v.cbArgs[Len(v.cbArgs)] \in AlertsFor(sc.cred)     \* accepted THAT failure, not "no failure"
    /\ sc.pop = "ok"
AuthBeforeComplete(sc, v) == v.phase = "done" => AuthOK(sc, v)
NoCallbackMeansFatal(sc, v) == (sc.cb = "none" /\ sc.cred \notin GoodCred) => v.phase \in {"cert", "dead"}
NeverToldNoFailure(sc, v) == sc.cred \notin GoodCred => \A i \in 1..Len(v.cbArgs) : v.cbArgs[i] # 0
=============================================================================
