SPECIFICATION GOnly
CONSTANTS B = 64
 LB = 8
 MaxMsg = 700
 Chunks <- GChunks
INVARIANTS NeverFullGhash
CHECK_DEADLOCK FALSE
