SPECIFICATION Spec
INVARIANT OrderIndependent
INVARIANT CnOnlyWithoutSan
INVARIANT WildcardOneLabel
CHECK_DEADLOCK FALSE
