SPECIFICATION Spec
INVARIANT OrderIndependent
INVARIANT CnOnlyWithoutSan
INVARIANT WildcardOneLabel
INVARIANT OptAgrees
INVARIANT NarrowerNeverMore
INVARIANT IllegalMatchesNothing
INVARIANT OptOrderIndependent
INVARIANT OptCnOnlyWithoutSan
CHECK_DEADLOCK FALSE
