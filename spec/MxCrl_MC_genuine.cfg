SPECIFICATION Spec
CONSTANTS
  Certs <- MCCerts
  Crls <- MCCrls
  Anchors <- MCAnchors
  Chains <- MCChains
  MaxSteps = 4
  ReauthAlways = FALSE
  PersistReauth = TRUE
PROPERTY NoBogusRevocation
CHECK_DEADLOCK FALSE
