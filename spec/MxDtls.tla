------------------------------- MODULE MxDtls -------------------------------
(***************************************************************************)
(* A DTLS handshake and the data phase over a datagram network that may    *)
(* drop, duplicate, delay and reorder datagrams but not forge them (C16).  *)
(*                                                                         *)
(* Flights (one record per datagram, as the driver delivers them):         *)
(*   1  C -> S  ClientHello                        (message_seq 0)         *)
(*   2  S -> C  ServerHello, ServerHelloDone       (message_seq 0, 1)      *)
(*   3  C -> S  ClientKeyExchange (1), CCS, Finished (2, next epoch)       *)
(*   4  S -> C  CCS, Finished (2, next epoch)                              *)
(* then application records in both directions.  Every endpoint keeps the  *)
(* flight it sent last and rebuilds it - fresh record sequence numbers,    *)
(* the same message_seq, and, as the code does (dtls.c dtlsResendFlight /  *)
(* "the epoch is always incremented when CCS is sent"), a NEW epoch for    *)
(* the Finished of a re-sent CCS flight - when its timer fires on a flight *)
(* boundary (dtls.c canResend) or when it sees a message of the peer's     *)
(* previous flight again.                                                  *)
(*                                                                         *)
(* A record is [from, ep, sq, kind, ms, id]: epoch, sequence number,       *)
(* kind in {"hs","ccs","app"}, message_seq (hs) and payload id (app).      *)
(* The receiver's record layer accepts a protected record (ep > 0) at most *)
(* once (acc: the set of (ep, sq) it has accepted), handshake messages are *)
(* de-duplicated by message_seq.                                           *)
(***************************************************************************)
EXTENDS Naturals, Sequences, FiniteSets

CONSTANTS MaxDrops, MaxDups, MaxTimeouts, MaxApp

Ends == {"C", "S"}
Peer(e) == IF e = "C" THEN "S" ELSE "C"

VARIABLES st, net, drops, dups, touts
vars == <<st, net, drops, dups, touts>>

\* progress of an endpoint through the handshake (what it waits for next)
\*   C: "SH" -> "SHD" -> "CCS" -> "FIN" -> "DONE"         S: "CH" -> "CKE" -> "CCS" -> "FIN" -> "DONE"
Rank(e, w) == IF e = "C" THEN CASE w = "SH" -> 0 [] w = "SHD" -> 1 [] w = "CCS" -> 2 [] w = "FIN" -> 3 [] OTHER -> 4
              ELSE CASE w = "CH" -> 0 [] w = "CKE" -> 1 [] w = "CCS" -> 2 [] w = "FIN" -> 3 [] OTHER -> 4

InitEnd(e) == [wait |-> IF e = "C" THEN "SH" ELSE "CH",
               wEp |-> 0, wSq |-> 0,            \* write epoch and next sequence number in it
               rEp |-> 0,                       \* epoch of the read keys / expected epoch
               acc |-> {},                      \* protected records accepted: <<ep, sq>>
               flight |-> 0,                    \* last flight sent (0: none)
               sentFin |-> FALSE,
               got |-> <<>>,                    \* application payload ids delivered, in order
               nApp |-> 0]                      \* application records sent

Rec(e, s, kind, ms, id) == [from |-> e, ep |-> s.wEp, sq |-> s.wSq, kind |-> kind, ms |-> ms, id |-> id]

\* Sending a flight: returns <<new sender state, set of records>>
SendFlight(e, s, f) ==
    IF f = 1 THEN <<[s EXCEPT !.wSq = @ + 1, !.flight = 1], {Rec(e, s, "hs", 0, 0)}>>
    ELSE IF f = 2 THEN <<[s EXCEPT !.wSq = @ + 2, !.flight = 2],
                         {Rec(e, s, "hs", 0, 0), Rec(e, [s EXCEPT !.wSq = @ + 1], "hs", 1, 0)}>>
    ELSE IF f = 3 THEN
        \* CKE and CCS in the current epoch, Finished first record of the next one
        LET s1 == [s EXCEPT !.wSq = @ + 1]
            s2 == [s1 EXCEPT !.wSq = @ + 1]
            s3 == [s2 EXCEPT !.wEp = @ + 1, !.wSq = 0]
        IN <<[s3 EXCEPT !.wSq = 1, !.flight = 3, !.sentFin = TRUE],
             {Rec(e, s, "hs", 1, 0), Rec(e, s1, "ccs", 0, 0), Rec(e, s3, "hs", 2, 0)}>>
    ELSE
        LET s1 == [s EXCEPT !.wSq = @ + 1]
            s2 == [s1 EXCEPT !.wEp = @ + 1, !.wSq = 0]
        IN <<[s2 EXCEPT !.wSq = 1, !.flight = 4, !.sentFin = TRUE],
             {Rec(e, s, "ccs", 0, 0), Rec(e, s2, "hs", 2, 0)}>>

\* Re-sending the last flight.  The records of the old epoch of a CCS flight go out under the old epoch again
\* (dtlsRevertWriteCipher), numbered after the largest sequence number used; the Finished opens yet another epoch.
Resend(e, s) ==
    IF s.flight \in {1, 2} THEN SendFlight(e, s, s.flight)
    ELSE IF s.flight = 0 THEN <<s, {}>>
    ELSE LET back == [s EXCEPT !.wEp = 0, !.wSq = 10 * s.wEp]      \* old epoch, fresh numbers (abstractly: a disjoint range)
             r == SendFlight(e, back, s.flight)
         IN <<[r[1] EXCEPT !.wEp = s.wEp + 1, !.wSq = 1, !.nApp = s.nApp],
              {IF x.ep = 1 THEN [x EXCEPT !.ep = s.wEp + 1] ELSE x : x \in r[2]}>>

Init ==
    /\ LET c == SendFlight("C", InitEnd("C"), 1) IN
       /\ st = [e \in Ends |-> IF e = "C" THEN c[1] ELSE InitEnd("S")]
       /\ net = c[2]
    /\ drops = 0 /\ dups = 0 /\ touts = 0

Advance(s, w) == [s EXCEPT !.wait = w]

(* The receiver e takes record r. Returns <<new state of e, records e emits, retransmitted?>>.            *)
(* Retransmissions in answer to a repetition draw on the same budget as timer-driven ones: in the code   *)
(* two finished endpoints that have not exchanged application data yet answer each other's re-sent CCS    *)
(* with their own final flight for ever (observed on the implementation; recorded in DESIGN.md).          *)
Receive(e, s, r, budget) ==
    IF r.kind = "app" THEN
        \* application data: only when done, only under the epoch(s) of the established keys, never twice
        IF s.wait = "DONE" /\ r.ep >= 1 /\ <<r.ep, r.sq>> \notin s.acc
        THEN <<[s EXCEPT !.acc = @ \cup {<<r.ep, r.sq>>}, !.got = Append(@, r.id), !.rEp = IF r.ep > @ THEN r.ep ELSE @], {}, FALSE>>
        ELSE <<s, {}, FALSE>>
    ELSE IF r.kind = "ccs" THEN
        IF s.wait = "CCS" THEN <<Advance(s, "FIN"), {}, FALSE>>
        ELSE IF s.wait = "DONE" /\ s.nApp = 0 /\ Len(s.got) = 0 /\ budget
             THEN LET x == Resend(e, s) IN <<x[1], x[2], TRUE>>       \* the peer did not get our final flight: repeat it
        ELSE <<s, {}, FALSE>>
    ELSE \* handshake message
    IF r.ep >= 1 /\ <<r.ep, r.sq>> \in s.acc THEN <<s, {}, FALSE>>                 \* replayed protected record
    ELSE
    \* (a record is marked as accepted when its message is consumed or recognised as a repetition; a Finished
    \* that arrives before its CCS cannot be read and leaves no trace)
    LET s0 == IF r.ep >= 1 THEN [s EXCEPT !.acc = @ \cup {<<r.ep, r.sq>>}] ELSE s IN
    IF e = "S" THEN
        CASE s.wait = "CH" /\ r.ms = 0 /\ r.ep = 0 ->
                 LET x == SendFlight(e, Advance(s0, "CKE"), 2) IN <<x[1], x[2], FALSE>>
          [] s.wait = "CKE" /\ r.ms = 1 /\ r.ep = 0 -> <<Advance(s0, "CCS"), {}, FALSE>>
          [] s.wait = "FIN" /\ r.ms = 2 /\ r.ep >= 1 ->
                 LET x == SendFlight(e, [Advance(s0, "DONE") EXCEPT !.rEp = r.ep], 4) IN <<x[1], x[2], FALSE>>
          \* a message of the client's previous flight again: the client did not get our answer
          [] s.wait = "CKE" /\ r.ms = 0 /\ r.ep = 0 /\ budget -> LET x == Resend(e, s0) IN <<x[1], x[2], TRUE>>
          [] s.wait = "DONE" /\ r.ms = 2 /\ r.ep >= 1 /\ s.nApp = 0 /\ Len(s.got) = 0 /\ budget ->
                 LET x == Resend(e, [s0 EXCEPT !.rEp = IF r.ep > @ THEN r.ep ELSE @]) IN <<x[1], x[2], TRUE>>
          [] OTHER -> <<s, {}, FALSE>>
    ELSE
        CASE s.wait = "SH" /\ r.ms = 0 /\ r.ep = 0 -> <<Advance(s0, "SHD"), {}, FALSE>>
          [] s.wait = "SHD" /\ r.ms = 1 /\ r.ep = 0 ->
                 LET x == SendFlight(e, Advance(s0, "CCS"), 3) IN <<x[1], x[2], FALSE>>
          [] s.wait = "FIN" /\ r.ms = 2 /\ r.ep >= 1 -> <<[Advance(s0, "DONE") EXCEPT !.rEp = r.ep], {}, FALSE>>
          [] OTHER -> <<s, {}, FALSE>>

Deliver(r, keep) ==
    /\ r \in net
    /\ LET e == Peer(r.from)
           x == Receive(e, st[e], r, touts < MaxTimeouts)
       IN /\ st' = [st EXCEPT ![e] = x[1]]
          /\ net' = (IF keep THEN net ELSE net \ {r}) \cup x[2]
          /\ touts' = IF x[3] THEN touts + 1 ELSE touts
    /\ IF keep THEN dups < MaxDups /\ dups' = dups + 1 ELSE UNCHANGED dups
    /\ UNCHANGED drops

Drop(r) == /\ r \in net /\ drops < MaxDrops /\ net' = net \ {r} /\ drops' = drops + 1
           /\ UNCHANGED <<st, dups, touts>>

\* dtls.c canResend: only on a flight boundary
OnBoundary(e, s) == IF e = "C" THEN s.wait \in {"SH", "CCS", "DONE"} ELSE s.wait \in {"CH", "CKE", "DONE"}

Timeout(e) ==
    /\ touts < MaxTimeouts
    /\ st[e].flight # 0 /\ OnBoundary(e, st[e])
    /\ ~(st[e].wait = "DONE" /\ (st[e].nApp > 0 \/ Len(st[e].got) > 0))       \* appDataExch: no handshake resends any more
    /\ LET x == Resend(e, st[e]) IN
       /\ st' = [st EXCEPT ![e] = x[1]]
       /\ net' = net \cup x[2]
    /\ touts' = touts + 1
    /\ UNCHANGED <<drops, dups>>

AppSend(e) ==
    /\ st[e].wait = "DONE" /\ st[e].nApp < MaxApp
    /\ net' = net \cup {Rec(e, st[e], "app", 0, st[e].nApp + 1)}
    /\ st' = [st EXCEPT ![e].wSq = @ + 1, ![e].nApp = @ + 1]
    /\ UNCHANGED <<drops, dups, touts>>

Next ==
    \/ \E r \in net : Deliver(r, FALSE) \/ Deliver(r, TRUE) \/ Drop(r)
    \/ \E e \in Ends : Timeout(e) \/ AppSend(e)

Spec == Init /\ [][Next]_vars
\* the network eventually delivers what is in flight and timers eventually fire
FairSpec == Spec /\ \A e \in Ends : WF_vars(Timeout(e)) /\ WF_vars(\E r \in net : r.from = Peer(e) /\ Deliver(r, FALSE))

(***************************************************************************)
(* C16                                                                     *)
(***************************************************************************)
\* no application payload is delivered twice, and what is delivered was sent
AppOnce == \A e \in Ends :
    /\ \A i, j \in 1..Len(st[e].got) : i # j => st[e].got[i] # st[e].got[j]
    /\ \A i \in 1..Len(st[e].got) : st[e].got[i] \in 1..st[Peer(e)].nApp
\* the handshake never goes back
HsMonotone == [][\A e \in Ends : Rank(e, st[e].wait) <= Rank(e, st'[e].wait)]_vars
\* nobody is done before the peer has at least sent its Finished
DoneMeansPeerFinished == \A e \in Ends : st[e].wait = "DONE" => st[Peer(e)].sentFin
\* with finitely many losses the handshake completes
Completes == <>((\A e \in Ends : st[e].wait = "DONE") \/ touts = MaxTimeouts)
=============================================================================
