SPECIFICATION Spec
INVARIANTS PipelineMatchesTable NoEarlyAccept
CHECK_DEADLOCK FALSE
