SPECIFICATION SigSpec
CONSTANTS
  SigAlgs = {a1, a2, a3}
  KeyCanSign = {a1, a2}
  ServerSignsFromClientListOnly = TRUE
INVARIANT SigBothEnabled
CHECK_DEADLOCK FALSE
