------------------------------- MODULE MxCrl -------------------------------
(***************************************************************************)
(* Revocation part of C03: "no certificate is revoked by an authenticated   *)
(* CRL the application loaded" - and the converse, a chain that meets the    *)
(* rules is accepted.  Unlike the rest of chain validation (MxX509, a        *)
(* function of its arguments) this part has STATE: the process-wide CRL      *)
(* cache g_CRL (crypto/keyformat/crl.c), keyed by issuer name, whose entries *)
(* carry an `authenticated` flag that a validation may change.               *)
(*                                                                         *)
(*   AppLoad(c, ca)   the application parses CRL c, authenticates it        *)
(*                    against CA certificate ca (psX509AuthenticateCRL:     *)
(*                    name match and signature under ca's key; the flag is  *)
(*                    cleared first) - or not at all (ca = NoCert) - and     *)
(*                    psCRL_Update puts it into the cache in place of an     *)
(*                    older CRL of the same issuer.                          *)
(*   Validate(ch, A)  matrixValidateCerts walks the presented chain bottom  *)
(*                    up; psX509AuthenticateCert(sc, ic) checks names,      *)
(*                    consults the cache for sc (psCRL_determineRevoked-    *)
(*                    Status), then the signature.  The cache step: a CRL    *)
(*                    found for sc that is NOT yet authenticated is          *)
(*                    authenticated against sc's successor in the PRESENTED  *)
(*                    chain, if there is one (crl.c: "a CRL for a child     *)
(*                    certificate was fetched out-of-handshake").  Only      *)
(*                    revoked-by-an-authenticated-CRL is fatal; an expired   *)
(*                    CRL decides nothing (ExpiredIgnored).                  *)
(* PersistReauth says whether that opportunistic authentication is written   *)
(* into the shared cache entry (TRUE: the code as found - an impostor parent *)
(* in an attacker's chain could thereby "authenticate" a forged CRL for      *)
(* everybody, AuthGenuine / NoBogusRevocation fail, finding F73) or counts   *)
(* for the validation at hand only (FALSE: the code after the fix).          *)
(* ReauthAlways = TRUE models the change "authenticate against the parent    *)
(* at hand every time" (sensitivity run: LoadedRevocationHonoured fails).    *)
(***************************************************************************)
EXTENDS Integers, Sequences, FiniteSets, TLC

CONSTANTS Certs,        \* set of certificate records [id, subj, iss, key, signer, serial]
          Crls,         \* set of CRL records [id, iss, signer, revoked, expired]
          Anchors,      \* the trust anchors (subset of Certs)
          Chains,       \* the chains a peer may present (sequences over Certs, leaf first)
          MaxSteps, ReauthAlways, PersistReauth

NoCert == [id |-> "none", subj |-> "-", iss |-> "-", key |-> "-", signer |-> "-", serial |-> 0]
Names == {c.subj : c \in Certs}
NoCrl == [id |-> "none"]

VARIABLES cache,     \* [issuer name -> NoCrl or [crl, auth, appAuth]]
          last,      \* outcome of the last validation: [chain, ok, why]
          steps
vars == <<cache, last, steps>>

Init == cache = [n \in Names |-> NoCrl] /\ last = [chain |-> <<>>, ok |-> FALSE, why |-> "init", at |-> 0] /\ steps = 0

\* psX509AuthenticateCRL(ca, crl): internalMatchIssuer (names) and the signature under ca's public key
CrlVerifies(crl, ca) == ca # NoCert /\ ca.subj = crl.iss /\ crl.signer = ca.key

AppLoad(c, ca) ==
    /\ steps < MaxSteps /\ steps' = steps + 1
    /\ LET a == CrlVerifies(c, ca) IN
       cache' = [cache EXCEPT ![c.iss] = [crl |-> c, auth |-> a, appAuth |-> a]]
    /\ UNCHANGED last

(* one psX509AuthenticateCert(sc, ic) step against cache state q; next = successor of sc in the presented chain or NoCert.   *)
(* Returns [q |-> cache after, res |-> "ok" | "dn" | "revoked" | "sig"]                                                    *)
Step(q, sc, ic, next) ==
    IF sc.iss # ic.subj THEN [q |-> q, res |-> "dn"]
    ELSE LET e == q[sc.iss]
             consult == e # NoCrl /\ ~e.crl.expired
             reauth == consult /\ next # NoCert /\ (ReauthAlways \/ ~e.auth)
             e2 == IF reauth THEN [e EXCEPT !.auth = CrlVerifies(e.crl, next)] ELSE e
             q2 == IF reauth /\ PersistReauth THEN [q EXCEPT ![sc.iss] = e2] ELSE q
         IN IF consult /\ e2.auth /\ sc.serial \in e2.crl.revoked THEN [q |-> q2, res |-> "revoked"]
            ELSE IF sc.signer # ic.key THEN [q |-> q2, res |-> "sig"]
            ELSE [q |-> q2, res |-> "ok"]

\* the walk: pairs (ch[i], ch[i+1]) bottom up, then the top certificate against an anchor of matching name
RECURSIVE Walk(_, _, _)
Walk(q, ch, i) ==
    IF i = Len(ch)
    THEN LET top == ch[i]
             cands == {a \in Anchors : a.subj = top.iss}
             tries == {Step(q, top, a, NoCert) : a \in cands}
         IN IF cands = {} THEN [q |-> q, res |-> "noanchor"]
            ELSE IF \E t \in tries : t.res = "ok" THEN CHOOSE t \in tries : t.res = "ok"
            ELSE CHOOSE t \in tries : TRUE
    ELSE LET s == Step(q, ch[i], ch[i + 1], ch[i + 1]) IN
         IF s.res # "ok" THEN s ELSE Walk(s.q, ch, i + 1)

Validate(ch) ==
    /\ steps < MaxSteps /\ steps' = steps + 1
    /\ LET w == Walk(cache, ch, 1) IN
       /\ cache' = w.q
       /\ last' = [chain |-> ch, ok |-> (w.res = "ok"), why |-> w.res, at |-> steps + 1]

Next == (\E c \in Crls, ca \in Anchors \cup {NoCert} : AppLoad(c, ca)) \/ (\E ch \in Chains : Validate(ch))
Spec == Init /\ [][Next]_vars

(* ------------------------------------------------------------------ properties *)
InChain(ch) == {ch[i] : i \in 1..Len(ch)}
\* c is revoked by a CRL the application loaded and authenticated (against one of its trust anchors), still in the cache
RevokedByLoaded(q, c) == q[c.iss] # NoCrl /\ q[c.iss].appAuth /\ ~q[c.iss].crl.expired /\ c.serial \in q[c.iss].crl.revoked
\* the statement: success only if no certificate of the path is revoked by such a CRL (cache as it was when the validation ran
\* is the primed-to-unprimed relation: checked as an action property)
LoadedRevocationHonoured ==
    [][\A ch \in Chains : (last'.at = steps' /\ last'.chain = ch /\ last'.ok) =>
            \A c \in InChain(ch) : ~RevokedByLoaded(cache, c)]_vars
\* the flag never falls below what the application established (the mechanism behind the statement)
AuthNeverLost == \A n \in Names : cache[n] # NoCrl => (cache[n].appAuth => cache[n].auth)
\* certificates that chain to a trust anchor (two levels suffice for the universes used)
IssuedBy(a, b) == a.iss = b.subj /\ a.signer = b.key
T1 == Anchors \cup {a \in Certs : \E b \in Anchors : IssuedBy(a, b)}
TrustedCerts == T1 \cup {a \in Certs : \E b \in T1 : IssuedBy(a, b)}
GenuineCrl(crl) == \E a \in TrustedCerts : CrlVerifies(crl, a)
\* and the flag never rises without a trusted signer: an entry counts as authenticated only if its CRL is signed by the key of a
\* certificate that chains to a trust anchor.  The code as found does not guarantee this (PersistReauth = TRUE, finding F73).
AuthGenuine == \A n \in Names : (cache[n] # NoCrl /\ cache[n].auth) => GenuineCrl(cache[n].crl)
\* converse: a chain that meets the rules (it is accepted when the cache is empty) is not turned away as revoked on the
\* strength of a CRL that no certificate chaining to a trust anchor signed
EmptyCache == [n \in Names |-> NoCrl]
NoBogusRevocation ==
    [][\A ch \in Chains : (last'.at = steps' /\ last'.chain = ch /\ last'.why = "revoked" /\ Walk(EmptyCache, ch, 1).res = "ok") =>
            \E c \in InChain(ch) : cache[c.iss] # NoCrl /\ GenuineCrl(cache[c.iss].crl) /\ c.serial \in cache[c.iss].crl.revoked]_vars
\* vacuity guards (must be violated)
NeverRevoked == last.why # "revoked"
NeverAcceptedWithCrl == ~(last.ok /\ \E n \in Names : cache[n] # NoCrl)
=============================================================================
