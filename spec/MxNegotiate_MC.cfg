SPECIFICATION Spec
INVARIANT BothEnabled
INVARIANT HighestVersion
INVARIANT FallbackRefused
CHECK_DEADLOCK FALSE
