----------------------------- MODULE MxAuth_MC -----------------------------
EXTENDS MxAuth, TLC
VARIABLES sc, v
vars == <<sc, v>>
Init == sc \in {s \in Scenario : WellFormed(s)} /\ v = InitV
Next == /\ v' \in CertNext(sc, v) \cup PopNext(sc, v) \cup FinNext(sc, v) \cup Abort(v)
        /\ UNCHANGED sc
Spec == Init /\ [][Next]_vars
InvAuth == AuthBeforeComplete(sc, v)
InvNoCb == NoCallbackMeansFatal(sc, v)
InvTold == NeverToldNoFailure(sc, v)
\* sanity: a good credential with a good proof is never refused by these three steps (only Abort can end it)
InvGood == (sc.cred \in GoodCred /\ sc.pop = "ok" /\ v.phase = "dead") => v.alert = 40
\* vacuity guards (must be VIOLATED): completion is reachable with a defective credential through a permissive callback
NeverPermAccept == ~(v.phase = "done" /\ sc.cred \in SoftCred)
NeverDone == v.phase # "done"
=============================================================================
