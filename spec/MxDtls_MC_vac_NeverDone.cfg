SPECIFICATION Spec
CONSTANTS
  MaxDrops = 2
  MaxDups = 2
  MaxTimeouts = 2
  MaxApp = 1
INVARIANT NeverDone
CHECK_DEADLOCK FALSE
