SPECIFICATION DOnly
CONSTANTS B = 128
 LB = 16
 MaxMsg = 400
 Chunks <- Chunks128
INVARIANTS TailInv PadInv
CHECK_DEADLOCK FALSE
